package spv

// Opcode numbers, enumerants and names, taken from the SPIR-V specification (unified1).

const (
	OpNop                          = 0
	OpUndef                        = 1
	OpSourceContinued              = 2
	OpSource                       = 3
	OpSourceExtension              = 4
	OpName                         = 5
	OpMemberName                   = 6
	OpString                       = 7
	OpLine                         = 8
	OpExtension                    = 10
	OpExtInstImport                = 11
	OpExtInst                      = 12
	OpMemoryModel                  = 14
	OpEntryPoint                   = 15
	OpExecutionMode                = 16
	OpCapability                   = 17
	OpTypeVoid                     = 19
	OpTypeBool                     = 20
	OpTypeInt                      = 21
	OpTypeFloat                    = 22
	OpTypeVector                   = 23
	OpTypeMatrix                   = 24
	OpTypeImage                    = 25
	OpTypeSampler                  = 26
	OpTypeSampledImage             = 27
	OpTypeArray                    = 28
	OpTypeRuntimeArray             = 29
	OpTypeStruct                   = 30
	OpTypeOpaque                   = 31
	OpTypePointer                  = 32
	OpTypeFunction                 = 33
	OpTypeForwardPointer           = 39
	OpConstantTrue                 = 41
	OpConstantFalse                = 42
	OpConstant                     = 43
	OpConstantComposite            = 44
	OpConstantSampler              = 45
	OpConstantNull                 = 46
	OpSpecConstantTrue             = 48
	OpSpecConstantFalse            = 49
	OpSpecConstant                 = 50
	OpSpecConstantComposite        = 51
	OpSpecConstantOp               = 52
	OpFunction                     = 54
	OpFunctionParameter            = 55
	OpFunctionEnd                  = 56
	OpFunctionCall                 = 57
	OpVariable                     = 59
	OpImageTexelPointer            = 60
	OpLoad                         = 61
	OpStore                        = 62
	OpCopyMemory                   = 63
	OpCopyMemorySized              = 64
	OpAccessChain                  = 65
	OpInBoundsAccessChain          = 66
	OpPtrAccessChain               = 67
	OpArrayLength                  = 68
	OpInBoundsPtrAccessChain       = 70
	OpDecorate                     = 71
	OpMemberDecorate               = 72
	OpDecorationGroup              = 73
	OpGroupDecorate                = 74
	OpGroupMemberDecorate          = 75
	OpVectorExtractDynamic         = 77
	OpVectorInsertDynamic          = 78
	OpVectorShuffle                = 79
	OpCompositeConstruct           = 80
	OpCompositeExtract             = 81
	OpCompositeInsert              = 82
	OpCopyObject                   = 83
	OpTranspose                    = 84
	OpConvertFToU                  = 109
	OpConvertFToS                  = 110
	OpConvertSToF                  = 111
	OpConvertUToF                  = 112
	OpUConvert                     = 113
	OpSConvert                     = 114
	OpFConvert                     = 115
	OpQuantizeToF16                = 116
	OpBitcast                      = 124
	OpSNegate                      = 126
	OpFNegate                      = 127
	OpIAdd                         = 128
	OpFAdd                         = 129
	OpISub                         = 130
	OpFSub                         = 131
	OpIMul                         = 132
	OpFMul                         = 133
	OpUDiv                         = 134
	OpSDiv                         = 135
	OpFDiv                         = 136
	OpUMod                         = 137
	OpSRem                         = 138
	OpSMod                         = 139
	OpFRem                         = 140
	OpFMod                         = 141
	OpVectorTimesScalar            = 142
	OpMatrixTimesScalar            = 143
	OpVectorTimesMatrix            = 144
	OpMatrixTimesVector            = 145
	OpMatrixTimesMatrix            = 146
	OpOuterProduct                 = 147
	OpDot                          = 148
	OpIAddCarry                    = 149
	OpISubBorrow                   = 150
	OpUMulExtended                 = 151
	OpSMulExtended                 = 152
	OpAny                          = 154
	OpAll                          = 155
	OpIsNan                        = 156
	OpIsInf                        = 157
	OpLogicalEqual                 = 164
	OpLogicalNotEqual              = 165
	OpLogicalOr                    = 166
	OpLogicalAnd                   = 167
	OpLogicalNot                   = 168
	OpSelect                       = 169
	OpIEqual                       = 170
	OpINotEqual                    = 171
	OpUGreaterThan                 = 172
	OpSGreaterThan                 = 173
	OpUGreaterThanEqual            = 174
	OpSGreaterThanEqual            = 175
	OpULessThan                    = 176
	OpSLessThan                    = 177
	OpULessThanEqual               = 178
	OpSLessThanEqual               = 179
	OpFOrdEqual                    = 180
	OpFUnordEqual                  = 181
	OpFOrdNotEqual                 = 182
	OpFUnordNotEqual               = 183
	OpFOrdLessThan                 = 184
	OpFUnordLessThan               = 185
	OpFOrdGreaterThan              = 186
	OpFUnordGreaterThan            = 187
	OpFOrdLessThanEqual            = 188
	OpFUnordLessThanEqual          = 189
	OpFOrdGreaterThanEqual         = 190
	OpFUnordGreaterThanEqual       = 191
	OpShiftRightLogical            = 194
	OpShiftRightArithmetic         = 195
	OpShiftLeftLogical             = 196
	OpBitwiseOr                    = 197
	OpBitwiseXor                   = 198
	OpBitwiseAnd                   = 199
	OpNot                          = 200
	OpBitFieldInsert               = 201
	OpBitFieldSExtract             = 202
	OpBitFieldUExtract             = 203
	OpBitReverse                   = 204
	OpBitCount                     = 205
	OpControlBarrier               = 224
	OpMemoryBarrier                = 225
	OpAtomicLoad                   = 227
	OpAtomicStore                  = 228
	OpAtomicExchange               = 229
	OpAtomicCompareExchange        = 230
	OpAtomicCompareExchangeWeak    = 231
	OpAtomicIIncrement             = 232
	OpAtomicIDecrement             = 233
	OpAtomicIAdd                   = 234
	OpAtomicISub                   = 235
	OpAtomicSMin                   = 236
	OpAtomicUMin                   = 237
	OpAtomicSMax                   = 238
	OpAtomicUMax                   = 239
	OpAtomicAnd                    = 240
	OpAtomicOr                     = 241
	OpAtomicXor                    = 242
	OpPhi                          = 245
	OpLoopMerge                    = 246
	OpSelectionMerge               = 247
	OpLabel                        = 248
	OpBranch                       = 249
	OpBranchConditional            = 250
	OpSwitch                       = 251
	OpKill                         = 252
	OpReturn                       = 253
	OpReturnValue                  = 254
	OpUnreachable                  = 255
	OpLifetimeStart                = 256
	OpLifetimeStop                 = 257
	OpNoLine                       = 317
	OpModuleProcessed              = 330
	OpExecutionModeId              = 331
	OpDecorateId                   = 332
	OpCopyLogical                  = 400
	OpTerminateInvocation          = 4416
	OpSDot                         = 4450
	OpUDot                         = 4451
	OpSUDot                        = 4452
	OpTypeRayQueryKHR              = 4472
	OpTypeAccelerationStructureKHR = 5341
	OpDecorateString               = 5632
	OpMemberDecorateString         = 5633
)

// Storage classes.
const (
	SCUniformConstant = 0
	SCInput           = 1
	SCUniform         = 2
	SCOutput          = 3
	SCWorkgroup       = 4
	SCCrossWorkgroup  = 5
	SCPrivate         = 6
	SCFunction        = 7
	SCGeneric         = 8
	SCPushConstant    = 9
	SCAtomicCounter   = 10
	SCImage           = 11
	SCStorageBuffer   = 12
)

// Decorations.
const (
	DecSpecId        = 1
	DecBlock         = 2
	DecBufferBlock   = 3
	DecRowMajor      = 4
	DecColMajor      = 5
	DecArrayStride   = 6
	DecMatrixStride  = 7
	DecBuiltIn       = 11
	DecNonWritable   = 24
	DecNonReadable   = 25
	DecLocation      = 30
	DecBinding       = 33
	DecDescriptorSet = 34
	DecOffset        = 35
)

// BuiltIns (compute).
const (
	BINumWorkgroups        = 24
	BIWorkgroupSize        = 25
	BIWorkgroupId          = 26
	BILocalInvocationId    = 27
	BIGlobalInvocationId   = 28
	BILocalInvocationIndex = 29
)

// Execution models / modes.
const (
	ModelGLCompute  = 5
	ModeLocalSize   = 17
	ModeLocalSizeId = 38
)

type opInfo struct {
	name   string
	hasTyp bool
	hasRes bool
}

// opTable gives the name and result layout of every opcode this reader knows. Opcodes outside
// the table are kept raw (ResultID = TypeID = 0).
var opTable = map[uint16]opInfo{}

// opFast mirrors opTable for opcodes below 512 (no map lookup on the hot path).
var opFast [512]opInfo

func lookupOp(op uint16) (opInfo, bool) {
	if op < 512 {
		return opFast[op], opFast[op].name != ""
	}
	i, ok := opTable[op]
	return i, ok
}

func init() {
	none := func(names map[uint16]string) {
		for k, v := range names {
			opTable[k] = opInfo{v, false, false}
		}
	}
	res := func(names map[uint16]string) {
		for k, v := range names {
			opTable[k] = opInfo{v, false, true}
		}
	}
	tr := func(names map[uint16]string) {
		for k, v := range names {
			opTable[k] = opInfo{v, true, true}
		}
	}
	none(map[uint16]string{
		0: "Nop", 2: "SourceContinued", 3: "Source", 4: "SourceExtension", 5: "Name", 6: "MemberName",
		8: "Line", 10: "Extension", 14: "MemoryModel", 15: "EntryPoint", 16: "ExecutionMode",
		17: "Capability", 39: "TypeForwardPointer", 56: "FunctionEnd", 62: "Store", 63: "CopyMemory",
		64: "CopyMemorySized", 71: "Decorate", 72: "MemberDecorate", 74: "GroupDecorate",
		75: "GroupMemberDecorate", 99: "ImageWrite", 218: "EmitVertex", 219: "EndPrimitive",
		220: "EmitStreamVertex", 221: "EndStreamPrimitive", 224: "ControlBarrier", 225: "MemoryBarrier",
		228: "AtomicStore", 246: "LoopMerge", 247: "SelectionMerge", 249: "Branch",
		250: "BranchConditional", 251: "Switch", 252: "Kill", 253: "Return", 254: "ReturnValue",
		255: "Unreachable", 256: "LifetimeStart", 257: "LifetimeStop", 317: "NoLine",
		319: "AtomicFlagClear", 329: "MemoryNamedBarrier", 330: "ModuleProcessed",
		331: "ExecutionModeId", 332: "DecorateId", 4416: "TerminateInvocation",
		4473: "RayQueryInitializeKHR", 4474: "RayQueryTerminateKHR",
		4475: "RayQueryGenerateIntersectionKHR", 4476: "RayQueryConfirmIntersectionKHR",
		5632: "DecorateString", 5633: "MemberDecorateString",
	})
	res(map[uint16]string{
		7: "String", 11: "ExtInstImport", 19: "TypeVoid", 20: "TypeBool", 21: "TypeInt",
		22: "TypeFloat", 23: "TypeVector", 24: "TypeMatrix", 25: "TypeImage", 26: "TypeSampler",
		27: "TypeSampledImage", 28: "TypeArray", 29: "TypeRuntimeArray", 30: "TypeStruct",
		31: "TypeOpaque", 32: "TypePointer", 33: "TypeFunction", 34: "TypeEvent", 35: "TypeDeviceEvent",
		36: "TypeReserveId", 37: "TypeQueue", 38: "TypePipe", 73: "DecorationGroup", 248: "Label",
		322: "TypePipeStorage", 327: "TypeNamedBarrier", 4472: "TypeRayQueryKHR",
		5341: "TypeAccelerationStructureKHR",
	})
	tr(map[uint16]string{
		1: "Undef", 12: "ExtInst", 41: "ConstantTrue", 42: "ConstantFalse", 43: "Constant",
		44: "ConstantComposite", 45: "ConstantSampler", 46: "ConstantNull", 48: "SpecConstantTrue",
		49: "SpecConstantFalse", 50: "SpecConstant", 51: "SpecConstantComposite", 52: "SpecConstantOp",
		54: "Function", 55: "FunctionParameter", 57: "FunctionCall", 59: "Variable",
		60: "ImageTexelPointer", 61: "Load", 65: "AccessChain", 66: "InBoundsAccessChain",
		67: "PtrAccessChain", 68: "ArrayLength", 69: "GenericPtrMemSemantics",
		70: "InBoundsPtrAccessChain", 77: "VectorExtractDynamic", 78: "VectorInsertDynamic",
		79: "VectorShuffle", 80: "CompositeConstruct", 81: "CompositeExtract", 82: "CompositeInsert",
		83: "CopyObject", 84: "Transpose", 86: "SampledImage", 87: "ImageSampleImplicitLod",
		88: "ImageSampleExplicitLod", 89: "ImageSampleDrefImplicitLod", 90: "ImageSampleDrefExplicitLod",
		91: "ImageSampleProjImplicitLod", 92: "ImageSampleProjExplicitLod",
		93: "ImageSampleProjDrefImplicitLod", 94: "ImageSampleProjDrefExplicitLod", 95: "ImageFetch",
		96: "ImageGather", 97: "ImageDrefGather", 98: "ImageRead", 100: "Image", 101: "ImageQueryFormat",
		102: "ImageQueryOrder", 103: "ImageQuerySizeLod", 104: "ImageQuerySize", 105: "ImageQueryLod",
		106: "ImageQueryLevels", 107: "ImageQuerySamples", 109: "ConvertFToU", 110: "ConvertFToS",
		111: "ConvertSToF", 112: "ConvertUToF", 113: "UConvert", 114: "SConvert", 115: "FConvert",
		116: "QuantizeToF16", 117: "ConvertPtrToU", 118: "SatConvertSToU", 119: "SatConvertUToS",
		120: "ConvertUToPtr", 121: "PtrCastToGeneric", 122: "GenericCastToPtr",
		123: "GenericCastToPtrExplicit", 124: "Bitcast", 126: "SNegate", 127: "FNegate", 128: "IAdd",
		129: "FAdd", 130: "ISub", 131: "FSub", 132: "IMul", 133: "FMul", 134: "UDiv", 135: "SDiv",
		136: "FDiv", 137: "UMod", 138: "SRem", 139: "SMod", 140: "FRem", 141: "FMod",
		142: "VectorTimesScalar", 143: "MatrixTimesScalar", 144: "VectorTimesMatrix",
		145: "MatrixTimesVector", 146: "MatrixTimesMatrix", 147: "OuterProduct", 148: "Dot",
		149: "IAddCarry", 150: "ISubBorrow", 151: "UMulExtended", 152: "SMulExtended", 154: "Any",
		155: "All", 156: "IsNan", 157: "IsInf", 158: "IsFinite", 159: "IsNormal", 160: "SignBitSet",
		161: "LessOrGreater", 162: "Ordered", 163: "Unordered", 164: "LogicalEqual",
		165: "LogicalNotEqual", 166: "LogicalOr", 167: "LogicalAnd", 168: "LogicalNot", 169: "Select",
		170: "IEqual", 171: "INotEqual", 172: "UGreaterThan", 173: "SGreaterThan",
		174: "UGreaterThanEqual", 175: "SGreaterThanEqual", 176: "ULessThan", 177: "SLessThan",
		178: "ULessThanEqual", 179: "SLessThanEqual", 180: "FOrdEqual", 181: "FUnordEqual",
		182: "FOrdNotEqual", 183: "FUnordNotEqual", 184: "FOrdLessThan", 185: "FUnordLessThan",
		186: "FOrdGreaterThan", 187: "FUnordGreaterThan", 188: "FOrdLessThanEqual",
		189: "FUnordLessThanEqual", 190: "FOrdGreaterThanEqual", 191: "FUnordGreaterThanEqual",
		194: "ShiftRightLogical", 195: "ShiftRightArithmetic", 196: "ShiftLeftLogical", 197: "BitwiseOr",
		198: "BitwiseXor", 199: "BitwiseAnd", 200: "Not", 201: "BitFieldInsert", 202: "BitFieldSExtract",
		203: "BitFieldUExtract", 204: "BitReverse", 205: "BitCount", 207: "DPdx", 208: "DPdy",
		209: "Fwidth", 210: "DPdxFine", 211: "DPdyFine", 212: "FwidthFine", 213: "DPdxCoarse",
		214: "DPdyCoarse", 215: "FwidthCoarse", 227: "AtomicLoad", 229: "AtomicExchange",
		230: "AtomicCompareExchange", 231: "AtomicCompareExchangeWeak", 232: "AtomicIIncrement",
		233: "AtomicIDecrement", 234: "AtomicIAdd", 235: "AtomicISub", 236: "AtomicSMin",
		237: "AtomicUMin", 238: "AtomicSMax", 239: "AtomicUMax", 240: "AtomicAnd", 241: "AtomicOr",
		242: "AtomicXor", 245: "Phi", 318: "AtomicFlagTestAndSet", 320: "ImageSparseRead", 321: "SizeOf",
		333: "GroupNonUniformElect", 334: "GroupNonUniformAll", 335: "GroupNonUniformAny",
		336: "GroupNonUniformAllEqual", 337: "GroupNonUniformBroadcast",
		338: "GroupNonUniformBroadcastFirst", 339: "GroupNonUniformBallot",
		340: "GroupNonUniformInverseBallot", 341: "GroupNonUniformBallotBitExtract",
		342: "GroupNonUniformBallotBitCount", 343: "GroupNonUniformBallotFindLSB",
		344: "GroupNonUniformBallotFindMSB", 345: "GroupNonUniformShuffle",
		346: "GroupNonUniformShuffleXor", 347: "GroupNonUniformShuffleUp",
		348: "GroupNonUniformShuffleDown", 349: "GroupNonUniformIAdd", 350: "GroupNonUniformFAdd",
		351: "GroupNonUniformIMul", 352: "GroupNonUniformFMul", 353: "GroupNonUniformSMin",
		354: "GroupNonUniformUMin", 355: "GroupNonUniformFMin", 356: "GroupNonUniformSMax",
		357: "GroupNonUniformUMax", 358: "GroupNonUniformFMax", 359: "GroupNonUniformBitwiseAnd",
		360: "GroupNonUniformBitwiseOr", 361: "GroupNonUniformBitwiseXor",
		362: "GroupNonUniformLogicalAnd", 363: "GroupNonUniformLogicalOr",
		364: "GroupNonUniformLogicalXor", 365: "GroupNonUniformQuadBroadcast",
		366: "GroupNonUniformQuadSwap", 400: "CopyLogical", 401: "PtrEqual", 402: "PtrNotEqual",
		403: "PtrDiff", 4450: "SDot", 4451: "UDot", 4452: "SUDot", 4453: "SDotAccSat",
		4454: "UDotAccSat", 4455: "SUDotAccSat", 4477: "RayQueryProceedKHR",
		4479: "RayQueryGetIntersectionTypeKHR", 6016: "RayQueryGetRayTMinKHR",
		6017: "RayQueryGetRayFlagsKHR", 6018: "RayQueryGetIntersectionTKHR",
		6019: "RayQueryGetIntersectionInstanceCustomIndexKHR", 6020: "RayQueryGetIntersectionInstanceIdKHR",
		6021: "RayQueryGetIntersectionInstanceShaderBindingTableRecordOffsetKHR",
		6022: "RayQueryGetIntersectionGeometryIndexKHR", 6023: "RayQueryGetIntersectionPrimitiveIndexKHR",
		6024: "RayQueryGetIntersectionBarycentricsKHR", 6025: "RayQueryGetIntersectionFrontFaceKHR",
		6026: "RayQueryGetIntersectionCandidateAABBOpaqueKHR",
		6027: "RayQueryGetIntersectionObjectRayDirectionKHR",
		6028: "RayQueryGetIntersectionObjectRayOriginKHR", 6029: "RayQueryGetWorldRayDirectionKHR",
		6030: "RayQueryGetWorldRayOriginKHR", 6031: "RayQueryGetIntersectionObjectToWorldKHR",
		6032: "RayQueryGetIntersectionWorldToObjectKHR", 6035: "AtomicFAddEXT",
	})
	for k, v := range opTable {
		if k < 512 {
			opFast[k] = v
		}
	}
}

// OpcodeName returns the specification's name for an opcode ("Op" prefix included) or "Op#<n>".
func OpcodeName(op uint16) string {
	if i, ok := opTable[op]; ok {
		return "Op" + i.name
	}
	return "Op#" + itoa(int(op))
}

func itoa(n int) string {
	if n == 0 {
		return "0"
	}
	neg := n < 0
	if neg {
		n = -n
	}
	var b [20]byte
	i := len(b)
	for n > 0 {
		i--
		b[i] = byte('0' + n%10)
		n /= 10
	}
	if neg {
		i--
		b[i] = '-'
	}
	return string(b[i:])
}

// GLSL.std.450 extended instruction numbers.
const (
	GRound = 1 + iota
	GRoundEven
	GTrunc
	GFAbs
	GSAbs
	GFSign
	GSSign
	GFloor
	GCeil
	GFract
	GRadians
	GDegrees
	GSin
	GCos
	GTan
	GAsin
	GAcos
	GAtan
	GSinh
	GCosh
	GTanh
	GAsinh
	GAcosh
	GAtanh
	GAtan2
	GPow
	GExp
	GLog
	GExp2
	GLog2
	GSqrt
	GInverseSqrt
	GDeterminant
	GMatrixInverse
	GModf
	GModfStruct
	GFMin
	GUMin
	GSMin
	GFMax
	GUMax
	GSMax
	GFClamp
	GUClamp
	GSClamp
	GFMix
	GIMix
	GStep
	GSmoothStep
	GFma
	GFrexp
	GFrexpStruct
	GLdexp
	GPackSnorm4x8
	GPackUnorm4x8
	GPackSnorm2x16
	GPackUnorm2x16
	GPackHalf2x16
	GPackDouble2x32
	GUnpackSnorm2x16
	GUnpackUnorm2x16
	GUnpackHalf2x16
	GUnpackSnorm4x8
	GUnpackUnorm4x8
	GUnpackDouble2x32
	GLength
	GDistance
	GCross
	GNormalize
	GFaceForward
	GReflect
	GRefract
	GFindILsb
	GFindSMsb
	GFindUMsb
	GInterpolateAtCentroid
	GInterpolateAtSample
	GInterpolateAtOffset
	GNMin
	GNMax
	GNClamp
)

var glslNames = [...]string{"", "Round", "RoundEven", "Trunc", "FAbs", "SAbs", "FSign", "SSign", "Floor",
	"Ceil", "Fract", "Radians", "Degrees", "Sin", "Cos", "Tan", "Asin", "Acos", "Atan", "Sinh", "Cosh",
	"Tanh", "Asinh", "Acosh", "Atanh", "Atan2", "Pow", "Exp", "Log", "Exp2", "Log2", "Sqrt",
	"InverseSqrt", "Determinant", "MatrixInverse", "Modf", "ModfStruct", "FMin", "UMin", "SMin", "FMax",
	"UMax", "SMax", "FClamp", "UClamp", "SClamp", "FMix", "IMix", "Step", "SmoothStep", "Fma", "Frexp",
	"FrexpStruct", "Ldexp", "PackSnorm4x8", "PackUnorm4x8", "PackSnorm2x16", "PackUnorm2x16",
	"PackHalf2x16", "PackDouble2x32", "UnpackSnorm2x16", "UnpackUnorm2x16", "UnpackHalf2x16",
	"UnpackSnorm4x8", "UnpackUnorm4x8", "UnpackDouble2x32", "Length", "Distance", "Cross", "Normalize",
	"FaceForward", "Reflect", "Refract", "FindILsb", "FindSMsb", "FindUMsb", "InterpolateAtCentroid",
	"InterpolateAtSample", "InterpolateAtOffset", "NMin", "NMax", "NClamp"}

// GLSLName returns the GLSL.std.450 instruction name.
func GLSLName(n uint32) string {
	if n > 0 && int(n) < len(glslNames) {
		return glslNames[n]
	}
	return "GLSL#" + itoa(int(n))
}
