package spv

import (
	"math"
	"math/bits"
)

// glsl decodes one GLSL.std.450 extended instruction.
func (d *fdec) glsl(in *Inst, dst int32, inst uint32, ops []uint32) {
	name := glslName(inst)
	rt := d.resType(in)
	need := func(n int) {
		if len(ops) != n {
			d.malf("%s %%%d: needs %d operands, has %d", name, in.ResultID, n, len(ops))
		}
	}
	bad := func() { d.malf("%s %%%d: bad operand or result types", name, in.ResultID) }
	var s [3]int32
	var t [3]*typ
	get := func(n int) {
		need(n)
		for k := 0; k < n; k++ {
			s[k], t[k] = d.val(ops[k])
		}
	}
	same := func(n int, k kind) {
		get(n)
		if !rt.isSV(k) {
			bad()
		}
		for i := 0; i < n; i++ {
			if !t[i].isSV(k) || t[i].flat != rt.flat {
				bad()
			}
			if k == kFloat && t[i] != rt {
				bad()
			}
		}
	}
	di := dinst{op: uint16(xGLSL + inst), dst: dst, n: int32(rt.flat), t: rt}
	switch inst {
	case GRound, GRoundEven, GTrunc, GFAbs, GFSign, GFloor, GCeil, GFract, GRadians, GDegrees, GSin, GCos, GTan,
		GAsin, GAcos, GAtan, GSinh, GCosh, GTanh, GAsinh, GAcosh, GAtanh, GExp, GLog, GExp2, GLog2, GSqrt,
		GInverseSqrt:
		same(1, kFloat)
	case GNormalize:
		same(1, kFloat)
	case GSAbs, GSSign, GFindILsb, GFindSMsb, GFindUMsb:
		same(1, kInt)
	case GAtan2, GPow, GFMin, GFMax, GStep, GNMin, GNMax, GReflect:
		same(2, kFloat)
	case GUMin, GSMin, GUMax, GSMax:
		same(2, kInt)
	case GFClamp, GFMix, GSmoothStep, GFma, GNClamp, GFaceForward:
		same(3, kFloat)
	case GUClamp, GSClamp:
		same(3, kInt)
	case GRefract:
		get(3)
		if !rt.isSV(kFloat) || t[0] != rt || t[1] != rt || t[2] != rt.scalarOf() {
			bad()
		}
	case GLength:
		get(1)
		if rt.kind != kFloat || !t[0].isSV(kFloat) || t[0].scalarOf() != rt {
			bad()
		}
		di.n = int32(t[0].flat)
	case GDistance:
		get(2)
		if rt.kind != kFloat || !t[0].isSV(kFloat) || t[0].scalarOf() != rt || t[1] != t[0] {
			bad()
		}
		di.n = int32(t[0].flat)
	case GCross:
		same(2, kFloat)
		if rt.flat != 3 {
			bad()
		}
	case GDeterminant:
		get(1)
		if t[0].kind != kMatrix || t[0].n != t[0].elem.n || rt != t[0].elem.elem {
			bad()
		}
		di.n = int32(t[0].n)
	case GMatrixInverse:
		get(1)
		if t[0].kind != kMatrix || t[0].n != t[0].elem.n || rt != t[0] {
			bad()
		}
		di.n = int32(t[0].n)
	case GModf, GFrexp:
		get(2)
		if !rt.isSV(kFloat) || t[0] != rt || t[1].kind != kPointer {
			bad()
		}
		pe := t[1].elem
		if inst == GModf && pe != rt {
			bad()
		}
		if inst == GFrexp && (!pe.isSV(kInt) || pe.flat != rt.flat) {
			bad()
		}
		switch t[1].sc {
		case SCFunction, SCPrivate, SCWorkgroup:
		default:
			d.unsup("%s writing through a pointer in storage class %d", name, t[1].sc)
		}
	case GModfStruct, GFrexpStruct:
		get(1)
		if rt.kind != kStruct || len(rt.members) != 2 || rt.members[0] != t[0] || !t[0].isSV(kFloat) {
			bad()
		}
		m1 := rt.members[1]
		if inst == GModfStruct && m1 != t[0] {
			bad()
		}
		if inst == GFrexpStruct && (!m1.isSV(kInt) || m1.flat != t[0].flat) {
			bad()
		}
		di.n = int32(t[0].flat)
	case GLdexp:
		get(2)
		if !rt.isSV(kFloat) || t[0] != rt || !t[1].isSV(kInt) || t[1].flat != rt.flat {
			bad()
		}
	case GPackSnorm4x8, GPackUnorm4x8, GPackSnorm2x16, GPackUnorm2x16, GPackHalf2x16:
		get(1)
		want := 2
		if inst == GPackSnorm4x8 || inst == GPackUnorm4x8 {
			want = 4
		}
		if rt.kind != kInt || t[0].kind != kVector || t[0].elem.kind != kFloat || t[0].n != want {
			bad()
		}
		di.n = int32(want)
	case GUnpackSnorm4x8, GUnpackUnorm4x8, GUnpackSnorm2x16, GUnpackUnorm2x16, GUnpackHalf2x16:
		get(1)
		want := 2
		if inst == GUnpackSnorm4x8 || inst == GUnpackUnorm4x8 {
			want = 4
		}
		if t[0].kind != kInt || rt.kind != kVector || rt.elem.kind != kFloat || rt.n != want {
			bad()
		}
	default:
		d.unsup("%s", name)
	}
	di.a, di.b, di.c = s[0], s[1], s[2]
	d.emit(di)
}

type glslName uint32

func (g glslName) String() string { return "GLSL.std.450 " + GLSLName(uint32(g)) }

func f32(u uint32) float32 { return math.Float32frombits(u) }
func u32(f float32) uint32 { return math.Float32bits(f) }

// r64 rounds a float64 result once to float32 and returns its bits.
func r64(x float64) uint32 { return math.Float32bits(float32(x)) }

// fma32 computes a*b+c with a single rounding to float32.
func fma32(a, b, c float32) float32 {
	p := float64(a) * float64(b) // exact: 48 significant bits at most
	s := p + float64(c)
	if math.IsInf(s, 0) || math.IsNaN(s) {
		return float32(s)
	}
	// error of the float64 addition (TwoSum); round-to-odd so the final rounding is the only one
	bb := s - p
	e := (p - (s - bb)) + (float64(c) - bb)
	if e != 0 {
		sb := math.Float64bits(s)
		if sb&1 == 0 {
			if (e > 0) == (s > 0) {
				sb++
			} else {
				sb--
			}
			s = math.Float64frombits(sb)
		}
	}
	return float32(s)
}

func roundHalfAway(x float32) float32 {
	return float32(math.Round(float64(x)))
}

func fsign(x float32) float32 {
	switch {
	case x > 0:
		return 1
	case x < 0:
		return -1
	}
	return x // +-0 and NaN
}

func fminG(x, y float32) float32 { // GLSL: y < x ? y : x
	if y < x {
		return y
	}
	return x
}
func fmaxG(x, y float32) float32 { // GLSL: x < y ? y : x
	if x < y {
		return y
	}
	return x
}
func nmin(x, y float32) float32 {
	if x != x {
		return y
	}
	if y != y {
		return x
	}
	return fminG(x, y)
}
func nmax(x, y float32) float32 {
	if x != x {
		return y
	}
	if y != y {
		return x
	}
	return fmaxG(x, y)
}

func findSMsb(v uint32) uint32 {
	if int32(v) < 0 {
		v = ^v
	}
	if v == 0 {
		return 0xFFFFFFFF
	}
	return uint32(31 - bits.LeadingZeros32(v))
}

func packNorm(x float32, lo, scale float64) int64 {
	v := float64(x)
	if v != v {
		v = 0 // clamp of NaN is undefined; pick 0
	}
	if v < lo {
		v = lo
	}
	if v > 1 {
		v = 1
	}
	return int64(math.Round(v * scale))
}

func det(m []float64, n int) float64 {
	at := func(c, r int) float64 { return m[c*n+r] }
	switch n {
	case 2:
		return at(0, 0)*at(1, 1) - at(1, 0)*at(0, 1)
	case 3:
		return at(0, 0)*(at(1, 1)*at(2, 2)-at(2, 1)*at(1, 2)) -
			at(1, 0)*(at(0, 1)*at(2, 2)-at(2, 1)*at(0, 2)) +
			at(2, 0)*(at(0, 1)*at(1, 2)-at(1, 1)*at(0, 2))
	}
	// n == 4: Laplace expansion along column 0
	sum := 0.0
	for r := 0; r < 4; r++ {
		sub := minor(m, 4, 0, r)
		v := at(0, r) * det(sub, 3)
		if r%2 == 1 {
			v = -v
		}
		sum += v
	}
	return sum
}

func minor(m []float64, n, dc, dr int) []float64 {
	out := make([]float64, 0, (n-1)*(n-1))
	for c := 0; c < n; c++ {
		if c == dc {
			continue
		}
		for r := 0; r < n; r++ {
			if r == dr {
				continue
			}
			out = append(out, m[c*n+r])
		}
	}
	return out
}

// execGLSL executes a GLSL.std.450 instruction.
func (mc *machine) execGLSL(iv *inv, in *dinst) error {
	regs, pz := iv.regs, iv.pz
	inst := uint32(in.op) - xGLSL
	n := int(in.n)
	d, a, b, c := int(in.dst), int(in.a), int(in.b), int(in.c)
	chk := func(base, w int) error {
		for i := 0; i < w; i++ {
			if pz[base+i] != 0 {
				return mc.poison(GLSLName(inst))
			}
		}
		return nil
	}
	set := func(i int, v uint32) { regs[d+i] = v; pz[d+i] = 0 }
	f := func(base, i int) float64 { return float64(f32(regs[base+i])) }
	switch inst {
	case GRound, GRoundEven, GTrunc, GFAbs, GFSign, GFloor, GCeil, GFract, GRadians, GDegrees, GSin, GCos, GTan,
		GAsin, GAcos, GAtan, GSinh, GCosh, GTanh, GAsinh, GAcosh, GAtanh, GExp, GLog, GExp2, GLog2, GSqrt,
		GInverseSqrt:
		if err := chk(a, n); err != nil {
			return err
		}
		for i := 0; i < n; i++ {
			x := f32(regs[a+i])
			x64 := float64(x)
			var r uint32
			switch inst {
			case GRound:
				r = u32(roundHalfAway(x))
			case GRoundEven:
				r = r64(math.RoundToEven(x64))
			case GTrunc:
				r = r64(math.Trunc(x64))
			case GFAbs:
				r = regs[a+i] &^ 0x80000000
			case GFSign:
				r = u32(fsign(x))
			case GFloor:
				r = r64(math.Floor(x64))
			case GCeil:
				r = r64(math.Ceil(x64))
			case GFract:
				r = u32(float32(x - float32(math.Floor(x64))))
			case GRadians:
				r = r64(x64 * (math.Pi / 180))
			case GDegrees:
				r = r64(x64 * (180 / math.Pi))
			case GSin:
				r = r64(math.Sin(x64))
			case GCos:
				r = r64(math.Cos(x64))
			case GTan:
				r = r64(math.Tan(x64))
			case GAsin:
				r = r64(math.Asin(x64))
			case GAcos:
				r = r64(math.Acos(x64))
			case GAtan:
				r = r64(math.Atan(x64))
			case GSinh:
				r = r64(math.Sinh(x64))
			case GCosh:
				r = r64(math.Cosh(x64))
			case GTanh:
				r = r64(math.Tanh(x64))
			case GAsinh:
				r = r64(math.Asinh(x64))
			case GAcosh:
				r = r64(math.Acosh(x64))
			case GAtanh:
				r = r64(math.Atanh(x64))
			case GExp:
				r = r64(math.Exp(x64))
			case GLog:
				r = r64(math.Log(x64))
			case GExp2:
				r = r64(math.Exp2(x64))
			case GLog2:
				r = r64(math.Log2(x64))
			case GSqrt:
				r = r64(math.Sqrt(x64))
			case GInverseSqrt:
				r = r64(1 / math.Sqrt(x64))
			}
			set(i, r)
		}
	case GSAbs, GSSign, GFindILsb, GFindSMsb, GFindUMsb:
		if err := chk(a, n); err != nil {
			return err
		}
		for i := 0; i < n; i++ {
			x := regs[a+i]
			var r uint32
			switch inst {
			case GSAbs:
				r = x
				if int32(x) < 0 {
					r = -x // wraps for INT_MIN, as 0 - x does
				}
			case GSSign:
				switch {
				case int32(x) > 0:
					r = 1
				case int32(x) < 0:
					r = 0xFFFFFFFF
				}
			case GFindILsb:
				r = 0xFFFFFFFF
				if x != 0 {
					r = uint32(bits.TrailingZeros32(x))
				}
			case GFindSMsb:
				r = findSMsb(x)
			case GFindUMsb:
				r = 0xFFFFFFFF
				if x != 0 {
					r = uint32(31 - bits.LeadingZeros32(x))
				}
			}
			set(i, r)
		}
	case GAtan2, GPow, GFMin, GFMax, GStep, GNMin, GNMax:
		if err := chk(a, n); err != nil {
			return err
		}
		if err := chk(b, n); err != nil {
			return err
		}
		for i := 0; i < n; i++ {
			x, y := f32(regs[a+i]), f32(regs[b+i])
			var r uint32
			switch inst {
			case GAtan2:
				r = r64(math.Atan2(float64(x), float64(y)))
			case GPow:
				r = r64(math.Pow(float64(x), float64(y)))
			case GFMin:
				r = u32(fminG(x, y))
			case GFMax:
				r = u32(fmaxG(x, y))
			case GNMin:
				r = u32(nmin(x, y))
			case GNMax:
				r = u32(nmax(x, y))
			case GStep: // Step(edge, x)
				if y < x {
					r = 0
				} else {
					r = u32(1)
				}
			}
			set(i, r)
		}
	case GUMin, GSMin, GUMax, GSMax:
		if err := chk(a, n); err != nil {
			return err
		}
		if err := chk(b, n); err != nil {
			return err
		}
		for i := 0; i < n; i++ {
			x, y := regs[a+i], regs[b+i]
			r := x
			switch inst {
			case GUMin:
				if y < x {
					r = y
				}
			case GUMax:
				if y > x {
					r = y
				}
			case GSMin:
				if int32(y) < int32(x) {
					r = y
				}
			case GSMax:
				if int32(y) > int32(x) {
					r = y
				}
			}
			set(i, r)
		}
	case GFClamp, GNClamp, GFMix, GSmoothStep, GFma:
		if err := chk(a, n); err != nil {
			return err
		}
		if err := chk(b, n); err != nil {
			return err
		}
		if err := chk(c, n); err != nil {
			return err
		}
		for i := 0; i < n; i++ {
			x, y, z := f32(regs[a+i]), f32(regs[b+i]), f32(regs[c+i])
			var r uint32
			switch inst {
			case GFClamp:
				if y > z { // "Result is undefined if minVal > maxVal."
					return mc.trap("undef-result", "FClamp with minVal > maxVal")
				}
				r = u32(fminG(fmaxG(x, y), z))
			case GNClamp:
				if y > z {
					return mc.trap("undef-result", "NClamp with minVal > maxVal")
				}
				r = u32(nmin(nmax(x, y), z))
			case GFMix: // x*(1-a) + y*a
				r = r64(float64(x)*(1-float64(z)) + float64(y)*float64(z))
			case GSmoothStep: // (edge0, edge1, x)
				t := (float64(z) - float64(x)) / (float64(y) - float64(x))
				if t < 0 {
					t = 0
				} else if t > 1 {
					t = 1
				}
				r = r64(t * t * (3 - 2*t))
			case GFma:
				r = u32(fma32(x, y, z))
			}
			set(i, r)
		}
	case GUClamp, GSClamp:
		if err := chk(a, n); err != nil {
			return err
		}
		if err := chk(b, n); err != nil {
			return err
		}
		if err := chk(c, n); err != nil {
			return err
		}
		for i := 0; i < n; i++ {
			x, lo, hi := regs[a+i], regs[b+i], regs[c+i]
			// "Result is undefined if minVal > maxVal."
			if inst == GUClamp {
				if lo > hi {
					return mc.trap("undef-result", "UClamp with minVal > maxVal")
				}
				if x < lo {
					x = lo
				}
				if x > hi {
					x = hi
				}
			} else {
				if int32(lo) > int32(hi) {
					return mc.trap("undef-result", "SClamp with minVal > maxVal")
				}
				if int32(x) < int32(lo) {
					x = lo
				}
				if int32(x) > int32(hi) {
					x = hi
				}
			}
			set(i, x)
		}
	case GLength, GDistance:
		if err := chk(a, n); err != nil {
			return err
		}
		sum := 0.0
		for i := 0; i < n; i++ {
			v := f(a, i)
			if inst == GDistance {
				if pz[b+i] != 0 {
					return mc.poison("Distance")
				}
				v -= f(b, i)
			}
			sum += v * v
		}
		if n == 1 {
			set(0, r64(math.Abs(math.Sqrt(sum))))
		} else {
			set(0, r64(math.Sqrt(sum)))
		}
	case GNormalize:
		if err := chk(a, n); err != nil {
			return err
		}
		sum := 0.0
		for i := 0; i < n; i++ {
			sum += f(a, i) * f(a, i)
		}
		l := math.Sqrt(sum)
		var out [4]uint32
		for i := 0; i < n; i++ {
			out[i] = r64(f(a, i) / l)
		}
		for i := 0; i < n; i++ {
			set(i, out[i])
		}
	case GCross:
		if err := chk(a, 3); err != nil {
			return err
		}
		if err := chk(b, 3); err != nil {
			return err
		}
		x := [3]float64{f(a, 0), f(a, 1), f(a, 2)}
		y := [3]float64{f(b, 0), f(b, 1), f(b, 2)}
		set(0, r64(x[1]*y[2]-y[1]*x[2]))
		set(1, r64(x[2]*y[0]-y[2]*x[0]))
		set(2, r64(x[0]*y[1]-y[0]*x[1]))
	case GFaceForward, GReflect, GRefract:
		if err := chk(a, n); err != nil {
			return err
		}
		if err := chk(b, n); err != nil {
			return err
		}
		var x, y, z [4]float64
		for i := 0; i < n; i++ {
			x[i], y[i] = f(a, i), f(b, i)
		}
		var out [4]uint32
		switch inst {
		case GFaceForward: // (N, I, Nref): dot(Nref, I) < 0 ? N : -N
			if err := chk(c, n); err != nil {
				return err
			}
			dot := 0.0
			for i := 0; i < n; i++ {
				z[i] = f(c, i)
				dot += z[i] * y[i]
			}
			for i := 0; i < n; i++ {
				if dot < 0 {
					out[i] = regs[a+i]
				} else {
					out[i] = regs[a+i] ^ 0x80000000
				}
			}
		case GReflect: // (I, N): I - 2*dot(N,I)*N
			dot := 0.0
			for i := 0; i < n; i++ {
				dot += y[i] * x[i]
			}
			for i := 0; i < n; i++ {
				out[i] = r64(x[i] - 2*dot*y[i])
			}
		case GRefract: // (I, N, eta)
			if pz[c] != 0 {
				return mc.poison("Refract")
			}
			eta := f(c, 0)
			dot := 0.0
			for i := 0; i < n; i++ {
				dot += y[i] * x[i]
			}
			k := 1 - eta*eta*(1-dot*dot)
			for i := 0; i < n; i++ {
				if k < 0 {
					out[i] = 0
				} else {
					out[i] = r64(eta*x[i] - (eta*dot+math.Sqrt(k))*y[i])
				}
			}
		}
		for i := 0; i < n; i++ {
			set(i, out[i])
		}
	case GDeterminant, GMatrixInverse:
		if err := chk(a, n*n); err != nil {
			return err
		}
		m := make([]float64, n*n)
		for i := range m {
			m[i] = f(a, i)
		}
		dt := det(m, n)
		if inst == GDeterminant {
			set(0, r64(dt))
			break
		}
		// inverse = adjugate / det; adj[c][r] = cofactor(r, c)
		out := make([]uint32, n*n)
		for cc := 0; cc < n; cc++ {
			for r := 0; r < n; r++ {
				var cof float64
				if n == 2 {
					cof = m[(1-r)*2+(1-cc)]
				} else {
					cof = det(minor(m, n, r, cc), n-1)
				}
				if (r+cc)%2 == 1 {
					cof = -cof
				}
				out[cc*n+r] = r64(cof / dt)
			}
		}
		for i := range out {
			set(i, out[i])
		}
	case GModf, GModfStruct, GFrexp, GFrexpStruct:
		w := n
		if inst == GModf || inst == GFrexp {
			w = int(in.t.flat)
		}
		if err := chk(a, w); err != nil {
			return err
		}
		var p1, p2 [4]uint32
		for i := 0; i < w; i++ {
			x := f32(regs[a+i])
			if inst == GModf || inst == GModfStruct {
				wh := float32(math.Trunc(float64(x)))
				fr := float32(x - wh)
				if math.IsInf(float64(x), 0) {
					fr = float32(math.Copysign(0, float64(x)))
				}
				p1[i], p2[i] = u32(fr), u32(wh)
			} else {
				fr, e := math.Frexp(float64(x))
				if x != x || math.IsInf(float64(x), 0) {
					e = 0 // undefined by the specification
				}
				p1[i], p2[i] = u32(float32(fr)), uint32(int32(e))
			}
		}
		if inst == GModfStruct || inst == GFrexpStruct {
			for i := 0; i < w; i++ {
				set(i, p1[i])
				set(w+i, p2[i])
			}
			break
		}
		// pointer form
		if pz[b] != 0 {
			return mc.poison(GLSLName(inst))
		}
		mem, mpz, ok := mc.logical(iv, regs[b])
		if !ok {
			return mc.trap("oob-write", GLSLName(inst)+" through an invalid pointer")
		}
		off := int(regs[b+1])
		for i := 0; i < w; i++ {
			mem[off+i] = p2[i]
			mpz[off+i] = 0
			set(i, p1[i])
		}
	case GLdexp:
		if err := chk(a, n); err != nil {
			return err
		}
		if err := chk(b, n); err != nil {
			return err
		}
		for i := 0; i < n; i++ {
			e := int(int32(regs[b+i]))
			if e > 4000 {
				e = 4000
			} else if e < -4000 {
				e = -4000
			}
			set(i, r64(math.Ldexp(f(a, i), e)))
		}
	case GPackSnorm4x8, GPackUnorm4x8, GPackSnorm2x16, GPackUnorm2x16, GPackHalf2x16:
		if err := chk(a, n); err != nil {
			return err
		}
		var r uint32
		for i := 0; i < n; i++ {
			x := f32(regs[a+i])
			switch inst {
			case GPackSnorm4x8:
				r |= uint32(uint8(int8(packNorm(x, -1, 127)))) << (8 * i)
			case GPackUnorm4x8:
				r |= uint32(uint8(packNorm(x, 0, 255))) << (8 * i)
			case GPackSnorm2x16:
				r |= uint32(uint16(int16(packNorm(x, -1, 32767)))) << (16 * i)
			case GPackUnorm2x16:
				r |= uint32(uint16(packNorm(x, 0, 65535))) << (16 * i)
			case GPackHalf2x16:
				r |= uint32(f32ToF16(x)) << (16 * i)
			}
		}
		set(0, r)
	case GUnpackSnorm4x8, GUnpackUnorm4x8, GUnpackSnorm2x16, GUnpackUnorm2x16, GUnpackHalf2x16:
		if err := chk(a, 1); err != nil {
			return err
		}
		v := regs[a]
		for i := 0; i < n; i++ {
			var r float32
			switch inst {
			case GUnpackSnorm4x8:
				r = float32(int8(v>>(8*i))) / 127
				if r < -1 {
					r = -1
				}
			case GUnpackUnorm4x8:
				r = float32(uint8(v>>(8*i))) / 255
			case GUnpackSnorm2x16:
				r = float32(int16(v>>(16*i))) / 32767
				if r < -1 {
					r = -1
				}
			case GUnpackUnorm2x16:
				r = float32(uint16(v>>(16*i))) / 65535
			case GUnpackHalf2x16:
				r = f16ToF32(uint16(v >> (16 * i)))
			}
			set(i, u32(r))
		}
	default:
		return unsup("GLSL.std.450 %s", GLSLName(inst))
	}
	return nil
}

// f32ToF16 converts with round-to-nearest-even.
func f32ToF16(f float32) uint16 {
	b := math.Float32bits(f)
	sign := uint16(b>>16) & 0x8000
	exp := int(b>>23) & 0xFF
	man := b & 0x7FFFFF
	switch {
	case exp == 0xFF:
		if man != 0 {
			return sign | 0x7E00
		}
		return sign | 0x7C00
	case exp == 0:
		return sign // f32 subnormals are far below the f16 range
	}
	e := exp - 127 + 15
	if e >= 0x1F {
		return sign | 0x7C00
	}
	man |= 0x800000 // implicit bit
	var shift uint
	if e <= 0 {
		if e < -10 {
			return sign
		}
		shift = uint(14 - e) // subnormal result
		e = 0
	} else {
		shift = 13
	}
	half := man >> shift
	rem := man & (1<<shift - 1)
	mid := uint32(1) << (shift - 1)
	if rem > mid || (rem == mid && half&1 == 1) {
		half++
	}
	var out uint32
	if e == 0 {
		out = half // may carry into the exponent field, which is the right result
	} else {
		out = uint32(e)<<10 + (half - 0x400) // carry from rounding propagates into the exponent
	}
	if out >= 0x7C00 {
		return sign | 0x7C00
	}
	return sign | uint16(out)
}

func f16ToF32(h uint16) float32 {
	sign := uint32(h&0x8000) << 16
	exp := int(h>>10) & 0x1F
	man := uint32(h & 0x3FF)
	switch {
	case exp == 0x1F:
		return math.Float32frombits(sign | 0x7F800000 | man<<13)
	case exp == 0:
		if man == 0 {
			return math.Float32frombits(sign)
		}
		v := float32(man) * (1.0 / (1 << 24))
		if sign != 0 {
			v = -v
		}
		return v
	}
	return math.Float32frombits(sign | uint32(exp-15+127)<<23 | man<<13)
}
