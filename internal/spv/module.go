// Package spv is an independent SPIR-V binary reader and interpreter for compute shaders, written
// from the SPIR-V and GLSL.std.450 specifications. It knows nothing of naga.
package spv

import (
	"encoding/binary"
	"fmt"
	"sort"
	"strings"

	"verif/internal/xrt"
)

// Inst is one decoded instruction. Words holds the operand words *after* the first
// (wordcount|opcode) word, i.e. including result type / result id when the opcode has them.
type Inst struct {
	Op       uint16
	Words    []uint32
	ResultID uint32
	TypeID   uint32
}

// Operands returns the operand words after the result type / result id.
func (i *Inst) Operands() []uint32 {
	n := 0
	if i.TypeID != 0 {
		n++
	}
	if i.ResultID != 0 {
		n++
	}
	if n > len(i.Words) {
		return nil
	}
	return i.Words[n:]
}

// Decoration is one OpDecorate / OpMemberDecorate (Member = -1 for the former).
type Decoration struct {
	Target uint32
	Member int
	Dec    uint32
	Args   []uint32
}

// ExecMode is one OpExecutionMode / OpExecutionModeId.
type ExecMode struct {
	Mode uint32
	Args []uint32
	IsID bool
}

// EntryPoint is one OpEntryPoint with its execution modes.
type EntryPoint struct {
	Model     uint32
	ID        uint32
	Name      string
	Interface []uint32
	Modes     []ExecMode
}

// Resource is a buffer variable (StorageBuffer / Uniform storage class) of the module.
type Resource struct {
	ID       uint32
	B        xrt.Binding
	Class    uint32 // SCUniform or SCStorageBuffer
	Storage  bool   // true: storage buffer (StorageBuffer class, or Uniform + BufferBlock)
	ReadOnly bool   // NonWritable on the variable or on every member
}

// Module is a parsed SPIR-V module.
type Module struct {
	Magic        uint32
	Version      [2]uint8 // major, minor
	Generator    uint32
	Bound        uint32
	Schema       uint32
	Instructions []Inst

	Capabilities []uint32
	Extensions   []string
	ExtImports   map[uint32]string
	Addressing   uint32
	MemoryModel  uint32
	Names        map[uint32]string
	MemberNames  map[uint32]map[uint32]string
	Decorations  []Decoration
	EntryPoints  []EntryPoint

	decByID map[uint32][]int // index into Decorations
	prog    *program         // pre-decoded form for Exec
	progErr error
}

// Decorate returns the decorations of id (member = -1: the id itself).
func (m *Module) Decorate(id uint32, member int) []Decoration {
	var out []Decoration
	for _, i := range m.decByID[id] {
		if m.Decorations[i].Member == member {
			out = append(out, m.Decorations[i])
		}
	}
	return out
}

func (m *Module) dec(id uint32, member int, dec uint32) ([]uint32, bool) {
	for _, i := range m.decByID[id] {
		d := &m.Decorations[i]
		if d.Member == member && d.Dec == dec {
			return d.Args, true
		}
	}
	return nil, false
}

func malf(f string, a ...any) error  { return &xrt.Malformed{What: fmt.Sprintf(f, a...)} }
func unsup(f string, a ...any) error { return &xrt.Unsupported{What: fmt.Sprintf(f, a...)} }

// decodeString decodes a nul-terminated UTF-8 literal and returns the number of words it used.
func decodeString(w []uint32) (string, int, bool) {
	var sb strings.Builder
	for i, x := range w {
		for k := 0; k < 4; k++ {
			c := byte(x >> (8 * k))
			if c == 0 {
				return sb.String(), i + 1, true
			}
			sb.WriteByte(c)
		}
	}
	return sb.String(), len(w), false
}

// Parse decodes a SPIR-V binary (header + instruction stream). Unknown opcodes are kept as raw
// instructions. The returned module is immutable and may be Exec'd concurrently.
func Parse(b []byte) (*Module, error) {
	if len(b)%4 != 0 {
		return nil, malf("length %d is not a multiple of 4", len(b))
	}
	if len(b) < 20 {
		return nil, malf("shorter than the 5-word header")
	}
	words := make([]uint32, len(b)/4)
	for i := range words {
		words[i] = binary.LittleEndian.Uint32(b[4*i:])
	}
	if words[0] == 0x03022307 {
		for i := range words {
			words[i] = binary.BigEndian.Uint32(b[4*i:])
		}
	}
	if words[0] != 0x07230203 {
		return nil, malf("bad magic %#x", words[0])
	}
	m := &Module{
		Magic:       words[0],
		Version:     [2]uint8{uint8(words[1] >> 16), uint8(words[1] >> 8)},
		Generator:   words[2],
		Bound:       words[3],
		Schema:      words[4],
		ExtImports:  map[uint32]string{},
		Names:       map[uint32]string{},
		MemberNames: map[uint32]map[uint32]string{},
		decByID:     map[uint32][]int{},
	}
	if words[1]&0xFF0000FF != 0 || m.Version[0] != 1 || m.Version[1] > 6 {
		return nil, malf("bad version word %#x", words[1])
	}
	if m.Bound == 0 || m.Bound > 1<<22 {
		return nil, malf("implausible id bound %d", m.Bound)
	}
	// count instructions
	n := 0
	for p := 5; p < len(words); {
		wc := int(words[p] >> 16)
		if wc == 0 {
			return nil, malf("instruction at word %d has word count 0", p)
		}
		if p+wc > len(words) {
			return nil, malf("instruction at word %d (%s, %d words) overruns the module", p, OpcodeName(uint16(words[p])), wc)
		}
		p += wc
		n++
	}
	m.Instructions = make([]Inst, 0, n)
	for p := 5; p < len(words); {
		wc := int(words[p] >> 16)
		op := uint16(words[p])
		in := Inst{Op: op, Words: words[p+1 : p+wc : p+wc]}
		if info, ok := lookupOp(op); ok {
			k := 0
			if info.hasTyp {
				if len(in.Words) <= k {
					return nil, malf("%s at word %d lacks a result type", OpcodeName(op), p)
				}
				in.TypeID = in.Words[k]
				k++
			}
			if info.hasRes {
				if len(in.Words) <= k {
					return nil, malf("%s at word %d lacks a result id", OpcodeName(op), p)
				}
				in.ResultID = in.Words[k]
			}
			if in.ResultID >= m.Bound || in.TypeID >= m.Bound || (info.hasRes && in.ResultID == 0) || (info.hasTyp && in.TypeID == 0) {
				return nil, malf("%s at word %d: id out of range of bound %d", OpcodeName(op), p, m.Bound)
			}
		}
		m.Instructions = append(m.Instructions, in)
		p += wc
	}
	if err := m.index(); err != nil {
		return nil, err
	}
	m.prog, m.progErr = buildProgram(m)
	return m, nil
}

// index collects the debug / annotation / mode-setting information.
func (m *Module) index() error {
	for idx := range m.Instructions {
		in := &m.Instructions[idx]
		w := in.Words
		short := func() error { return malf("%s: too few operands", OpcodeName(in.Op)) }
		switch in.Op {
		case OpCapability:
			if len(w) < 1 {
				return short()
			}
			m.Capabilities = append(m.Capabilities, w[0])
		case OpExtension:
			s, _, ok := decodeString(w)
			if !ok {
				return malf("OpExtension: unterminated string")
			}
			m.Extensions = append(m.Extensions, s)
		case OpExtInstImport:
			s, _, ok := decodeString(w[1:])
			if !ok {
				return malf("OpExtInstImport: unterminated string")
			}
			m.ExtImports[in.ResultID] = s
		case OpMemoryModel:
			if len(w) < 2 {
				return short()
			}
			m.Addressing, m.MemoryModel = w[0], w[1]
		case OpEntryPoint:
			if len(w) < 3 {
				return short()
			}
			s, used, ok := decodeString(w[2:])
			if !ok {
				return malf("OpEntryPoint: unterminated name")
			}
			m.EntryPoints = append(m.EntryPoints, EntryPoint{Model: w[0], ID: w[1], Name: s,
				Interface: append([]uint32(nil), w[2+used:]...)})
		case OpExecutionMode, OpExecutionModeId:
			if len(w) < 2 {
				return short()
			}
			found := false
			for i := range m.EntryPoints {
				if m.EntryPoints[i].ID == w[0] {
					m.EntryPoints[i].Modes = append(m.EntryPoints[i].Modes,
						ExecMode{Mode: w[1], Args: w[2:], IsID: in.Op == OpExecutionModeId})
					found = true
				}
			}
			if !found {
				return malf("OpExecutionMode targets %%%d which is not an entry point", w[0])
			}
		case OpName:
			if len(w) < 2 {
				return short()
			}
			s, _, _ := decodeString(w[1:])
			m.Names[w[0]] = s
		case OpMemberName:
			if len(w) < 3 {
				return short()
			}
			s, _, _ := decodeString(w[2:])
			if m.MemberNames[w[0]] == nil {
				m.MemberNames[w[0]] = map[uint32]string{}
			}
			m.MemberNames[w[0]][w[1]] = s
		case OpDecorate, OpDecorateId, OpDecorateString:
			if len(w) < 2 {
				return short()
			}
			m.decByID[w[0]] = append(m.decByID[w[0]], len(m.Decorations))
			m.Decorations = append(m.Decorations, Decoration{Target: w[0], Member: -1, Dec: w[1], Args: w[2:]})
		case OpMemberDecorate, OpMemberDecorateString:
			if len(w) < 3 {
				return short()
			}
			m.decByID[w[0]] = append(m.decByID[w[0]], len(m.Decorations))
			m.Decorations = append(m.Decorations, Decoration{Target: w[0], Member: int(w[1]), Dec: w[2], Args: w[3:]})
		}
	}
	return nil
}

// Resources lists the buffer variables of the module in ascending binding order.
func (m *Module) Resources() []Resource {
	if m.prog == nil {
		return nil
	}
	out := append([]Resource(nil), m.prog.resources...)
	sort.Slice(out, func(i, j int) bool {
		if out[i].B.Group != out[j].B.Group {
			return out[i].B.Group < out[j].B.Group
		}
		return out[i].B.Binding < out[j].B.Binding
	})
	return out
}

// ComputeEntryPoints returns the names of the GLCompute entry points in module order.
func (m *Module) ComputeEntryPoints() []string {
	var out []string
	for _, e := range m.EntryPoints {
		if e.Model == ModelGLCompute {
			out = append(out, e.Name)
		}
	}
	return out
}

// LocalSize returns the workgroup size of the named GLCompute entry point ("" = first).
func (m *Module) LocalSize(name string) ([3]uint32, error) {
	if m.prog == nil {
		return [3]uint32{}, m.progErr
	}
	ep, err := m.prog.entry(name)
	if err != nil {
		return [3]uint32{}, err
	}
	return ep.local, nil
}
