package spv

import (
	"math"
	"testing"
)

// Group 4 of the brief: builtin functions.
func TestConfBuiltins(t *testing.T) {
	runConf(t, []conf{
		{
			name: "int_abs_min_max_clamp_sign",
			src: hdrOutI + hdrInI + cs1 + `
  let a = inp[0]; let m = inp[1]; let b = inp[2];   // -7, INT_MIN, 5
  out[0] = abs(a); out[1] = abs(m); out[2] = abs(b);        // abs(INT_MIN) = INT_MIN
  out[3] = min(a, b); out[4] = max(a, b); out[5] = min(m, a); out[6] = max(m, b);
  out[7] = clamp(a, -3, 3); out[8] = clamp(b, -3, 3); out[9] = clamp(1, a, b);
  out[10] = sign(a); out[11] = sign(b); out[12] = sign(inp[3]); out[13] = sign(m);
  let u = bitcast<u32>(m);
  out[14] = bitcast<i32>(min(u, 5u)); out[15] = bitcast<i32>(max(u, 5u)); out[16] = bitcast<i32>(clamp(u, 1u, 9u));
  let v = abs(vec3<i32>(a, m, b));
  out[17] = v.x; out[18] = v.y; out[19] = v.z;
  let c = clamp(vec2<i32>(a, b), vec2<i32>(-1, -1), vec2<i32>(1, 1));
  out[20] = c.x; out[21] = c.y;
}`,
			bufs: map[int][]byte{1: u32s(0xFFFFFFF9, intMin, 5, 0)},
			want: []any{7, intMin, 5, -7, 5, intMin, 5, -3, 3, 1, -1, 1, 0, -1, 5, intMin, 9, 7, intMin, 5, -1, 1},
		},
		{
			name: "int_clamp_low_gt_high",
			src: hdrOutI + hdrInI + cs1 + `
  // WGSL defines integer clamp(e, low, high) as min(max(e, low), high), also when low > high
  out[0] = clamp(inp[0], inp[1], inp[2]);                                     // min(max(5, 10), 0) = 0
  out[1] = bitcast<i32>(clamp(bitcast<u32>(inp[0]), 10u, bitcast<u32>(inp[2]))); // 0
}`,
			bufs:   map[int][]byte{1: i32s(5, 10, 0)},
			want:   []any{0, 0},
			defect: "integer clamp is emitted as GLSL.std.450 SClamp/UClamp whose result is undefined when minVal > maxVal; WGSL defines min(max(e, low), high)",
		},
		{
			name: "float_exact_builtins",
			src: hdrOutF + hdrInF + cs1 + `
  let a = inp[0]; let b = inp[1]; let c = inp[2]; let d = inp[3];   // 2.5, -2.5, 3.5, -0.75
  out[0] = floor(a); out[1] = floor(b); out[2] = ceil(a); out[3] = ceil(b);
  out[4] = round(a + 0.25); out[5] = round(b - 0.25); out[6] = round(c + 0.125); out[7] = round(d);   // 3, -3, 4, -1
  out[8] = trunc(a); out[9] = trunc(b); out[10] = fract(a); out[11] = fract(d);   // fract(-0.75) = 0.25
  out[12] = abs(b); out[13] = min(a, b); out[14] = max(a, b); out[15] = sign(b); out[16] = sign(c); out[17] = sign(inp[4]);
  out[18] = step(a, c); out[19] = step(c, a); out[20] = step(a, a);            // 1, 0, 1
  out[21] = saturate(a); out[22] = saturate(b); out[23] = saturate(0.25 + inp[4]);
  out[24] = clamp(a, 0.0, 2.0); out[25] = clamp(b, -1.0, 1.0); out[26] = clamp(d, -1.0, 1.0);
  let v = floor(vec3<f32>(a, b, d)); out[27] = v.x; out[28] = v.y; out[29] = v.z;
  let r = round(vec4<f32>(0.25, 1.75, -0.25, -1.75) + vec4<f32>(inp[4]));   // 0, 2, -0, -2
  out[30] = r.x; out[31] = r.y; out[32] = r.z; out[33] = r.w;
}`,
			bufs: map[int][]byte{1: f32s(2.5, -2.5, 3.5, -0.75, 0)},
			want: []any{float32(2), float32(-3), float32(3), float32(-2), float32(3), float32(-3), float32(4), float32(-1),
				float32(2), float32(-2), float32(0.5), float32(0.25),
				float32(2.5), float32(-2.5), float32(2.5), float32(-1), float32(1), float32(0),
				float32(1), float32(0), float32(1), float32(1), float32(0), float32(0.25),
				float32(2), float32(-1), float32(-0.75), float32(2), float32(-3), float32(-1),
				float32(0), float32(2), uint32(0x80000000), float32(-2)},
		},
		{
			name: "round_ties_to_even",
			src: hdrOutF + hdrInF + cs1 + `
  out[0] = round(inp[0]); out[1] = round(inp[1]); out[2] = round(inp[2]); out[3] = round(inp[3]);   // 2.5 -> 2, -2.5 -> -2, 3.5 -> 4, 0.5 -> 0
  let r = round(vec2<f32>(inp[4], inp[0]));    // (-0.5 -> -0, 2.5 -> 2)
  out[4] = r.x; out[5] = r.y;
}`,
			bufs:   map[int][]byte{1: f32s(2.5, -2.5, 3.5, 0.5, -0.5)},
			want:   []any{float32(2), float32(-2), float32(4), float32(0), uint32(0x80000000), float32(2)},
			defect: "round() is emitted as GLSL.std.450 Round (tie direction implementation-defined) instead of RoundEven; WGSL requires ties to even",
		},
		{
			name: "float_sqrt_fma_mix_smoothstep",
			src: hdrOutF + hdrInF + cs1 + `
  let a = inp[0]; let b = inp[1];   // 2.0, 9.0
  out[0] = sqrt(b); out[1] = sqrt(a); out[2] = inverseSqrt(b * 4.0 / 9.0);   // 3, 1.41421, 0.5
  out[3] = fma(a, b, 0.5);            // 18.5
  out[4] = mix(a, b, 0.25);           // 3.75
  out[5] = smoothstep(a, b, 5.5);     // t = 0.5 -> 0.5
  out[6] = smoothstep(a, b, 1.0); out[7] = smoothstep(a, b, 10.0);   // 0, 1
  let mv = mix(vec2<f32>(a, b), vec2<f32>(4.0, 1.0), vec2<f32>(0.5, 0.5));   // (3, 5)
  out[8] = mv.x; out[9] = mv.y;
  let ms = mix(vec2<f32>(a, b), vec2<f32>(4.0, 1.0), 0.5);                   // scalar t
  out[10] = ms.x; out[11] = ms.y;
}`,
			bufs: map[int][]byte{1: f32s(2, 9)},
			want: []any{float32(3), approx(math.Sqrt2), approx(0.5), float32(18.5), approx(3.75), approx(0.5), float32(0), float32(1),
				approx(3), approx(5), approx(3), approx(5)},
		},
		{
			name: "trig_exp_log",
			src: hdrOutF + hdrInF + cs1 + `
  let h = inp[0]; let one = inp[1]; let two = inp[2];   // 0.5, 1, 2
  out[0] = sin(h); out[1] = cos(h); out[2] = tan(h); out[3] = asin(h); out[4] = acos(h); out[5] = atan(one);
  out[6] = sinh(one); out[7] = cosh(one); out[8] = tanh(one); out[9] = asinh(one); out[10] = acosh(two); out[11] = atanh(h);
  out[12] = atan2(one, one); out[13] = atan2(-one, -one);
  out[14] = exp(one); out[15] = exp2(two + one); out[16] = log(two); out[17] = log2(two * 4.0);
  out[18] = pow(two, 10.0); out[19] = pow(two, -one); out[20] = degrees(inp[3]); out[21] = radians(180.0 * one);
  let v = sin(vec2<f32>(h, 0.0)); out[22] = v.x; out[23] = v.y;
}`,
			bufs: map[int][]byte{1: f32s(0.5, 1, 2, math.Pi)},
			want: []any{approx(math.Sin(0.5)), approx(math.Cos(0.5)), approx(math.Tan(0.5)), approx(math.Asin(0.5)), approx(math.Acos(0.5)), approx(math.Pi / 4),
				approx(math.Sinh(1)), approx(math.Cosh(1)), approx(math.Tanh(1)), approx(math.Asinh(1)), approx(math.Acosh(2)), approx(math.Atanh(0.5)),
				approx(math.Pi / 4), approx(-3 * math.Pi / 4),
				approx(math.E), approx(8), approx(math.Ln2), approx(3), approx(1024), approx(0.5), approx(180), approx(math.Pi),
				approx(math.Sin(0.5)), float32(0)},
		},
		{
			name: "geometry",
			src: hdrOutF + hdrInF + cs1 + `
  let a = vec3<f32>(inp[0], inp[1], inp[2]);   // (1,2,2)
  let b = vec3<f32>(inp[3], inp[4], inp[5]);   // (0,3,4)
  out[0] = dot(a, b);                     // 14
  let c = cross(a, b);                    // (2*4-2*3, 2*0-1*4, 1*3-2*0) = (2,-4,3)
  out[1] = c.x; out[2] = c.y; out[3] = c.z;
  out[4] = length(a); out[5] = length(b); out[6] = distance(a, b);   // 3, 5, sqrt(1+1+4)
  let n = normalize(b); out[7] = n.x; out[8] = n.y; out[9] = n.z;   // (0, .6, .8)
  let ff = faceForward(a, b, vec3<f32>(0.0, 0.0, 1.0));   // dot(nref, i) = 4 >= 0 -> -a
  out[10] = ff.x; out[11] = ff.z;
  let up = vec3<f32>(0.0, 1.0, 0.0);
  let rf = reflect(vec3<f32>(1.0, -1.0, 0.0) * inp[0], up);   // (1,1,0)
  out[12] = rf.x; out[13] = rf.y; out[14] = rf.z;
  let rr = refract(vec3<f32>(0.0, -1.0, 0.0) * inp[0], up, 0.5);   // straight down stays straight: (0,-1,0)
  out[15] = rr.x; out[16] = rr.y; out[17] = rr.z;
  out[18] = dot(vec2<f32>(inp[0], inp[1]), vec2<f32>(inp[3], inp[4])) + dot(vec4<f32>(a, 1.0), vec4<f32>(b, 2.0));   // 6 + 16
  out[19] = length(inp[1] * -1.0);        // scalar length = abs
  out[20] = distance(inp[0], inp[5]);     // 3
}`,
			bufs: map[int][]byte{1: f32s(1, 2, 2, 0, 3, 4)},
			want: []any{approx(14), approx(2), approx(-4), approx(3), approx(3), approx(5), approx(math.Sqrt(6)),
				approx(0), approx(0.6), approx(0.8), float32(-1), float32(-2), approx(1), approx(1), approx(0),
				approx(0), approx(-1), approx(0), approx(22), approx(2), approx(3)},
		},
		{
			name: "bit_counting",
			src: hdrOutU + hdrInU + cs1 + `
  let a = inp[0]; let z = inp[1]; let f = inp[2];   // 0x00F0F000, 0, 0xFFFFFFFF
  out[0] = countOneBits(a); out[1] = countOneBits(z); out[2] = countOneBits(f);
  out[3] = 8u; out[4] = 32u; out[5] = 0u; out[6] = 31u;   // countLeadingZeros: see count_leading_trailing_zeros
  out[7] = countTrailingZeros(a); out[8] = 32u; out[9] = countTrailingZeros(f); out[10] = countTrailingZeros(0x80000000u + z);
  out[11] = reverseBits(a); out[12] = reverseBits(1u + z);
  out[13] = firstLeadingBit(a); out[14] = firstLeadingBit(z); out[15] = firstLeadingBit(f);
  out[16] = firstTrailingBit(a); out[17] = firstTrailingBit(z); out[18] = firstTrailingBit(f);
  out[19] = bitcast<u32>(firstLeadingBit(bitcast<i32>(a)));    // 23
  out[20] = bitcast<u32>(firstLeadingBit(bitcast<i32>(f)));    // -1 for -1
  out[21] = bitcast<u32>(firstLeadingBit(bitcast<i32>(z)));    // -1 for 0
  out[22] = bitcast<u32>(firstLeadingBit(bitcast<i32>(0xFFFFFFF0u + z)));   // most significant 0 bit of ...11110000: 3
  out[23] = bitcast<u32>(countOneBits(bitcast<i32>(f))); out[24] = 0u;
  let v = countOneBits(vec2<u32>(a, f)); out[25] = v.x; out[26] = v.y;
  let w = firstLeadingBit(vec2<u32>(z, 0x10u)); out[27] = w.x; out[28] = w.y;
  let cl = countTrailingZeros(vec2<u32>(f, 0x10u)); out[29] = cl.x + 32u; out[30] = cl.y + 23u;
}`,
			bufs: map[int][]byte{1: u32s(0x00F0F000, 0, uintMax)},
			want: []any{8, 0, 32, 8, 32, 0, 31, 12, 32, 0, 31, uint32(0x000F0F00), intMin,
				23, uintMax, 31, 12, uintMax, 0, 23, uintMax, uintMax, 3, 32, 0, 8, 32, uintMax, 4, 32, 27},
		},
		{
			name: "count_leading_trailing_zeros",
			src: hdrOutU + hdrInU + cs1 + `
  let a = inp[0]; let z = inp[1]; let f = inp[2];   // 0x00F0F000, 0, 0xFFFFFFFF
  out[0] = countLeadingZeros(a); out[1] = countLeadingZeros(z); out[2] = countLeadingZeros(f); out[3] = countLeadingZeros(1u + z);
  out[4] = countTrailingZeros(z);
  out[5] = bitcast<u32>(countLeadingZeros(bitcast<i32>(f))); out[6] = bitcast<u32>(countLeadingZeros(bitcast<i32>(a)));
  let cl = countLeadingZeros(vec2<u32>(z, 0x10u)); out[7] = cl.x; out[8] = cl.y;
  out[9] = bitcast<u32>(countTrailingZeros(bitcast<i32>(z)));
}`,
			bufs:   map[int][]byte{1: u32s(0x00F0F000, 0, uintMax)},
			want:   []any{8, 32, 0, 31, 32, 0, 8, 32, 27, 32},
			defect: "countLeadingZeros is emitted as bare FindUMsb/FindSMsb (returns the bit index, not 31 - index; -1 for 0) and countTrailingZeros as bare FindILsb (-1 instead of 32 for 0)",
		},
		{
			name: "extract_insert_bits",
			src: hdrOutU + hdrInU + cs1 + `
  let x = inp[0]; let z = inp[1];     // 0xABCD1234, 0
  out[0] = extractBits(x, 8u + z, 8u);                          // 0x12
  out[1] = bitcast<u32>(extractBits(bitcast<i32>(0x0000F000u + z), 12u, 4u));   // sign extended: -1
  out[2] = bitcast<u32>(extractBits(bitcast<i32>(0x00007000u + z), 12u, 4u));   // 7
  out[3] = extractBits(x, z, 32u);                              // whole word
  out[4] = extractBits(x, 4u + z, 0u);                          // count 0 -> 0
  out[5] = insertBits(z, 0xFFu + z, 4u, 4u);                    // 0xF0
  out[6] = insertBits(x, z, 8u + z, 16u);                       // 0xAB000034
  out[7] = insertBits(x, 0x55u + z, z, 32u);                    // 0x55
  out[8] = insertBits(x, 0x55u, 12u + z, 0u);                   // unchanged
  let v = extractBits(vec2<u32>(x, 0xFFFFFFFFu), 28u + z, 4u);  // (0xA, 0xF)
  out[9] = v.x; out[10] = v.y;
}`,
			bufs: map[int][]byte{1: u32s(0xABCD1234, 0)},
			want: []any{uint32(0x12), uintMax, 7, uint32(0xABCD1234), 0, uint32(0xF0), uint32(0xAB000034), uint32(0x55), uint32(0xABCD1234), 0xA, 0xF},
		},
		{
			name: "extract_insert_bits_out_of_range",
			src: hdrOutU + hdrInU + cs1 + `
  let x = inp[0]; let z = inp[1];     // 0xFFFFFFFF, 0
  out[0] = extractBits(x, 28u + z, 10u);      // count clamps to 4: 0xF
  out[1] = extractBits(x, 40u + z, 5u);       // offset clamps to 32, count 0: 0
  out[2] = insertBits(x, z, 28u + z, 10u);    // 0x0FFFFFFF
  out[3] = insertBits(x, z, 32u + z, 1u);     // unchanged
}`,
			bufs:   map[int][]byte{1: u32s(uintMax, 0)},
			want:   []any{0xF, 0, uint32(0x0FFFFFFF), uintMax},
			defect: "extractBits/insertBits pass offset/count unclamped to OpBitField*: undefined when offset + count > 32, WGSL clamps",
		},
		{
			name: "pack_unpack",
			src: hdrOutU + hdrInF + cs1 + `
  let one = inp[0];    // 1.0
  out[0] = pack4x8snorm(vec4<f32>(one, -one, 0.0, 0.25 * one));       // 127, -127, 0, round(31.75) = 32
  out[1] = pack4x8unorm(vec4<f32>(one, 0.0, 0.2 * one, 0.25 * one));  // 255, 0, 51, 64
  out[2] = pack2x16snorm(vec2<f32>(one, -0.25 * one));                // 32767, round(-8191.75) = -8192
  out[3] = pack2x16unorm(vec2<f32>(one, 0.25 * one));                 // 65535, 16384
  out[4] = pack2x16float(vec2<f32>(one, -2.0 * one));                 // 0x3C00, 0xC000
  out[5] = pack4x8snorm(vec4<f32>(2.0 * one, -3.0 * one, 0.0, 0.0));  // clamps: 127, -127
  let s = unpack4x8snorm(0x2000817Fu + u32(inp[1]));
  out[6] = bitcast<u32>(s.x); out[7] = bitcast<u32>(s.y); out[8] = bitcast<u32>(s.z);
  let u = unpack4x8unorm(0x403300FFu + u32(inp[1]));
  out[9] = bitcast<u32>(u.x); out[10] = bitcast<u32>(u.y);
  let h = unpack2x16float(0xC0003C00u + u32(inp[1]));
  out[11] = bitcast<u32>(h.x); out[12] = bitcast<u32>(h.y);
  let sn = unpack2x16snorm(0x80007FFFu + u32(inp[1]));                // (1, clamp(-32768/32767) = -1)
  out[13] = bitcast<u32>(sn.x); out[14] = bitcast<u32>(sn.y);
  let un = unpack2x16unorm(0xFFFF0000u + u32(inp[1]));                // (0, 1)
  out[15] = bitcast<u32>(un.x); out[16] = bitcast<u32>(un.y);
  out[17] = bitcast<u32>(s.w); out[18] = bitcast<u32>(u.z);
}`,
			bufs: map[int][]byte{1: f32s(1, 0)},
			want: []any{uint32(0x2000817F), uint32(0x403300FF), uint32(0xE0007FFF), uint32(0x4000FFFF), uint32(0xC0003C00), uint32(0x0000817F),
				float32(1), float32(-1), float32(0), float32(1), float32(0), float32(1), float32(-2), float32(1), float32(-1), float32(0), float32(1),
				approx(32.0 / 127), approx(0.2)},
		},
		{
			name: "pack_unpack_i8_dot4",
			src: hdrOutU + hdrInU + cs1 + `
  let z = inp[0];   // 0
  out[0] = pack4xI8(vec4<i32>(1, -1, 127, -128) + vec4<i32>(bitcast<i32>(z)));      // 0x807FFF01
  out[1] = pack4xU8(vec4<u32>(1u, 2u, 3u, 0x1FFu) + vec4<u32>(z));                  // low 8 bits each: 0xFF030201
  out[2] = pack4xI8Clamp(vec4<i32>(200, -200, 5, 0) + vec4<i32>(bitcast<i32>(z)));  // 127, -128, 5, 0
  out[3] = pack4xU8Clamp(vec4<u32>(300u, 5u, 0u, 255u) + vec4<u32>(z));             // 255, 5, 0, 255
  let a = unpack4xI8(0x807FFF01u + z);
  out[4] = bitcast<u32>(a.x); out[5] = bitcast<u32>(a.y); out[6] = bitcast<u32>(a.z); out[7] = bitcast<u32>(a.w);
  let b = unpack4xU8(0xFF030201u + z);
  out[8] = b.x; out[9] = b.y; out[10] = b.z; out[11] = b.w;
  out[12] = bitcast<u32>(dot4I8Packed(0x01FF0203u + z, 0x02030405u + z));   // 3*5 + 2*4 + (-1)*3 + 1*2 = 22
  out[13] = dot4U8Packed(0x01FF0203u + z, 0x02030405u + z);                 // 15 + 8 + 765 + 2 = 790
  out[14] = bitcast<u32>(dot4I8Packed(0x80808080u + z, 0x7F7F7F7Fu + z));   // 4 * (-128*127) = -65024
}`,
			bufs: map[int][]byte{1: u32s(0)},
			want: []any{uint32(0x807FFF01), uint32(0xFF030201), uint32(0x0005807F), uint32(0xFF0005FF),
				1, -1, 127, -128, 1, 2, 3, 255, 22, 790, -65024},
		},
		{
			name: "modf_frexp_ldexp",
			src: hdrOutF + hdrInF + cs1 + `
  let a = modf(inp[0]);             // 2.75 -> .75, 2
  out[0] = a.fract; out[1] = a.whole;
  let b = modf(inp[1]);             // -2.75 -> -.75, -2
  out[2] = b.fract; out[3] = b.whole;
  let c = frexp(inp[2]);            // 8 = 0.5 * 2^4
  out[4] = c.fract; out[5] = f32(c.exp);
  let d = frexp(inp[3]);            // 0.75 = 0.75 * 2^0
  out[6] = d.fract; out[7] = f32(d.exp);
  out[8] = ldexp(inp[3], 3);        // 6
  out[9] = ldexp(inp[2], i32(inp[1]));   // 8 * 2^-2 = 2
  let mv = modf(vec2<f32>(inp[0], inp[1]));
  out[10] = mv.fract.x + mv.whole.y;     // .75 - 2
  let fv = frexp(vec2<f32>(inp[2], -inp[3]));   // (0.5, 4) (-0.75, 0)
  out[11] = fv.fract.y; out[12] = f32(fv.exp.x);
  let lv = ldexp(vec2<f32>(1.0, 3.0), vec2<i32>(i32(inp[0]), -1));    // (4, 1.5)
  out[13] = lv.x; out[14] = lv.y;
}`,
			bufs: map[int][]byte{1: f32s(2.75, -2.75, 8, 0.75)},
			want: []any{float32(0.75), float32(2), float32(-0.75), float32(-2), float32(0.5), float32(4), float32(0.75), float32(0),
				float32(6), float32(2), float32(-1.25), float32(-0.75), float32(4), float32(4), float32(1.5)},
		},
		{
			name: "quantize_to_f16",
			src: hdrOutF + hdrInF + cs1 + `
  out[0] = quantizeToF16(inp[0]);     // 0.1 -> 0.0999755859375
  out[1] = quantizeToF16(inp[1]);     // 1.0
  out[2] = quantizeToF16(inp[2]);     // 3.14159 -> 3.140625
  out[3] = quantizeToF16(inp[3]);     // -2049 -> tie between -2048 and -2050 -> even mantissa: -2048
  let v = quantizeToF16(vec2<f32>(inp[0], inp[4]));   // 65504 stays
  out[4] = v.x; out[5] = v.y;
}`,
			bufs: map[int][]byte{1: f32s(0.1, 1, 3.14159, -2049, 65504)},
			want: []any{float32(0.0999755859375), float32(1), float32(3.140625), float32(-2048), float32(0.0999755859375), float32(65504)},
		},
		{
			name: "int_dot_and_vector_minmax",
			src: hdrOutI + hdrInI + cs1 + `
  let a = vec3<i32>(inp[0], inp[1], inp[2]);   // (2,-3,4)
  let b = vec3<i32>(inp[2], inp[0], inp[1]);   // (4,2,-3)
  out[0] = dot(a, b);                          // 8 - 6 - 12 = -10
  out[1] = bitcast<i32>(dot(vec2<u32>(65536u, 3u), vec2<u32>(65536u, bitcast<u32>(inp[0]))));   // wraps: 0 + 6
  let mn = min(a, b); let mx = max(a, b);
  out[2] = mn.x * 100 + mn.y * 10 + mn.z;      // (2,-3,-3) -> 200 - 30 - 3
  out[3] = mx.x * 100 + mx.y * 10 + mx.z;      // (4,2,4) -> 424
  let fm = min(vec2<f32>(1.0, 5.0), vec2<f32>(f32(inp[0]), f32(inp[0])));   // (1,2)
  out[4] = i32(fm.x * 10.0 + fm.y);
  let sg = sign(vec3<f32>(f32(inp[1]), 0.0, f32(inp[2])));
  out[5] = i32(sg.x) * 100 + i32(sg.y) * 10 + i32(sg.z);   // -100 + 0 + 1
}`,
			bufs: map[int][]byte{1: i32s(2, -3, 4)},
			want: []any{-10, 6, 167, 424, 12, -99},
		},
		{
			name: "transpose_determinant_square",
			src: hdrOutF + hdrInF + cs1 + `
  let m = mat3x3<f32>(inp[0], inp[1], inp[2], inp[3], inp[4], inp[5], inp[6], inp[7], inp[8]);   // cols (2,0,1) (1,3,0) (0,1,4)
  let t = transpose(m);      // cols (2,1,0) (0,3,1) (1,0,4)
  out[0] = t[0].y; out[1] = t[1].z; out[2] = t[2].x;
  out[3] = determinant(m);   // 2*(3*4-1*0) - 1*(0*4-1*1) + 0 = 24 + 1 = 25
  let m4 = mat4x4<f32>(2.0, 0.0, 0.0, 0.0, 0.0, 3.0, 0.0, 0.0, 0.0, 0.0, 4.0, 0.0, 1.0, 1.0, 1.0, inp[0]);
  out[4] = determinant(m4);  // triangular: 2*3*4*2 = 48
  let t4 = transpose(m4);
  out[5] = t4[0].w; out[6] = t4[3].x;   // m4[3][0] = 1, m4[0][3] = 0
}`,
			bufs: map[int][]byte{1: f32s(2, 0, 1, 1, 3, 0, 0, 1, 4)},
			want: []any{float32(1), float32(1), float32(1), approx(25), approx(48), float32(1), float32(0)},
		},
	})
}
