package spv

import (
	"fmt"
	"math"
	"math/bits"

	"verif/internal/xrt"
)

type frame struct {
	ret int32 // pc to resume at
	dst int32 // where the caller wants the return value (-1: none)
}

// inv is the state of one invocation. Register frames are static (no recursion in SPIR-V), so
// an invocation is a register file, its private memory, a pc and a return stack.
type inv struct {
	regs  []uint32
	pz    []uint8 // poison flag per register word
	pmem  []uint32
	ppz   []uint8
	pc    int32
	stack []frame
	done  bool
}

type machine struct {
	p            *program
	invs         []*inv
	wmem         []uint32
	wpz          []uint8
	bufs         [][]byte
	bound        []bool
	tmp          []uint32
	tmpz         []uint8
	steps        int64
	limit        int64
	trace        *[]xrt.Access
	poisonLocals bool // PoisonLocals
}

func newMachine(p *program) *machine {
	mc := &machine{p: p}
	mc.wmem = make([]uint32, p.wmemSize)
	mc.wpz = make([]uint8, p.wmemSize)
	mc.bufs = make([][]byte, len(p.resources))
	mc.bound = make([]bool, len(p.resources))
	mc.tmp = make([]uint32, p.maxTmp+8)
	mc.tmpz = make([]uint8, p.maxTmp+8)
	return mc
}

func (mc *machine) inv(i int) *inv {
	for len(mc.invs) <= i {
		p := mc.p
		mc.invs = append(mc.invs, &inv{regs: make([]uint32, len(p.tmpl)), pz: make([]uint8, len(p.tmpl)),
			pmem: make([]uint32, len(p.pmemInit)), ppz: make([]uint8, len(p.pmemInit))})
	}
	return mc.invs[i]
}

func (mc *machine) trap(kind, detail string) error { return &xrt.Trap{Kind: kind, Detail: detail} }
func (mc *machine) poison(what string) error {
	return &xrt.Trap{Kind: "poison", Detail: what + " uses an undefined / uninitialised value"}
}

// logical returns the word memory of a logical region.
func (mc *machine) logical(iv *inv, region uint32) ([]uint32, []uint8, bool) {
	switch region {
	case regPriv:
		return iv.pmem, iv.ppz, true
	case regWG:
		return mc.wmem, mc.wpz, true
	}
	return nil, nil, false
}

// Exec runs the GLCompute entry point named o.EntryPoint (empty = the first GLCompute entry
// point) for every invocation of o.Groups() workgroups, over bufs (keyed by the
// DescriptorSet/Binding decorations). Buffer memory is addressed through the module's own
// Offset/ArrayStride/MatrixStride(+RowMajor/ColMajor) decorations. Invocations of a workgroup
// run in LocalInvocationIndex order, each up to its next OpControlBarrier.
// Returns nil, *xrt.Trap, *xrt.Unsupported, *xrt.StepLimit or *xrt.Malformed.
func Exec(m *Module, bufs xrt.Buffers, o xrt.Opts) (err error) {
	if m == nil {
		return malf("nil module")
	}
	if m.progErr != nil {
		return m.progErr
	}
	p := m.prog
	ep, err := p.entry(o.EntryPoint)
	if err != nil {
		return err
	}
	if ep.err != nil {
		return ep.err
	}
	if ep.fn.entryPC < 0 {
		return malf("entry point %q has no body", ep.name)
	}
	mc := p.pool.Get().(*machine)
	defer func() {
		if r := recover(); r != nil {
			// an interpreter bug must never be reported as a property violation
			err = unsup("internal error in spv interpreter: %v", r)
			return
		}
		for i := range mc.bufs {
			mc.bufs[i] = nil
		}
		mc.trace = nil
		p.pool.Put(mc)
	}()
	for i := range mc.bufs {
		mc.bufs[i], mc.bound[i] = nil, false
	}
	for _, k := range ep.bufs {
		b, ok := bufs[p.resources[k].B]
		if !ok {
			return unsup("no buffer bound at %s", p.resources[k].B)
		}
		mc.bufs[k], mc.bound[k] = b, true
	}
	mc.steps, mc.limit, mc.trace, mc.poisonLocals = 0, o.Steps(), o.Trace, o.PoisonLocals
	groups := o.Groups()
	local := ep.local
	n64 := uint64(local[0]) * uint64(local[1]) * uint64(local[2])
	if n64 > 4096 {
		return unsup("workgroup of %d invocations", n64)
	}
	n := int(n64)
	for gz := uint32(0); gz < groups[2]; gz++ {
		for gy := uint32(0); gy < groups[1]; gy++ {
			for gx := uint32(0); gx < groups[0]; gx++ {
				if err := mc.runGroup(ep, [3]uint32{gx, gy, gz}, groups, n); err != nil {
					return err
				}
			}
		}
	}
	return nil
}

func (mc *machine) runGroup(ep *entry, wg, groups [3]uint32, n int) error {
	p := mc.p
	local := ep.local
	pzv := uint8(0)
	if mc.poisonLocals {
		pzv = 1
	}
	for i := range mc.wmem {
		mc.wmem[i] = 0
		mc.wpz[i] = pzv
	}
	for i := 0; i < n; i++ {
		iv := mc.inv(i)
		copy(iv.regs, p.tmpl)
		copy(iv.pz, p.tmplPz)
		copy(iv.pmem, p.pmemInit)
		if mc.poisonLocals {
			copy(iv.ppz, p.pmemPz)
		} else {
			clear(iv.ppz)
		}
		iv.pc, iv.stack, iv.done = ep.fn.entryPC, iv.stack[:0], false
		li := uint32(i)
		lid := [3]uint32{li % local[0], li / local[0] % local[1], li / (local[0] * local[1])}
		for _, g := range ep.gvars {
			if g.sc != SCInput || g.unsup != "" {
				continue
			}
			m := iv.pmem[g.off:]
			switch g.bi {
			case BINumWorkgroups:
				m[0], m[1], m[2] = groups[0], groups[1], groups[2]
			case BIWorkgroupId:
				m[0], m[1], m[2] = wg[0], wg[1], wg[2]
			case BILocalInvocationId:
				m[0], m[1], m[2] = lid[0], lid[1], lid[2]
			case BIGlobalInvocationId:
				for k := 0; k < 3; k++ {
					m[k] = wg[k]*local[k] + lid[k]
				}
			case BILocalInvocationIndex:
				m[0] = li
			}
		}
	}
	for {
		active := false
		for i := 0; i < n; i++ {
			iv := mc.invs[i]
			if iv.done {
				continue
			}
			active = true
			if err := mc.run(iv); err != nil {
				return mc.locate(iv, i, err)
			}
		}
		if !active {
			return nil
		}
	}
}

// locate adds the position of the failing instruction to a trap.
func (mc *machine) locate(iv *inv, li int, err error) error {
	tr, ok := err.(*xrt.Trap)
	if !ok || int(iv.pc) >= len(mc.p.code) {
		return err
	}
	idx := int(mc.p.code[iv.pc].src)
	if idx < 0 || idx >= len(mc.p.m.Instructions) {
		return err
	}
	in := &mc.p.m.Instructions[idx]
	at := fmt.Sprintf(" [at instruction #%d %s", idx, OpcodeName(in.Op))
	if in.ResultID != 0 {
		at += fmt.Sprintf(" %%%d", in.ResultID)
	}
	return &xrt.Trap{Kind: tr.Kind, Detail: tr.Detail + at + fmt.Sprintf(", invocation %d]", li)}
}

func (mc *machine) access(region uint32, off, n int, write bool) ([]byte, error) {
	if region < regBuf0 {
		if write {
			return nil, mc.trap("oob-write", "store through a pointer produced by an out-of-range index")
		}
		return nil, mc.trap("oob-read", "load through a pointer produced by an out-of-range index")
	}
	k := int(region - regBuf0)
	b := mc.bufs[k]
	if mc.trace != nil {
		*mc.trace = append(*mc.trace, xrt.Access{B: mc.p.resources[k].B, Off: off, Len: n, Write: write})
	}
	if off < 0 || off+n > len(b) {
		kind := "oob-read"
		if write {
			kind = "oob-write"
		}
		return nil, mc.trap(kind, fmt.Sprintf("bytes [%d,%d) of buffer %s which has %d bytes", off, off+n, mc.p.resources[k].B, len(b)))
	}
	return b[off : off+n], nil
}

func le32(b []byte) uint32 {
	_ = b[3]
	return uint32(b[0]) | uint32(b[1])<<8 | uint32(b[2])<<16 | uint32(b[3])<<24
}
func put32(b []byte, v uint32) {
	_ = b[3]
	b[0], b[1], b[2], b[3] = byte(v), byte(v>>8), byte(v>>16), byte(v>>24)
}

// bufLoad reads a value of type t laid out at byte offset off (matrix layout ml) into regs[dst:].
func (mc *machine) bufLoad(regs []uint32, pz []uint8, t *typ, region uint32, off int, ml uint32, dst int) error {
	switch t.kind {
	case kInt, kFloat:
		b, err := mc.access(region, off, 4, false)
		if err != nil {
			return err
		}
		regs[dst], pz[dst] = le32(b), 0
	case kVector:
		if ml&mlRowMajor != 0 { // a column of a row-major matrix: components one row apart
			st := int(ml &^ mlRowMajor)
			for i := 0; i < t.n; i++ {
				b, err := mc.access(region, off+i*st, 4, false)
				if err != nil {
					return err
				}
				regs[dst+i], pz[dst+i] = le32(b), 0
			}
			return nil
		}
		if t.elem.kind == kBool {
			return malf("bool vector in a buffer")
		}
		b, err := mc.access(region, off, 4*t.n, false)
		if err != nil {
			return err
		}
		for i := 0; i < t.n; i++ {
			regs[dst+i], pz[dst+i] = le32(b[4*i:]), 0
		}
	case kMatrix:
		if ml == 0 {
			return malf("matrix in a buffer without MatrixStride")
		}
		st := int(ml &^ mlRowMajor)
		for c := 0; c < t.n; c++ {
			o := off + c*st
			if ml&mlRowMajor != 0 {
				o = off + c*4
			}
			if err := mc.bufLoad(regs, pz, t.elem, region, o, ml, dst+c*t.elem.n); err != nil {
				return err
			}
		}
	case kArray:
		if !t.hasStride {
			return malf("array %%%d in a buffer has no ArrayStride", t.id)
		}
		for i := 0; i < t.n; i++ {
			if err := mc.bufLoad(regs, pz, t.elem, region, off+i*int(t.stride), ml, dst+i*t.elem.flat); err != nil {
				return err
			}
		}
	case kStruct:
		for i, mt := range t.members {
			if !t.mHasOffset[i] {
				return malf("member %d of %%%d has no Offset decoration", i, t.id)
			}
			if err := mc.bufLoad(regs, pz, mt, region, off+int(t.mOffset[i]), t.mMat[i], dst+t.moff[i]); err != nil {
				return err
			}
		}
	default:
		return malf("load of %s from a buffer", t)
	}
	return nil
}

func (mc *machine) bufStore(regs []uint32, pz []uint8, t *typ, region uint32, off int, ml uint32, src int) error {
	switch t.kind {
	case kInt, kFloat:
		if pz[src] != 0 {
			return mc.poison("store to buffer")
		}
		b, err := mc.access(region, off, 4, true)
		if err != nil {
			return err
		}
		put32(b, regs[src])
	case kVector:
		for i := 0; i < t.n; i++ {
			if pz[src+i] != 0 {
				return mc.poison("store to buffer")
			}
		}
		if ml&mlRowMajor != 0 {
			st := int(ml &^ mlRowMajor)
			for i := 0; i < t.n; i++ {
				b, err := mc.access(region, off+i*st, 4, true)
				if err != nil {
					return err
				}
				put32(b, regs[src+i])
			}
			return nil
		}
		if t.elem.kind == kBool {
			return malf("bool vector in a buffer")
		}
		b, err := mc.access(region, off, 4*t.n, true)
		if err != nil {
			return err
		}
		for i := 0; i < t.n; i++ {
			put32(b[4*i:], regs[src+i])
		}
	case kMatrix:
		if ml == 0 {
			return malf("matrix in a buffer without MatrixStride")
		}
		st := int(ml &^ mlRowMajor)
		for c := 0; c < t.n; c++ {
			o := off + c*st
			if ml&mlRowMajor != 0 {
				o = off + c*4
			}
			if err := mc.bufStore(regs, pz, t.elem, region, o, ml, src+c*t.elem.n); err != nil {
				return err
			}
		}
	case kArray:
		if !t.hasStride {
			return malf("array %%%d in a buffer has no ArrayStride", t.id)
		}
		for i := 0; i < t.n; i++ {
			if err := mc.bufStore(regs, pz, t.elem, region, off+i*int(t.stride), ml, src+i*t.elem.flat); err != nil {
				return err
			}
		}
	case kStruct:
		for i, mt := range t.members {
			if !t.mHasOffset[i] {
				return malf("member %d of %%%d has no Offset decoration", i, t.id)
			}
			if err := mc.bufStore(regs, pz, mt, region, off+int(t.mOffset[i]), t.mMat[i], src+t.moff[i]); err != nil {
				return err
			}
		}
	default:
		return malf("store of %s to a buffer", t)
	}
	return nil
}

func (mc *machine) writable(region uint32) error {
	if region >= regBuf0 {
		if r := mc.p.resources[region-regBuf0]; !r.Storage {
			return malf("store to uniform buffer %s", r.B)
		}
	}
	return nil
}

// run executes iv until it finishes or reaches a control barrier.
func (mc *machine) run(iv *inv) error {
	p := mc.p
	code := p.code
	regs, pz := iv.regs, iv.pz
	pc := iv.pc
	for {
		in := &code[pc]
		iv.pc = pc
		pc++
		mc.steps++
		if mc.steps > mc.limit {
			return &xrt.StepLimit{Steps: mc.limit}
		}
		n := int(in.n)
		d, a, b := int(in.dst), int(in.a), int(in.b)
		switch in.op {
		case xCopy:
			copy(regs[d:d+n], regs[a:a+n])
			copy(pz[d:d+n], pz[a:a+n])
		case xConstruct:
			o := d
			for k := 0; k < len(in.x); k += 2 {
				s, w := int(in.x[k]), int(in.x[k+1])
				copy(regs[o:o+w], regs[s:s+w])
				copy(pz[o:o+w], pz[s:s+w])
				o += w
			}
		case xInsert:
			copy(regs[d:d+n], regs[a:a+n])
			copy(pz[d:d+n], pz[a:a+n])
			w, o := int(in.x[0]), d+int(in.c)
			copy(regs[o:o+w], regs[b:b+w])
			copy(pz[o:o+w], pz[b:b+w])
		case xVarInit:
			m, mz := iv.pmem[a:a+n], iv.ppz[a:a+n]
			if b >= 0 {
				copy(m, regs[b:b+n])
				copy(mz, pz[b:b+n])
			} else {
				v := uint8(0)
				if mc.poisonLocals {
					v = 1
				}
				for i := range m {
					m[i], mz[i] = 0, v
				}
			}
		case xLoadL:
			if pz[a] != 0 {
				return mc.poison("OpLoad pointer")
			}
			mem, mz, ok := mc.logical(iv, regs[a])
			if !ok {
				return mc.trap("oob-read", "load through a pointer produced by an out-of-range index")
			}
			o := int(regs[a+1])
			copy(regs[d:d+n], mem[o:o+n])
			copy(pz[d:d+n], mz[o:o+n])
		case xStoreL:
			if pz[a] != 0 {
				return mc.poison("OpStore pointer")
			}
			mem, mz, ok := mc.logical(iv, regs[a])
			if !ok {
				return mc.trap("oob-write", "store through a pointer produced by an out-of-range index")
			}
			o := int(regs[a+1])
			copy(mem[o:o+n], regs[b:b+n])
			copy(mz[o:o+n], pz[b:b+n])
		case xLoadB:
			if pz[a] != 0 {
				return mc.poison("OpLoad pointer")
			}
			if err := mc.bufLoad(regs, pz, in.t, regs[a], int(regs[a+1]), regs[a+2], d); err != nil {
				return err
			}
		case xStoreB:
			if pz[a] != 0 {
				return mc.poison("OpStore pointer")
			}
			if err := mc.writable(regs[a]); err != nil {
				return err
			}
			if err := mc.bufStore(regs, pz, in.t, regs[a], int(regs[a+1]), regs[a+2], b); err != nil {
				return err
			}
		case xCopyMem:
			// a = target pointer, b = source pointer
			if pz[a] != 0 || pz[b] != 0 {
				return mc.poison("OpCopyMemory pointer")
			}
			tmp, tz := mc.tmp[:n], mc.tmpz[:n]
			if in.x[1] == 1 {
				if err := mc.bufLoad(tmp, tz, in.t, regs[b], int(regs[b+1]), regs[b+2], 0); err != nil {
					return err
				}
			} else {
				mem, mz, ok := mc.logical(iv, regs[b])
				if !ok {
					return mc.trap("oob-read", "OpCopyMemory from an out-of-range pointer")
				}
				o := int(regs[b+1])
				copy(tmp, mem[o:o+n])
				copy(tz, mz[o:o+n])
			}
			if in.x[0] == 1 {
				if err := mc.writable(regs[a]); err != nil {
					return err
				}
				if err := mc.bufStore(tmp, tz, in.t, regs[a], int(regs[a+1]), regs[a+2], 0); err != nil {
					return err
				}
			} else {
				mem, mz, ok := mc.logical(iv, regs[a])
				if !ok {
					return mc.trap("oob-write", "OpCopyMemory to an out-of-range pointer")
				}
				o := int(regs[a+1])
				copy(mem[o:o+n], tmp)
				copy(mz[o:o+n], tz)
			}
		case xACL:
			if pz[a] != 0 {
				return mc.poison("OpAccessChain base")
			}
			region, off := regs[a], regs[a+1]
			ac := p.acs[in.c]
			for i := range ac {
				st := &ac[i]
				if st.kind == sStruct {
					off += st.add
					continue
				}
				if pz[st.slot] != 0 {
					return mc.poison("OpAccessChain index")
				}
				ix := regs[st.slot]
				if ix >= st.count {
					region = regInvalid
					break
				}
				off += ix * st.mul
			}
			regs[d], regs[d+1], regs[d+2] = region, off, 0
			pz[d], pz[d+1], pz[d+2] = 0, 0, 0
		case xACB:
			if pz[a] != 0 {
				return mc.poison("OpAccessChain base")
			}
			region, off, ml := regs[a], regs[a+1], regs[a+2]
			ac := p.acs[in.c]
			for i := range ac {
				st := &ac[i]
				if region < regBuf0 {
					region = regInvalid
					break
				}
				if st.kind == sStruct {
					off += st.add
					ml = st.ml
					continue
				}
				if pz[st.slot] != 0 {
					return mc.poison("OpAccessChain index")
				}
				ix := regs[st.slot]
				switch st.kind {
				case sArray:
					if ix >= st.count {
						region = regInvalid
					} else {
						off += ix * st.mul
					}
				case sRTArray:
					if st.mul == 0 {
						return malf("runtime array with ArrayStride 0")
					}
					bl := uint64(len(mc.bufs[region-regBuf0]))
					var cnt uint64
					if bl > uint64(off) {
						cnt = (bl - uint64(off)) / uint64(st.mul)
					}
					if uint64(ix) >= cnt {
						region = regInvalid
					} else {
						off += ix * st.mul
					}
				case sMatrix:
					if ml == 0 {
						return malf("matrix in a buffer without MatrixStride")
					}
					if ix >= st.count {
						region = regInvalid
					} else if ml&mlRowMajor != 0 {
						off += ix * 4
					} else {
						off += ix * ml
						ml = 0
					}
				case sVector:
					if ix >= st.count {
						region = regInvalid
					} else if ml&mlRowMajor != 0 {
						off += ix * (ml &^ mlRowMajor)
						ml = 0
					} else {
						off += ix * 4
						ml = 0
					}
				}
				if region == regInvalid {
					break
				}
			}
			regs[d], regs[d+1], regs[d+2] = region, off, ml
			pz[d], pz[d+1], pz[d+2] = 0, 0, 0
		case OpArrayLength:
			if pz[a] != 0 {
				return mc.poison("OpArrayLength")
			}
			if regs[a] < regBuf0 {
				return mc.trap("oob-read", "OpArrayLength through an out-of-range pointer")
			}
			bl := uint64(len(mc.bufs[regs[a]-regBuf0]))
			base := uint64(regs[a+1]) + uint64(uint32(in.b))
			var cnt uint64
			if bl > base {
				cnt = (bl - base) / uint64(uint32(in.c))
			}
			regs[d], pz[d] = uint32(cnt), 0

		case OpIAdd, OpISub, OpIMul, OpUDiv, OpSDiv, OpUMod, OpSRem, OpSMod,
			OpShiftRightLogical, OpShiftRightArithmetic, OpShiftLeftLogical, OpBitwiseOr, OpBitwiseXor, OpBitwiseAnd:
			for i := 0; i < n; i++ {
				if pz[a+i]|pz[b+i] != 0 {
					return mc.poison(OpcodeName(in.op))
				}
				x, y := regs[a+i], regs[b+i]
				var r uint32
				switch in.op {
				case OpIAdd:
					r = x + y
				case OpISub:
					r = x - y
				case OpIMul:
					r = x * y
				case OpBitwiseOr:
					r = x | y
				case OpBitwiseXor:
					r = x ^ y
				case OpBitwiseAnd:
					r = x & y
				case OpUDiv, OpUMod:
					if y == 0 {
						return mc.trap("div0", OpcodeName(in.op)+" by zero")
					}
					if in.op == OpUDiv {
						r = x / y
					} else {
						r = x % y
					}
				case OpSDiv, OpSRem, OpSMod:
					if y == 0 {
						return mc.trap("div0", OpcodeName(in.op)+" by zero")
					}
					if x == 0x80000000 && y == 0xFFFFFFFF {
						return mc.trap("sdiv-overflow", OpcodeName(in.op)+" of INT_MIN by -1")
					}
					sx, sy := int32(x), int32(y)
					switch in.op {
					case OpSDiv:
						r = uint32(sx / sy)
					case OpSRem: // sign of operand 1
						r = uint32(sx % sy)
					case OpSMod: // sign of operand 2
						m := sx % sy
						if m != 0 && (m < 0) != (sy < 0) {
							m += sy
						}
						r = uint32(m)
					}
				case OpShiftRightLogical, OpShiftRightArithmetic, OpShiftLeftLogical:
					if y >= 32 {
						return mc.trap("shift-range", fmt.Sprintf("%s by %d", OpcodeName(in.op), y))
					}
					switch in.op {
					case OpShiftRightLogical:
						r = x >> y
					case OpShiftRightArithmetic:
						r = uint32(int32(x) >> y)
					case OpShiftLeftLogical:
						r = x << y
					}
				}
				regs[d+i], pz[d+i] = r, 0
			}
		case OpFAdd, OpFSub, OpFMul, OpFDiv, OpFRem, OpFMod:
			for i := 0; i < n; i++ {
				if pz[a+i]|pz[b+i] != 0 {
					return mc.poison(OpcodeName(in.op))
				}
				x, y := f32(regs[a+i]), f32(regs[b+i])
				var r float32
				switch in.op {
				case OpFAdd:
					r = float32(x + y)
				case OpFSub:
					r = float32(x - y)
				case OpFMul:
					r = float32(x * y)
				case OpFDiv:
					r = float32(x / y)
				case OpFRem: // sign of operand 1 (C fmod), exact
					r = float32(math.Mod(float64(x), float64(y)))
				case OpFMod: // sign of operand 2: x - y*floor(x/y)
					m := math.Mod(float64(x), float64(y))
					if m != 0 && (m < 0) != (y < 0) {
						m += float64(y)
					}
					r = float32(m)
				}
				regs[d+i], pz[d+i] = u32(r), 0
			}
		case OpVectorTimesScalar: // also OpMatrixTimesScalar
			if pz[b] != 0 {
				return mc.poison("OpVectorTimesScalar")
			}
			y := f32(regs[b])
			for i := 0; i < n; i++ {
				if pz[a+i] != 0 {
					return mc.poison("OpVectorTimesScalar")
				}
				regs[d+i], pz[d+i] = u32(float32(f32(regs[a+i])*y)), 0
			}
		case OpSNegate, OpNot, OpBitReverse, OpBitCount:
			for i := 0; i < n; i++ {
				if pz[a+i] != 0 {
					return mc.poison(OpcodeName(in.op))
				}
				x := regs[a+i]
				switch in.op {
				case OpSNegate:
					x = -x
				case OpNot:
					x = ^x
				case OpBitReverse:
					x = bits.Reverse32(x)
				case OpBitCount:
					x = uint32(bits.OnesCount32(x))
				}
				regs[d+i], pz[d+i] = x, 0
			}
		case OpFNegate:
			for i := 0; i < n; i++ {
				if pz[a+i] != 0 {
					return mc.poison("OpFNegate")
				}
				regs[d+i], pz[d+i] = regs[a+i]^0x80000000, 0
			}
		case OpQuantizeToF16:
			for i := 0; i < n; i++ {
				if pz[a+i] != 0 {
					return mc.poison("OpQuantizeToF16")
				}
				regs[d+i], pz[d+i] = u32(f16ToF32(f32ToF16(f32(regs[a+i])))), 0
			}
		case OpLogicalNot:
			for i := 0; i < n; i++ {
				if pz[a+i] != 0 {
					return mc.poison("OpLogicalNot")
				}
				regs[d+i], pz[d+i] = regs[a+i]^1, 0
			}
		case OpAny, OpAll:
			r := uint32(0)
			if in.op == OpAll {
				r = 1
			}
			for i := 0; i < n; i++ {
				if pz[a+i] != 0 {
					return mc.poison(OpcodeName(in.op))
				}
				if in.op == OpAll {
					r &= regs[a+i]
				} else {
					r |= regs[a+i]
				}
			}
			regs[d], pz[d] = r, 0
		case OpIsNan, OpIsInf:
			for i := 0; i < n; i++ {
				if pz[a+i] != 0 {
					return mc.poison(OpcodeName(in.op))
				}
				x := regs[a+i] & 0x7FFFFFFF
				var r uint32
				if (in.op == OpIsNan && x > 0x7F800000) || (in.op == OpIsInf && x == 0x7F800000) {
					r = 1
				}
				regs[d+i], pz[d+i] = r, 0
			}
		case OpConvertFToS, OpConvertFToU:
			for i := 0; i < n; i++ {
				if pz[a+i] != 0 {
					return mc.poison(OpcodeName(in.op))
				}
				x := f32(regs[a+i])
				var r uint32
				if in.op == OpConvertFToS {
					if !(x >= -2147483648.0 && x < 2147483648.0) {
						return mc.trap("f2i-range", fmt.Sprintf("OpConvertFToS of %v", x))
					}
					r = uint32(int32(x))
				} else {
					if !(x > -1.0 && x < 4294967296.0) {
						return mc.trap("f2i-range", fmt.Sprintf("OpConvertFToU of %v", x))
					}
					if x < 0 {
						r = 0
					} else {
						r = uint32(x)
					}
				}
				regs[d+i], pz[d+i] = r, 0
			}
		case OpConvertSToF, OpConvertUToF:
			for i := 0; i < n; i++ {
				if pz[a+i] != 0 {
					return mc.poison(OpcodeName(in.op))
				}
				var r float32
				if in.op == OpConvertSToF {
					r = float32(int32(regs[a+i]))
				} else {
					r = float32(regs[a+i])
				}
				regs[d+i], pz[d+i] = u32(r), 0
			}
		case OpLogicalEqual, OpLogicalNotEqual, OpLogicalOr, OpLogicalAnd:
			for i := 0; i < n; i++ {
				if pz[a+i]|pz[b+i] != 0 {
					return mc.poison(OpcodeName(in.op))
				}
				x, y := regs[a+i], regs[b+i]
				var r uint32
				switch in.op {
				case OpLogicalEqual:
					r = x ^ y ^ 1
				case OpLogicalNotEqual:
					r = x ^ y
				case OpLogicalOr:
					r = x | y
				case OpLogicalAnd:
					r = x & y
				}
				regs[d+i], pz[d+i] = r, 0
			}
		case OpIEqual, OpINotEqual, OpUGreaterThan, OpSGreaterThan, OpUGreaterThanEqual, OpSGreaterThanEqual,
			OpULessThan, OpSLessThan, OpULessThanEqual, OpSLessThanEqual:
			for i := 0; i < n; i++ {
				if pz[a+i]|pz[b+i] != 0 {
					return mc.poison(OpcodeName(in.op))
				}
				x, y := regs[a+i], regs[b+i]
				var r bool
				switch in.op {
				case OpIEqual:
					r = x == y
				case OpINotEqual:
					r = x != y
				case OpUGreaterThan:
					r = x > y
				case OpSGreaterThan:
					r = int32(x) > int32(y)
				case OpUGreaterThanEqual:
					r = x >= y
				case OpSGreaterThanEqual:
					r = int32(x) >= int32(y)
				case OpULessThan:
					r = x < y
				case OpSLessThan:
					r = int32(x) < int32(y)
				case OpULessThanEqual:
					r = x <= y
				case OpSLessThanEqual:
					r = int32(x) <= int32(y)
				}
				regs[d+i], pz[d+i] = b2u(r), 0
			}
		case OpFOrdEqual, OpFUnordEqual, OpFOrdNotEqual, OpFUnordNotEqual, OpFOrdLessThan, OpFUnordLessThan,
			OpFOrdGreaterThan, OpFUnordGreaterThan, OpFOrdLessThanEqual, OpFUnordLessThanEqual,
			OpFOrdGreaterThanEqual, OpFUnordGreaterThanEqual:
			for i := 0; i < n; i++ {
				if pz[a+i]|pz[b+i] != 0 {
					return mc.poison(OpcodeName(in.op))
				}
				x, y := f32(regs[a+i]), f32(regs[b+i])
				unordered := x != x || y != y
				var r bool
				switch in.op {
				case OpFOrdEqual:
					r = x == y
				case OpFUnordEqual:
					r = unordered || x == y
				case OpFOrdNotEqual:
					r = !unordered && x != y
				case OpFUnordNotEqual:
					r = x != y
				case OpFOrdLessThan:
					r = x < y
				case OpFUnordLessThan:
					r = unordered || x < y
				case OpFOrdGreaterThan:
					r = x > y
				case OpFUnordGreaterThan:
					r = unordered || x > y
				case OpFOrdLessThanEqual:
					r = x <= y
				case OpFUnordLessThanEqual:
					r = unordered || x <= y
				case OpFOrdGreaterThanEqual:
					r = x >= y
				case OpFUnordGreaterThanEqual:
					r = unordered || x >= y
				}
				regs[d+i], pz[d+i] = b2u(r), 0
			}
		case OpSelect:
			c := int(in.c)
			for i := 0; i < n; i++ {
				if pz[c+i] != 0 {
					return mc.poison("OpSelect condition")
				}
				s := b + i
				if regs[c+i] != 0 {
					s = a + i
				}
				regs[d+i], pz[d+i] = regs[s], pz[s]
			}
		case xSelectWhole:
			if pz[in.c] != 0 {
				return mc.poison("OpSelect condition")
			}
			s := b
			if regs[in.c] != 0 {
				s = a
			}
			copy(regs[d:d+n], regs[s:s+n])
			copy(pz[d:d+n], pz[s:s+n])
		case OpVectorExtractDynamic:
			if pz[b] != 0 {
				return mc.poison("OpVectorExtractDynamic index")
			}
			ix := regs[b]
			if ix >= uint32(n) {
				return mc.trap("oob-read", fmt.Sprintf("OpVectorExtractDynamic index %d of %d components", ix, n))
			}
			regs[d], pz[d] = regs[a+int(ix)], pz[a+int(ix)]
		case OpVectorInsertDynamic:
			c := int(in.c)
			if pz[c] != 0 {
				return mc.poison("OpVectorInsertDynamic index")
			}
			ix := regs[c]
			if ix >= uint32(n) {
				return mc.trap("oob-write", fmt.Sprintf("OpVectorInsertDynamic index %d of %d components", ix, n))
			}
			copy(regs[d:d+n], regs[a:a+n])
			copy(pz[d:d+n], pz[a:a+n])
			regs[d+int(ix)], pz[d+int(ix)] = regs[b], pz[b]
		case OpVectorShuffle:
			var tv [4]uint32
			var tp [4]uint8
			for i, s := range in.x {
				if s < 0 {
					tv[i], tp[i] = 0, 1
				} else {
					tv[i], tp[i] = regs[s], pz[s]
				}
			}
			for i := range in.x {
				regs[d+i], pz[d+i] = tv[i], tp[i]
			}
		case OpDot:
			var acc float32
			for i := 0; i < n; i++ {
				if pz[a+i]|pz[b+i] != 0 {
					return mc.poison("OpDot")
				}
				pr := float32(f32(regs[a+i]) * f32(regs[b+i]))
				if i == 0 {
					acc = pr
				} else {
					acc = float32(acc + pr)
				}
			}
			regs[d], pz[d] = u32(acc), 0
		case OpSDot: // integer vectors with 32-bit components
			var acc uint32
			for i := 0; i < n; i++ {
				if pz[a+i]|pz[b+i] != 0 {
					return mc.poison("OpSDot")
				}
				acc += regs[a+i] * regs[b+i]
			}
			regs[d], pz[d] = acc, 0
		case xDot4x8:
			if pz[a]|pz[b] != 0 {
				return mc.poison("integer dot product")
			}
			var acc int64
			for i := 0; i < 4; i++ {
				x, y := int64(uint8(regs[a]>>(8*i))), int64(uint8(regs[b]>>(8*i)))
				if in.n != 0 {
					x = int64(int8(x))
				}
				if in.c != 0 {
					y = int64(int8(y))
				}
				acc += x * y
			}
			regs[d], pz[d] = uint32(acc), 0
		case OpMatrixTimesVector: // n = columns, c = rows
			rows := int(in.c)
			var out [4]float32
			if err := mc.chkRange(pz, a, n*rows, "OpMatrixTimesVector"); err != nil {
				return err
			}
			if err := mc.chkRange(pz, b, n, "OpMatrixTimesVector"); err != nil {
				return err
			}
			for r := 0; r < rows; r++ {
				var acc float32
				for k := 0; k < n; k++ {
					pr := float32(f32(regs[a+k*rows+r]) * f32(regs[b+k]))
					if k == 0 {
						acc = pr
					} else {
						acc = float32(acc + pr)
					}
				}
				out[r] = acc
			}
			for r := 0; r < rows; r++ {
				regs[d+r], pz[d+r] = u32(out[r]), 0
			}
		case OpVectorTimesMatrix: // n = columns, c = rows; result[col] = dot(v, M[col])
			rows := int(in.c)
			var out [4]float32
			if err := mc.chkRange(pz, a, rows, "OpVectorTimesMatrix"); err != nil {
				return err
			}
			if err := mc.chkRange(pz, b, n*rows, "OpVectorTimesMatrix"); err != nil {
				return err
			}
			for cc := 0; cc < n; cc++ {
				var acc float32
				for k := 0; k < rows; k++ {
					pr := float32(f32(regs[a+k]) * f32(regs[b+cc*rows+k]))
					if k == 0 {
						acc = pr
					} else {
						acc = float32(acc + pr)
					}
				}
				out[cc] = acc
			}
			for cc := 0; cc < n; cc++ {
				regs[d+cc], pz[d+cc] = u32(out[cc]), 0
			}
		case OpMatrixTimesMatrix: // n = result columns, c = result rows, x[0] = inner dimension
			rows, inner := int(in.c), int(in.x[0])
			var out [16]float32
			if err := mc.chkRange(pz, a, inner*rows, "OpMatrixTimesMatrix"); err != nil {
				return err
			}
			if err := mc.chkRange(pz, b, n*inner, "OpMatrixTimesMatrix"); err != nil {
				return err
			}
			for cc := 0; cc < n; cc++ {
				for r := 0; r < rows; r++ {
					var acc float32
					for k := 0; k < inner; k++ {
						pr := float32(f32(regs[a+k*rows+r]) * f32(regs[b+cc*inner+k]))
						if k == 0 {
							acc = pr
						} else {
							acc = float32(acc + pr)
						}
					}
					out[cc*rows+r] = acc
				}
			}
			for i := 0; i < n*rows; i++ {
				regs[d+i], pz[d+i] = u32(out[i]), 0
			}
		case OpTranspose: // operand: n columns of c rows
			rows := int(in.c)
			var tv [16]uint32
			var tp [16]uint8
			for cc := 0; cc < n; cc++ {
				for r := 0; r < rows; r++ {
					tv[r*n+cc], tp[r*n+cc] = regs[a+cc*rows+r], pz[a+cc*rows+r]
				}
			}
			copy(regs[d:d+n*rows], tv[:n*rows])
			copy(pz[d:d+n*rows], tp[:n*rows])
		case OpOuterProduct: // result: n columns of c rows; a = vector1 (rows), b = vector2 (columns)
			rows := int(in.c)
			var out [16]float32
			if err := mc.chkRange(pz, a, rows, "OpOuterProduct"); err != nil {
				return err
			}
			if err := mc.chkRange(pz, b, n, "OpOuterProduct"); err != nil {
				return err
			}
			for cc := 0; cc < n; cc++ {
				for r := 0; r < rows; r++ {
					out[cc*rows+r] = float32(f32(regs[a+r]) * f32(regs[b+cc]))
				}
			}
			for i := 0; i < n*rows; i++ {
				regs[d+i], pz[d+i] = u32(out[i]), 0
			}
		case OpBitFieldInsert, OpBitFieldSExtract, OpBitFieldUExtract:
			os, cs := int(in.x[0]), int(in.x[1])
			if pz[os]|pz[cs] != 0 {
				return mc.poison(OpcodeName(in.op))
			}
			off, cnt := uint64(regs[os]), uint64(regs[cs])
			if off > 32 || cnt > 32 || off+cnt > 32 {
				return mc.trap("bitfield-range", fmt.Sprintf("%s offset %d count %d", OpcodeName(in.op), off, cnt))
			}
			mask := uint32((uint64(1)<<cnt - 1) << off)
			for i := 0; i < n; i++ {
				if pz[a+i] != 0 {
					return mc.poison(OpcodeName(in.op))
				}
				x := regs[a+i]
				var r uint32
				switch in.op {
				case OpBitFieldInsert:
					if pz[b+i] != 0 {
						return mc.poison(OpcodeName(in.op))
					}
					r = x&^mask | uint32(uint64(regs[b+i])<<off)&mask
				case OpBitFieldUExtract:
					r = uint32(uint64(x&mask) >> off)
				case OpBitFieldSExtract:
					if cnt == 0 {
						r = 0
					} else {
						r = uint32(int32(uint32(uint64(x)<<(32-off-cnt))) >> (32 - cnt))
					}
				}
				regs[d+i], pz[d+i] = r, 0
			}

		case OpAtomicLoad, OpAtomicStore, OpAtomicExchange, OpAtomicCompareExchange, OpAtomicCompareExchangeWeak,
			OpAtomicIIncrement, OpAtomicIDecrement, OpAtomicIAdd, OpAtomicISub, OpAtomicSMin, OpAtomicUMin,
			OpAtomicSMax, OpAtomicUMax, OpAtomicAnd, OpAtomicOr, OpAtomicXor:
			if err := mc.atomic(iv, in); err != nil {
				return err
			}
		case OpMemoryBarrier:
		case OpControlBarrier:
			iv.pc = pc
			return nil

		case OpBranch:
			e := &p.edges[in.a]
			if e.copies != nil || e.unsup != "" {
				if err := mc.phi(iv, e); err != nil {
					return err
				}
			}
			pc = e.pc
		case OpBranchConditional:
			if pz[a] != 0 {
				return mc.poison("OpBranchConditional condition")
			}
			e := &p.edges[in.c]
			if regs[a] != 0 {
				e = &p.edges[in.b]
			}
			if e.copies != nil || e.unsup != "" {
				if err := mc.phi(iv, e); err != nil {
					return err
				}
			}
			pc = e.pc
		case OpSwitch:
			if pz[a] != 0 {
				return mc.poison("OpSwitch selector")
			}
			sel := int32(regs[a])
			e := &p.edges[in.b]
			for k := 0; k < len(in.x); k += 2 {
				if in.x[k] == sel {
					e = &p.edges[in.x[k+1]]
					break
				}
			}
			if e.copies != nil || e.unsup != "" {
				if err := mc.phi(iv, e); err != nil {
					return err
				}
			}
			pc = e.pc
		case OpFunctionCall:
			fn := p.funcList[in.a]
			if fn.entryPC < 0 {
				return unsup("call of function %%%d which has no body", fn.id)
			}
			if len(iv.stack) > 256 {
				return malf("call depth exceeds 256")
			}
			// stage the arguments first: an argument may itself be a parameter slot of the callee
			// only under recursion, which is excluded, so direct copies are safe
			for k, s := range in.x {
				w, ps := int(fn.paramW[k]), int(fn.params[k])
				copy(regs[ps:ps+w], regs[s:int(s)+w])
				copy(pz[ps:ps+w], pz[s:int(s)+w])
			}
			iv.stack = append(iv.stack, frame{ret: pc, dst: in.dst})
			pc = fn.entryPC
		case OpReturn, OpReturnValue:
			if len(iv.stack) == 0 {
				iv.done = true
				return nil
			}
			fr := iv.stack[len(iv.stack)-1]
			iv.stack = iv.stack[:len(iv.stack)-1]
			if in.op == OpReturnValue && fr.dst >= 0 {
				copy(regs[fr.dst:int(fr.dst)+n], regs[a:a+n])
				copy(pz[fr.dst:int(fr.dst)+n], pz[a:a+n])
			}
			pc = fr.ret
		case OpKill, OpTerminateInvocation:
			iv.done = true
			return nil
		case OpUnreachable:
			return mc.trap("unreachable", "OpUnreachable executed")
		case xUnsupported:
			return unsup("%s", p.msgs[in.a])
		default:
			if in.op >= xGLSL {
				if err := mc.execGLSL(iv, in); err != nil {
					return err
				}
				break
			}
			return unsup("%s (no executor)", OpcodeName(in.op))
		}
	}
}

func b2u(b bool) uint32 {
	if b {
		return 1
	}
	return 0
}

func (mc *machine) chkRange(pz []uint8, base, n int, what string) error {
	for i := 0; i < n; i++ {
		if pz[base+i] != 0 {
			return mc.poison(what)
		}
	}
	return nil
}

func (mc *machine) phi(iv *inv, e *edge) error {
	if e.unsup != "" {
		return unsup("%s", e.unsup)
	}
	regs, pz := iv.regs, iv.pz
	c := e.copies
	if !e.overlap {
		for k := 0; k < len(c); k += 3 {
			d, s, w := int(c[k]), int(c[k+1]), int(c[k+2])
			copy(regs[d:d+w], regs[s:s+w])
			copy(pz[d:d+w], pz[s:s+w])
		}
		return nil
	}
	o := 0
	for k := 0; k < len(c); k += 3 {
		s, w := int(c[k+1]), int(c[k+2])
		copy(mc.tmp[o:o+w], regs[s:s+w])
		copy(mc.tmpz[o:o+w], pz[s:s+w])
		o += w
	}
	o = 0
	for k := 0; k < len(c); k += 3 {
		d, w := int(c[k]), int(c[k+2])
		copy(regs[d:d+w], mc.tmp[o:o+w])
		copy(pz[d:d+w], mc.tmpz[o:o+w])
		o += w
	}
	return nil
}

func (mc *machine) atomic(iv *inv, in *dinst) error {
	regs, pz := iv.regs, iv.pz
	a := int(in.a)
	name := OpcodeName(in.op)
	if pz[a] != 0 {
		return mc.poison(name + " pointer")
	}
	var val, cmp uint32
	if in.b >= 0 {
		if pz[in.b] != 0 {
			return mc.poison(name + " value")
		}
		val = regs[in.b]
	}
	if in.c >= 0 {
		if pz[in.c] != 0 {
			return mc.poison(name + " comparator")
		}
		cmp = regs[in.c]
	}
	region, off := regs[a], int(regs[a+1])
	var old uint32
	var cell []byte
	var mem []uint32
	var mz []uint8
	isStore := in.op == OpAtomicStore
	if in.n == 1 {
		if in.op != OpAtomicLoad {
			if err := mc.writable(region); err != nil {
				return err
			}
		}
		var err error
		// AtomicStore only writes; everything else reads first
		if cell, err = mc.access(region, off, 4, isStore); err != nil {
			return err
		}
		old = le32(cell)
	} else {
		var ok bool
		if mem, mz, ok = mc.logical(iv, region); !ok {
			kind := "oob-write"
			if in.op == OpAtomicLoad {
				kind = "oob-read"
			}
			return mc.trap(kind, name+" through a pointer produced by an out-of-range index")
		}
		if !isStore && mz[off] != 0 {
			return mc.poison(name + " of uninitialised memory")
		}
		old = mem[off]
	}
	nv, write := old, true
	switch in.op {
	case OpAtomicLoad:
		write = false
	case OpAtomicStore, OpAtomicExchange:
		nv = val
	case OpAtomicCompareExchange, OpAtomicCompareExchangeWeak:
		if old == cmp {
			nv = val
		} else {
			write = false
		}
	case OpAtomicIIncrement:
		nv = old + 1
	case OpAtomicIDecrement:
		nv = old - 1
	case OpAtomicIAdd:
		nv = old + val
	case OpAtomicISub:
		nv = old - val
	case OpAtomicSMin:
		if int32(val) < int32(old) {
			nv = val
		}
	case OpAtomicUMin:
		if val < old {
			nv = val
		}
	case OpAtomicSMax:
		if int32(val) > int32(old) {
			nv = val
		}
	case OpAtomicUMax:
		if val > old {
			nv = val
		}
	case OpAtomicAnd:
		nv = old & val
	case OpAtomicOr:
		nv = old | val
	case OpAtomicXor:
		nv = old ^ val
	}
	if write {
		if in.n == 1 {
			if !isStore && mc.trace != nil {
				*mc.trace = append(*mc.trace, xrt.Access{B: mc.p.resources[region-regBuf0].B, Off: off, Len: 4, Write: true})
			}
			put32(cell, nv)
		} else {
			mem[off], mz[off] = nv, 0
		}
	}
	if !isStore && in.dst >= 0 {
		regs[in.dst], pz[in.dst] = old, 0
	}
	return nil
}
