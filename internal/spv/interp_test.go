package spv

import (
	"errors"
	"math"
	"strings"
	"sync"
	"testing"

	"verif/internal/xrt"
)

// runTB assembles, parses and executes; returns the output words and the error.
func runTB(t *testing.T, b *tb, in []uint32, nOut int, o xrt.Opts) ([]uint32, error) {
	t.Helper()
	m, err := Parse(b.finish())
	if err != nil {
		t.Fatalf("Parse: %v", err)
	}
	bufs := xrt.Buffers{bnd(0, 0): make([]byte, 4*nOut), bnd(0, 1): u32s(in...)}
	err = Exec(m, bufs, o)
	if err != nil && testing.Verbose() {
		t.Logf("%v\n%s", err, m.Disassemble())
	}
	return getU32(bufs[bnd(0, 0)]), err
}

func wantTrap(t *testing.T, err error, kind string) {
	t.Helper()
	var tr *xrt.Trap
	if !errors.As(err, &tr) || tr.Kind != kind {
		t.Fatalf("want trap[%s], got %v", kind, err)
	}
}

func eqWords(t *testing.T, got []uint32, want ...uint32) {
	t.Helper()
	for i, w := range want {
		if i >= len(got) || got[i] != w {
			t.Fatalf("word %d: got %#x want %#x (all: %#x)", i, got[i], w, got)
		}
	}
}

func TestRemModSemantics(t *testing.T) {
	b := newTB()
	b.begin()
	// inputs: -7, 2, 7, -2 ; floats -7.5, 2, 7.5, -2
	a, c, e, g := b.ld(b.tI32, 0), b.ld(b.tI32, 1), b.ld(b.tI32, 2), b.ld(b.tI32, 3)
	b.st(0, b.tI32, b.ins(OpSRem, b.tI32, a, c)) // -7 rem 2 = -1 (sign of operand 1)
	b.st(1, b.tI32, b.ins(OpSMod, b.tI32, a, c)) // -7 mod 2 = 1 (sign of operand 2)
	b.st(2, b.tI32, b.ins(OpSRem, b.tI32, e, g)) // 7 rem -2 = 1
	b.st(3, b.tI32, b.ins(OpSMod, b.tI32, e, g)) // 7 mod -2 = -1
	b.st(4, b.tI32, b.ins(OpSDiv, b.tI32, a, c)) // -3
	b.st(5, b.tI32, b.ins(OpSMod, b.tI32, a, g)) // -7 mod -2 = -1
	fa, fc, fe, fg := b.ld(b.tF32, 4), b.ld(b.tF32, 5), b.ld(b.tF32, 6), b.ld(b.tF32, 7)
	b.st(6, b.tF32, b.ins(OpFRem, b.tF32, fa, fc)) // -1.5
	b.st(7, b.tF32, b.ins(OpFMod, b.tF32, fa, fc)) // 0.5
	b.st(8, b.tF32, b.ins(OpFRem, b.tF32, fe, fg)) // 1.5
	b.st(9, b.tF32, b.ins(OpFMod, b.tF32, fe, fg)) // -0.5
	b.st(10, b.tU32, b.ins(OpUMod, b.tU32, b.ld(b.tU32, 0), b.ld(b.tU32, 1)))
	b.stmt(OpReturn)
	got, err := runTB(t, b, []uint32{0xFFFFFFF9, 2, 7, 0xFFFFFFFE, fb(-7.5), fb(2), fb(7.5), fb(-2)}, 11, xrt.Opts{})
	if err != nil {
		t.Fatal(err)
	}
	eqWords(t, got, uintMax, 1, 1, uintMax, 0xFFFFFFFD, uintMax, fb(-1.5), fb(0.5), fb(1.5), fb(-0.5), 1)
}

func TestTraps(t *testing.T) {
	type tc struct {
		name string
		kind string
		in   []uint32
		gen  func(b *tb)
		opts xrt.Opts
	}
	cases := []tc{
		{"udiv0", "div0", []uint32{5, 0}, func(b *tb) { b.st(0, b.tU32, b.ins(OpUDiv, b.tU32, b.ld(b.tU32, 0), b.ld(b.tU32, 1))) }, xrt.Opts{}},
		{"umod0", "div0", []uint32{5, 0}, func(b *tb) { b.st(0, b.tU32, b.ins(OpUMod, b.tU32, b.ld(b.tU32, 0), b.ld(b.tU32, 1))) }, xrt.Opts{}},
		{"sdiv0", "div0", []uint32{5, 0}, func(b *tb) { b.st(0, b.tI32, b.ins(OpSDiv, b.tI32, b.ld(b.tI32, 0), b.ld(b.tI32, 1))) }, xrt.Opts{}},
		{"srem0", "div0", []uint32{5, 0}, func(b *tb) { b.st(0, b.tI32, b.ins(OpSRem, b.tI32, b.ld(b.tI32, 0), b.ld(b.tI32, 1))) }, xrt.Opts{}},
		{"smod0", "div0", []uint32{5, 0}, func(b *tb) { b.st(0, b.tI32, b.ins(OpSMod, b.tI32, b.ld(b.tI32, 0), b.ld(b.tI32, 1))) }, xrt.Opts{}},
		{"sdiv-overflow", "sdiv-overflow", []uint32{intMin, uintMax}, func(b *tb) { b.st(0, b.tI32, b.ins(OpSDiv, b.tI32, b.ld(b.tI32, 0), b.ld(b.tI32, 1))) }, xrt.Opts{}},
		{"srem-overflow", "sdiv-overflow", []uint32{intMin, uintMax}, func(b *tb) { b.st(0, b.tI32, b.ins(OpSRem, b.tI32, b.ld(b.tI32, 0), b.ld(b.tI32, 1))) }, xrt.Opts{}},
		{"shl32", "shift-range", []uint32{1, 32}, func(b *tb) {
			b.st(0, b.tU32, b.ins(OpShiftLeftLogical, b.tU32, b.ld(b.tU32, 0), b.ld(b.tU32, 1)))
		}, xrt.Opts{}},
		{"sar-big", "shift-range", []uint32{1, uintMax}, func(b *tb) {
			b.st(0, b.tI32, b.ins(OpShiftRightArithmetic, b.tI32, b.ld(b.tI32, 0), b.ld(b.tU32, 1)))
		}, xrt.Opts{}},
		{"f2s-nan", "f2i-range", []uint32{0x7FC00000}, func(b *tb) { b.st(0, b.tI32, b.ins(OpConvertFToS, b.tI32, b.ld(b.tF32, 0))) }, xrt.Opts{}},
		{"f2s-inf", "f2i-range", []uint32{0xFF800000}, func(b *tb) { b.st(0, b.tI32, b.ins(OpConvertFToS, b.tI32, b.ld(b.tF32, 0))) }, xrt.Opts{}},
		{"f2s-2^31", "f2i-range", []uint32{fb(2147483648)}, func(b *tb) { b.st(0, b.tI32, b.ins(OpConvertFToS, b.tI32, b.ld(b.tF32, 0))) }, xrt.Opts{}},
		{"f2u-neg", "f2i-range", []uint32{fb(-1)}, func(b *tb) { b.st(0, b.tU32, b.ins(OpConvertFToU, b.tU32, b.ld(b.tF32, 0))) }, xrt.Opts{}},
		{"f2u-2^32", "f2i-range", []uint32{fb(4294967296)}, func(b *tb) { b.st(0, b.tU32, b.ins(OpConvertFToU, b.tU32, b.ld(b.tF32, 0))) }, xrt.Opts{}},
		{"rt-read-oob", "oob-read", []uint32{1, 2}, func(b *tb) { b.st(0, b.tU32, b.ld(b.tU32, 2)) }, xrt.Opts{}},
		{"rt-write-oob", "oob-write", []uint32{1, 2}, func(b *tb) { b.st(4, b.tU32, b.ld(b.tU32, 0)) }, xrt.Opts{}},
		{"vec-extract-oob", "oob-read", []uint32{4}, func(b *tb) {
			v := b.global(OpConstantNull, b.tV4U)
			b.st(0, b.tU32, b.ins(OpVectorExtractDynamic, b.tU32, v, b.ld(b.tU32, 0)))
		}, xrt.Opts{}},
		{"fixed-array-oob", "oob-write", []uint32{3}, func(b *tb) {
			at := b.typ(OpTypeArray, b.tU32, b.cU(3))
			pa := b.typ(OpTypePointer, SCFunction, at)
			pe := b.typ(OpTypePointer, SCFunction, b.tU32)
			idx := b.ld(b.tU32, 0)
			v := b.ins(OpVariable, pa, SCFunction)
			p := b.ins(OpAccessChain, pe, v, idx)
			b.stmt(OpStore, p, b.cU(1))
		}, xrt.Opts{}},
		{"undef-arith", "poison", nil, func(b *tb) {
			u := b.global(OpUndef, b.tU32)
			b.st(0, b.tU32, b.ins(OpIAdd, b.tU32, u, b.cU(1)))
		}, xrt.Opts{}},
		{"undef-store", "poison", nil, func(b *tb) {
			u := b.global(OpUndef, b.tU32)
			c := b.ins(OpCopyObject, b.tU32, u)
			b.st(0, b.tU32, c)
		}, xrt.Opts{}},
		{"undef-branch", "poison", nil, func(b *tb) {
			u := b.global(OpUndef, b.tBool)
			l1, l2 := b.id(), b.id()
			b.stmt(OpSelectionMerge, l2, 0)
			b.stmt(OpBranchConditional, u, l1, l2)
			b.labelAs(l1)
			b.stmt(OpBranch, l2)
			b.labelAs(l2)
		}, xrt.Opts{}},
		{"undef-index", "poison", nil, func(b *tb) {
			u := b.global(OpUndef, b.tU32)
			p := b.ins(OpAccessChain, b.pSBU32, b.out, b.cU(0), u)
			b.stmt(OpStore, p, b.cU(1))
		}, xrt.Opts{}},
		{"uninit-local", "poison", nil, func(b *tb) {
			pe := b.typ(OpTypePointer, SCFunction, b.tU32)
			v := b.ins(OpVariable, pe, SCFunction)
			b.st(0, b.tU32, b.ins(OpLoad, b.tU32, v))
		}, xrt.Opts{PoisonLocals: true}},
		{"uninit-workgroup-atomic", "poison", nil, func(b *tb) {
			pw := b.typ(OpTypePointer, SCWorkgroup, b.tU32)
			v := b.global(OpVariable, pw, SCWorkgroup)
			b.st(0, b.tU32, b.ins(OpAtomicIAdd, b.tU32, v, b.cU(2), b.cU(0), b.cU(1)))
		}, xrt.Opts{PoisonLocals: true}},
		{"unreachable", "unreachable", nil, func(b *tb) {
			b.stmt(OpUnreachable)
			b.label()
		}, xrt.Opts{}},
		{"bitfield-range", "bitfield-range", []uint32{30, 3}, func(b *tb) {
			b.st(0, b.tU32, b.ins(OpBitFieldUExtract, b.tU32, b.cU(0xFF), b.ld(b.tU32, 0), b.ld(b.tU32, 1)))
		}, xrt.Opts{}},
	}
	for _, c := range cases {
		t.Run(c.name, func(t *testing.T) {
			b := newTB()
			b.begin()
			c.gen(b)
			b.stmt(OpReturn)
			_, err := runTB(t, b, c.in, 4, c.opts)
			wantTrap(t, err, c.kind)
		})
	}
}

// Poison may be copied, stored to locals and left unused without a trap.
func TestPoisonCopyIsFine(t *testing.T) {
	b := newTB()
	b.begin()
	pe := b.typ(OpTypePointer, SCFunction, b.tV2U)
	ps := b.typ(OpTypePointer, SCFunction, b.tU32)
	v := b.ins(OpVariable, pe, SCFunction) // uninitialised
	w := b.ins(OpVariable, pe, SCFunction)
	x := b.ins(OpLoad, b.tV2U, v)
	b.stmt(OpStore, w, x) // poison copied
	u := b.global(OpUndef, b.tU32)
	c := b.ins(OpCompositeConstruct, b.tV2U, u, b.cU(7))      // (poison, 7)
	sh := b.ins(OpVectorShuffle, b.tV2U, c, c, 1, 0xFFFFFFFF) // (7, undefined)
	b.st(0, b.tU32, b.ins(OpCompositeExtract, b.tU32, sh, 0))
	b.st(1, b.tU32, b.ins(OpCompositeExtract, b.tU32, c, 1))
	// overwrite one component of the uninitialised variable, read it back
	p0 := b.ins(OpAccessChain, ps, w, b.cU(1))
	b.stmt(OpStore, p0, b.cU(9))
	b.st(2, b.tU32, b.ins(OpLoad, b.tU32, p0))
	sel := b.ins(OpSelect, b.tU32, b.global(OpConstantTrue, b.tBool), b.cU(3), u) // picks the defined operand
	b.st(3, b.tU32, sel)
	b.stmt(OpReturn)
	got, err := runTB(t, b, nil, 4, xrt.Opts{PoisonLocals: true})
	if err != nil {
		t.Fatal(err)
	}
	eqWords(t, got, 7, 7, 9, 3)
	// without PoisonLocals, uninitialised locals read as zero
	b2 := newTB()
	b2.begin()
	v2 := b2.ins(OpVariable, b2.typ(OpTypePointer, SCFunction, b2.tU32), SCFunction)
	b2.st(0, b2.tU32, b2.ins(OpIAdd, b2.tU32, b2.ins(OpLoad, b2.tU32, v2), b2.cU(5)))
	b2.stmt(OpReturn)
	got, err = runTB(t, b2, nil, 1, xrt.Opts{})
	if err != nil {
		t.Fatal(err)
	}
	eqWords(t, got, 5)
}

func TestPhiSwapAndLoop(t *testing.T) {
	b := newTB()
	b.begin()
	n := b.ld(b.tU32, 0)
	// the entry label id: the first OpLabel in body
	entryLabel := b.body[1][1]
	header, bodyL, cont, merge := b.id(), b.id(), b.id(), b.id()
	b.stmt(OpBranch, header)
	b.labelAs(header)
	iNext, aID, bID := b.id(), b.id(), b.id()
	// a and b swap every iteration: a' = b, b' = a  (parallel-copy semantics required)
	b.body = append(b.body, inst(OpPhi, b.tU32, aID, b.cU(1), entryLabel, bID, cont))
	b.body = append(b.body, inst(OpPhi, b.tU32, bID, b.cU(2), entryLabel, aID, cont))
	i := b.ins(OpPhi, b.tU32, b.cU(0), entryLabel, iNext, cont)
	cond := b.ins(OpULessThan, b.tBool, i, n)
	b.stmt(OpLoopMerge, merge, cont, 0)
	b.stmt(OpBranchConditional, cond, bodyL, merge)
	b.labelAs(bodyL)
	b.stmt(OpBranch, cont)
	b.labelAs(cont)
	b.body = append(b.body, inst(OpIAdd, b.tU32, iNext, i, b.cU(1)))
	b.stmt(OpBranch, header)
	b.labelAs(merge)
	b.st(0, b.tU32, aID)
	b.st(1, b.tU32, bID)
	b.st(2, b.tU32, i)
	b.stmt(OpReturn)
	got, err := runTB(t, b, []uint32{3}, 3, xrt.Opts{})
	if err != nil {
		t.Fatal(err)
	}
	eqWords(t, got, 2, 1, 3) // three swaps of (1,2) -> (2,1)
}

func TestUnorderedCompareAndNaN(t *testing.T) {
	b := newTB()
	b.begin()
	nan, one := b.ld(b.tF32, 0), b.ld(b.tF32, 1)
	ops := []uint16{OpFOrdEqual, OpFUnordEqual, OpFOrdNotEqual, OpFUnordNotEqual, OpFOrdLessThan, OpFUnordLessThan,
		OpFOrdGreaterThanEqual, OpFUnordGreaterThanEqual}
	for i, op := range ops {
		b.st(uint32(i), b.tBool, b.ins(op, b.tBool, nan, one))
	}
	b.st(8, b.tBool, b.ins(OpIsNan, b.tBool, nan))
	b.st(9, b.tBool, b.ins(OpIsInf, b.tBool, b.ld(b.tF32, 2)))
	b.st(10, b.tBool, b.ins(OpIsNan, b.tBool, one))
	b.stmt(OpReturn)
	got, err := runTB(t, b, []uint32{0x7FC00000, fb(1), 0xFF800000}, 11, xrt.Opts{})
	if err != nil {
		t.Fatal(err)
	}
	eqWords(t, got, 0, 1, 0, 1, 0, 1, 0, 1, 1, 1, 0)
}

// A row-major matrix with MatrixStride 8 inside a storage struct: mat2x3 (2 columns, 3 rows) is
// laid out as 3 rows of 2 floats.
func TestRowMajorMatrixLayout(t *testing.T) {
	b := newTB()
	m23 := b.typ(OpTypeMatrix, b.tV3F, 2)
	st := b.typ(OpTypeStruct, b.tU32, m23)
	b.deco(st, DecBlock)
	b.mdeco(st, 0, DecOffset, 0)
	b.mdeco(st, 1, DecOffset, 8)
	b.mdeco(st, 1, DecRowMajor)
	b.mdeco(st, 1, DecMatrixStride, 8)
	pst := b.typ(OpTypePointer, SCStorageBuffer, st)
	pm := b.typ(OpTypePointer, SCStorageBuffer, m23)
	pv := b.typ(OpTypePointer, SCStorageBuffer, b.tV3F)
	pf := b.typ(OpTypePointer, SCStorageBuffer, b.tF32)
	buf := b.global(OpVariable, pst, SCStorageBuffer)
	b.deco(buf, DecDescriptorSet, 0)
	b.deco(buf, DecBinding, 2)
	b.begin()
	mp := b.ins(OpAccessChain, pm, buf, b.cU(1))
	whole := b.ins(OpLoad, m23, mp)
	// rows in memory: (1,2) (3,4) (5,6) => column 0 = (1,3,5), column 1 = (2,4,6)
	c1 := b.ins(OpCompositeExtract, b.tV3F, whole, 1)
	b.st(0, b.tF32, b.ins(OpCompositeExtract, b.tF32, c1, 0))
	b.st(1, b.tF32, b.ins(OpCompositeExtract, b.tF32, c1, 2))
	col0 := b.ins(OpLoad, b.tV3F, b.ins(OpAccessChain, pv, buf, b.cU(1), b.cU(0)))
	b.st(2, b.tF32, b.ins(OpCompositeExtract, b.tF32, col0, 1))
	e := b.ins(OpLoad, b.tF32, b.ins(OpAccessChain, pf, buf, b.cU(1), b.cU(1), b.cU(2))) // column 1 row 2 = 6
	b.st(3, b.tF32, e)
	// store column 1 = (20, 40, 60) and element [0][1] = 30
	nc := b.ins(OpCompositeConstruct, b.tV3F, b.cF(20), b.cF(40), b.cF(60))
	b.stmt(OpStore, b.ins(OpAccessChain, pv, buf, b.cU(1), b.cU(1)), nc)
	b.stmt(OpStore, b.ins(OpAccessChain, pf, buf, b.cU(1), b.cU(0), b.cU(1)), b.cF(30))
	b.stmt(OpReturn)
	m, err := Parse(b.finish())
	if err != nil {
		t.Fatal(err)
	}
	var trace []xrt.Access
	bufs := xrt.Buffers{bnd(0, 0): make([]byte, 16), bnd(0, 2): cat(u32s(9, 9), f32s(1, 2, 3, 4, 5, 6))}
	if err := Exec(m, bufs, xrt.Opts{Trace: &trace}); err != nil {
		t.Fatalf("%v\n%s", err, m.Disassemble())
	}
	eqWords(t, getU32(bufs[bnd(0, 0)]), fb(2), fb(6), fb(3), fb(6))
	eqWords(t, getU32(bufs[bnd(0, 2)]), 9, 9, fb(1), fb(20), fb(30), fb(40), fb(5), fb(60))
	// every access to binding 2 is a 4-byte access inside [8, 32)
	n2 := 0
	for _, a := range trace {
		if a.B == bnd(0, 2) {
			n2++
			if a.Len != 4 || a.Off < 8 || a.Off+a.Len > 32 {
				t.Errorf("unexpected access %+v", a)
			}
		}
	}
	if n2 != 6+3+1+3+1 {
		t.Errorf("binding 2 accessed %d times, want 14", n2)
	}
}

func TestTraceAndStepLimit(t *testing.T) {
	b := newTB()
	b.begin()
	b.st(1, b.tU32, b.ld(b.tU32, 2))
	b.stmt(OpReturn)
	m, err := Parse(b.finish())
	if err != nil {
		t.Fatal(err)
	}
	var trace []xrt.Access
	bufs := xrt.Buffers{bnd(0, 0): make([]byte, 8), bnd(0, 1): u32s(1, 2, 3)}
	if err := Exec(m, bufs, xrt.Opts{Trace: &trace}); err != nil {
		t.Fatal(err)
	}
	want := []xrt.Access{{B: bnd(0, 1), Off: 8, Len: 4}, {B: bnd(0, 0), Off: 4, Len: 4, Write: true}}
	if len(trace) != 2 || trace[0] != want[0] || trace[1] != want[1] {
		t.Fatalf("trace %+v, want %+v", trace, want)
	}
	// infinite loop -> StepLimit
	b = newTB()
	b.begin()
	l, c := b.id(), b.id()
	mrg := b.id()
	b.stmt(OpBranch, l)
	b.labelAs(l)
	b.stmt(OpLoopMerge, mrg, c, 0)
	b.stmt(OpBranch, c)
	b.labelAs(c)
	b.stmt(OpBranch, l)
	b.labelAs(mrg)
	b.stmt(OpReturn)
	_, err = runTB(t, b, nil, 1, xrt.Opts{StepLimit: 1000})
	var sl *xrt.StepLimit
	if !errors.As(err, &sl) || sl.Steps != 1000 {
		t.Fatalf("want StepLimit(1000), got %v", err)
	}
	// missing buffer
	b = newTB()
	b.begin()
	b.st(0, b.tU32, b.cU(1))
	b.stmt(OpReturn)
	m, _ = Parse(b.finish())
	var u *xrt.Unsupported
	if err := Exec(m, xrt.Buffers{}, xrt.Opts{}); !errors.As(err, &u) {
		t.Fatalf("want Unsupported for a missing buffer, got %v", err)
	}
	if err := Exec(m, xrt.Buffers{bnd(0, 0): make([]byte, 4)}, xrt.Opts{EntryPoint: "nope"}); !errors.As(err, &u) {
		t.Fatalf("want Unsupported for a missing entry point, got %v", err)
	}
}

func TestMalformed(t *testing.T) {
	good := func() *tb {
		b := newTB()
		b.begin()
		return b
	}
	isMal := func(t *testing.T, bin []byte, sub string) {
		t.Helper()
		m, err := Parse(bin)
		if err == nil {
			err = Exec(m, xrt.Buffers{bnd(0, 0): make([]byte, 16), bnd(0, 1): make([]byte, 16)}, xrt.Opts{})
		}
		var mal *xrt.Malformed
		if !errors.As(err, &mal) || !strings.Contains(mal.What, sub) {
			t.Fatalf("want Malformed containing %q, got %v", sub, err)
		}
	}
	t.Run("truncated", func(t *testing.T) {
		b := good()
		b.stmt(OpReturn)
		bin := b.finish()
		isMal(t, bin[:len(bin)-8], "")
		isMal(t, bin[:10], "")
		bad := append([]byte(nil), bin...)
		bad[0] = 0
		isMal(t, bad, "magic")
	})
	t.Run("iadd-on-float", func(t *testing.T) {
		b := good()
		b.st(0, b.tF32, b.ins(OpIAdd, b.tF32, b.cF(1), b.cF(2)))
		b.stmt(OpReturn)
		isMal(t, b.finish(), "OpIAdd")
	})
	t.Run("unterminated-block", func(t *testing.T) {
		b := good()
		isMal(t, b.finish(), "not terminated")
	})
	t.Run("branch-to-nowhere", func(t *testing.T) {
		b := good()
		b.stmt(OpBranch, b.id())
		isMal(t, b.finish(), "not a label")
	})
	t.Run("store-type-mismatch", func(t *testing.T) {
		b := good()
		p := b.ins(OpAccessChain, b.pSBU32, b.out, b.cU(0), b.cU(0))
		b.stmt(OpStore, p, b.cF(1))
		b.stmt(OpReturn)
		isMal(t, b.finish(), "OpStore")
	})
	t.Run("undefined-id", func(t *testing.T) {
		b := good()
		b.st(0, b.tU32, b.ins(OpIAdd, b.tU32, b.cU(1), b.id()))
		b.stmt(OpReturn)
		isMal(t, b.finish(), "never defined")
	})
	t.Run("recursion", func(t *testing.T) {
		b := good()
		b.ins(OpFunctionCall, b.tVoid, b.main)
		b.stmt(OpReturn)
		isMal(t, b.finish(), "recursive")
	})
	t.Run("struct-index-out-of-range", func(t *testing.T) {
		b := good()
		b.ins(OpAccessChain, b.pSBU32, b.out, b.cU(1), b.cU(0))
		b.stmt(OpReturn)
		isMal(t, b.finish(), "member index")
	})
	t.Run("missing-array-stride", func(t *testing.T) {
		b := newTB()
		b.decos = b.decos[1:] // drop the ArrayStride decoration
		b.begin()
		b.st(0, b.tU32, b.cU(1))
		b.stmt(OpReturn)
		isMal(t, b.finish(), "ArrayStride")
	})
	t.Run("store-to-uniform", func(t *testing.T) {
		b := newTB()
		st := b.typ(OpTypeStruct, b.tU32)
		b.deco(st, DecBlock)
		b.mdeco(st, 0, DecOffset, 0)
		pst := b.typ(OpTypePointer, SCUniform, st)
		pu := b.typ(OpTypePointer, SCUniform, b.tU32)
		ub := b.global(OpVariable, pst, SCUniform)
		b.deco(ub, DecDescriptorSet, 0)
		b.deco(ub, DecBinding, 1)
		b.begin()
		b.stmt(OpStore, b.ins(OpAccessChain, pu, ub, b.cU(0)), b.cU(1))
		b.stmt(OpReturn)
		isMal(t, b.finish(), "uniform")
	})
}

func TestUnsupportedIsLazy(t *testing.T) {
	// an unknown / unimplemented instruction only matters when executed
	b := newTB()
	b.begin()
	c := b.ins(OpULessThan, b.tBool, b.ld(b.tU32, 0), b.cU(5))
	l1, l2 := b.id(), b.id()
	b.stmt(OpSelectionMerge, l2, 0)
	b.stmt(OpBranchConditional, c, l1, l2)
	b.labelAs(l1)
	x := b.ins(OpIAddCarry, b.tU32, b.cU(1), b.cU(2)) // not implemented (and ill-typed, irrelevant here)
	b.st(1, b.tU32, x)
	b.stmt(OpBranch, l2)
	b.labelAs(l2)
	b.st(0, b.tU32, b.cU(7))
	b.stmt(OpReturn)
	bin := b.finish()
	m, err := Parse(bin)
	if err != nil {
		t.Fatal(err)
	}
	bufs := xrt.Buffers{bnd(0, 0): make([]byte, 8), bnd(0, 1): u32s(9)}
	if err := Exec(m, bufs, xrt.Opts{}); err != nil {
		t.Fatalf("path avoiding the unsupported instruction: %v", err)
	}
	eqWords(t, getU32(bufs[bnd(0, 0)]), 7)
	bufs[bnd(0, 1)] = u32s(1)
	var u *xrt.Unsupported
	if err := Exec(m, bufs, xrt.Opts{}); !errors.As(err, &u) || !strings.Contains(u.What, "IAddCarry") {
		t.Fatalf("want Unsupported naming OpIAddCarry, got %v", err)
	}
}

func TestSpecConstantsSelectCopyMemory(t *testing.T) {
	b := newTB()
	b.ver = 0x00010400
	sc := b.global(OpSpecConstant, b.tU32, 41)
	b.deco(sc, DecSpecId, 0)
	st := b.typ(OpTypeStruct, b.tU32, b.tV2F)
	pst := b.typ(OpTypePointer, SCFunction, st)
	ppr := b.typ(OpTypePointer, SCPrivate, st)
	k1 := b.global(OpConstantComposite, st, b.cU(1), b.global(OpConstantComposite, b.tV2F, b.cF(1), b.cF(2)))
	k2 := b.global(OpSpecConstantComposite, st, sc, b.global(OpConstantNull, b.tV2F))
	pv := b.global(OpVariable, ppr, SCPrivate, k1)
	b.begin()
	fv := b.ins(OpVariable, pst, SCFunction)
	cond := b.ins(OpIEqual, b.tBool, b.ld(b.tU32, 0), b.cU(0))
	sel := b.ins(OpSelect, st, cond, k1, k2) // whole-struct select (1.4)
	b.st(0, b.tU32, b.ins(OpCompositeExtract, b.tU32, sel, 0))
	b.stmt(OpCopyMemory, fv, pv) // private -> function
	ld := b.ins(OpLoad, st, fv)
	v := b.ins(OpCompositeExtract, b.tV2F, ld, 1)
	b.st(1, b.tF32, b.ins(OpCompositeExtract, b.tF32, v, 1))
	ins := b.ins(OpCompositeInsert, st, b.cU(77), ld, 0)
	b.st(2, b.tU32, b.ins(OpCompositeExtract, b.tU32, ins, 0))
	vi := b.ins(OpVectorInsertDynamic, b.tV2F, v, b.cF(9), b.ld(b.tU32, 1))
	b.st(3, b.tF32, b.ins(OpCompositeExtract, b.tF32, vi, 1))
	b.st(4, b.tF32, b.ins(OpCompositeExtract, b.tF32, vi, 0))
	b.st(5, b.tU32, b.ins(OpIAdd, b.tU32, sc, b.cU(1)))
	b.stmt(OpReturn)
	got, err := runTB(t, b, []uint32{5, 1}, 6, xrt.Opts{})
	if err != nil {
		t.Fatal(err)
	}
	eqWords(t, got, 41, fb(2), 77, fb(9), fb(1), 42)
}

func TestAtomicsIncDecAndLocalSizeId(t *testing.T) {
	b := newTB()
	b.begin()
	p := b.ins(OpAccessChain, b.pSBU32, b.out, b.cU(0), b.cU(0))
	b.ins(OpAtomicIIncrement, b.tU32, p, b.cU(1), b.cU(0))
	b.ins(OpAtomicIIncrement, b.tU32, p, b.cU(1), b.cU(0))
	b.ins(OpAtomicIDecrement, b.tU32, p, b.cU(1), b.cU(0))
	b.stmt(OpReturn)
	b.modes = append(b.modes, inst(OpExecutionModeId, b.main, ModeLocalSizeId, b.cU(3), b.cU(2), b.cU(1)))
	m, err := Parse(b.finish())
	if err != nil {
		t.Fatal(err)
	}
	ls, err := m.LocalSize("")
	if err != nil || ls != [3]uint32{3, 2, 1} {
		t.Fatalf("LocalSize = %v, %v", ls, err)
	}
	bufs := xrt.Buffers{bnd(0, 0): make([]byte, 4)}
	if err := Exec(m, bufs, xrt.Opts{NumWorkgroups: [3]uint32{2, 1, 1}}); err != nil {
		t.Fatal(err)
	}
	eqWords(t, getU32(bufs[bnd(0, 0)]), 12) // 2 groups * 6 invocations * (+1)
}

func TestFma32SingleRounding(t *testing.T) {
	x := float32(1 + 1.0/4096)
	y := float32(-(1 + 1.0/2048))
	if got := fma32(x, x, y); got != float32(1.0/16777216) {
		t.Fatalf("fma32 = %g, want 2^-24", got)
	}
	// cases where rounding the float64 sum first would double-round
	a := math.Float32frombits(0x3F800001)              // 1 + 2^-23
	p := fma32(a, a, math.Float32frombits(0x33800000)) // + 2^-24
	exact := float64(a)*float64(a) + float64(math.Float32frombits(0x33800000))
	lo, hi := float32(exact), float32(exact)
	if float64(lo) > exact {
		lo = math.Nextafter32(lo, -1)
	} else {
		hi = math.Nextafter32(hi, 2)
	}
	if p != lo && p != hi {
		t.Fatalf("fma32 result %g not adjacent to exact %g", p, exact)
	}
	for _, h := range []uint16{0, 1, 0x3FF, 0x400, 0x3C00, 0x7BFF, 0x7C00, 0x8001, 0xC000, 0xFBFF} {
		if r := f32ToF16(f16ToF32(h)); r != h {
			t.Errorf("f16 round trip %#x -> %#x", h, r)
		}
	}
	if f32ToF16(65520) != 0x7C00 || f32ToF16(65519) != 0x7BFF || f32ToF16(5.9604645e-8) != 1 || f32ToF16(2.9802322e-8) != 0 {
		t.Errorf("f16 rounding edge cases wrong")
	}
}

func TestConcurrentExec(t *testing.T) {
	m := mustModule(t, hdrOutU+hdrInU+cs1+`var s = 0u; for (var i = 0u; i < inp[0]; i++) { s += i * i; } out[0] = s; }`, optionSets()["v1.3"])
	var wg sync.WaitGroup
	for g := 0; g < 8; g++ {
		wg.Add(1)
		go func(g int) {
			defer wg.Done()
			for k := 0; k < 200; k++ {
				n := uint32(g*10 + k%7)
				bufs := xrt.Buffers{bnd(0, 0): make([]byte, 4), bnd(0, 1): u32s(n)}
				if err := Exec(m, bufs, xrt.Opts{}); err != nil {
					t.Error(err)
					return
				}
				want := uint32(0)
				for i := uint32(0); i < n; i++ {
					want += i * i
				}
				if got := getU32(bufs[bnd(0, 0)])[0]; got != want {
					t.Errorf("n=%d got %d want %d", n, got, want)
					return
				}
			}
		}(g)
	}
	wg.Wait()
}

const benchSrc = hdrOutU + hdrInU + cs1 + `
  let a = inp[0]; let b = inp[1];
  var x = a * 3u + b;
  if x > 10u { x = x - 10u; } else { x = x + 1u; }
  let v = vec3<u32>(a, b, x) * 2u + vec3<u32>(1u);
  var s = v.x ^ v.y ^ v.z;
  s = (s << 3u) | (s >> 29u);
  out[0] = x; out[1] = s; out[2] = min(a, b) + max(a, b);
  out[3] = select(a, b, a < b);
}`

func BenchmarkExecSmall(b *testing.B) {
	m := mustModule(b, benchSrc, optionSets()["v1.3"])
	bufs := xrt.Buffers{bnd(0, 0): make([]byte, 16), bnd(0, 1): u32s(7, 9)}
	b.ReportAllocs()
	b.ResetTimer()
	for i := 0; i < b.N; i++ {
		if err := Exec(m, bufs, xrt.Opts{}); err != nil {
			b.Fatal(err)
		}
	}
}

func BenchmarkParseSmall(b *testing.B) {
	bin, err := compileWGSL(b, benchSrc, optionSets()["v1.3"])
	if err != nil {
		b.Fatal(err)
	}
	b.ReportAllocs()
	for i := 0; i < b.N; i++ {
		if _, err := Parse(bin); err != nil {
			b.Fatal(err)
		}
	}
}

func (b *tb) ext(t uint32, inst uint32, ops ...uint32) uint32 {
	return b.ins(OpExtInst, t, append([]uint32{b.glsl, inst}, ops...)...)
}

func TestGLSLAndMatrixOpsNagaDoesNotEmit(t *testing.T) {
	b := newTB()
	m22 := b.typ(OpTypeMatrix, b.tV2F, 2)
	m23 := b.typ(OpTypeMatrix, b.tV3F, 2) // 2 columns, 3 rows
	m32 := b.typ(OpTypeMatrix, b.tV2F, 3) // 3 columns, 2 rows
	pF := b.typ(OpTypePointer, SCFunction, b.tF32)
	pI := b.typ(OpTypePointer, SCFunction, b.tI32)
	tV2I := b.typ(OpTypeVector, b.tI32, 2)
	b.begin()
	vf := b.ins(OpVariable, pF, SCFunction)
	vi := b.ins(OpVariable, pI, SCFunction)
	x := b.ld(b.tF32, 0) // -2.75
	fr := b.ext(b.tF32, GModf, x, vf)
	b.st(0, b.tF32, fr)                        // -0.75
	b.st(1, b.tF32, b.ins(OpLoad, b.tF32, vf)) // -2
	y := b.ld(b.tF32, 1)                       // 48 = 0.75 * 2^6
	sg := b.ext(b.tF32, GFrexp, y, vi)
	b.st(2, b.tF32, sg)
	b.st(3, b.tI32, b.ins(OpLoad, b.tI32, vi))
	// inverse of [[4,7],[2,6]] (columns (4,2),(7,6)): det = 10 -> columns (0.6,-0.2), (-0.7,0.4)
	m := b.ins(OpCompositeConstruct, m22, b.ins(OpCompositeConstruct, b.tV2F, b.cF(4), b.cF(2)), b.ins(OpCompositeConstruct, b.tV2F, b.cF(7), b.cF(6)))
	inv := b.ext(m22, GMatrixInverse, m)
	c0 := b.ins(OpCompositeExtract, b.tV2F, inv, 0)
	c1 := b.ins(OpCompositeExtract, b.tV2F, inv, 1)
	b.st(4, b.tF32, b.ins(OpCompositeExtract, b.tF32, c0, 0))
	b.st(5, b.tF32, b.ins(OpCompositeExtract, b.tF32, c0, 1))
	b.st(6, b.tF32, b.ins(OpCompositeExtract, b.tF32, c1, 0))
	b.st(7, b.tF32, b.ins(OpCompositeExtract, b.tF32, c1, 1))
	// outer product (1,2,3) x (10,100): 2 columns of 3 rows: col0 = (10,20,30), col1 = (100,200,300)
	v3 := b.ins(OpCompositeConstruct, b.tV3F, b.cF(1), b.cF(2), b.cF(3))
	v2 := b.ins(OpCompositeConstruct, b.tV2F, b.cF(10), b.cF(100))
	op := b.ins(OpOuterProduct, m23, v3, v2)
	b.st(8, b.tF32, b.ins(OpCompositeExtract, b.tF32, op, 1, 2))  // 300
	tr := b.ins(OpTranspose, m32, op)                             // 3 columns of 2 rows: col r = (op[0][r], op[1][r])
	b.st(9, b.tF32, b.ins(OpCompositeExtract, b.tF32, tr, 2, 0))  // 30
	b.st(10, b.tF32, b.ins(OpCompositeExtract, b.tF32, tr, 1, 1)) // 200
	// NMin / NMax / NClamp / FMin with NaN
	nan := b.ld(b.tF32, 2)
	b.st(11, b.tF32, b.ext(b.tF32, GNMin, nan, b.cF(3)))
	b.st(12, b.tF32, b.ext(b.tF32, GNMax, b.cF(3), nan))
	b.st(13, b.tF32, b.ext(b.tF32, GNClamp, nan, b.cF(1), b.cF(2)))
	// integer dot products
	a4 := b.ld(b.tU32, 3)
	b4 := b.ld(b.tU32, 4)
	b.st(14, b.tI32, b.ins(OpSDot, b.tI32, a4, b4, 0))
	b.st(15, b.tU32, b.ins(OpUDot, b.tU32, a4, b4, 0))
	iv := b.ins(OpCompositeConstruct, tV2I, b.cI(-3), b.cI(4))
	b.st(16, b.tI32, b.ins(OpSDot, b.tI32, iv, iv)) // 25
	b.st(17, b.tI32, b.ext(b.tI32, GFindSMsb, b.cI(-16)))
	b.st(18, b.tF32, b.ext(b.tF32, GRoundEven, b.cF(2.5)))
	b.st(19, b.tF32, b.ext(b.tF32, GFMix, b.cF(2), b.cF(4), b.cF(0.25)))
	b.stmt(OpReturn)
	got, err := runTB(t, b, []uint32{fb(-2.75), fb(48), 0x7FC00000, 0x01FF0203, 0x02030405}, 20, xrt.Opts{})
	if err != nil {
		t.Fatal(err)
	}
	approxEq := func(i int, want float64) {
		t.Helper()
		if g := float64(math.Float32frombits(got[i])); math.Abs(g-want) > 1e-6*(1+math.Abs(want)) {
			t.Errorf("word %d = %v want %v", i, g, want)
		}
	}
	eqWords(t, got, fb(-0.75), fb(-2), fb(0.75), 6)
	approxEq(4, 0.6)
	approxEq(5, -0.2)
	approxEq(6, -0.7)
	approxEq(7, 0.4)
	eqWords(t, got[8:], fb(300), fb(30), fb(200), fb(3), fb(3), fb(1), 22, 790, 25, 3, fb(2))
	approxEq(19, 2.5)

	// unsupported extended instructions name themselves
	b = newTB()
	b.begin()
	b.st(0, b.tU32, b.ext(b.tU32, GIMix, b.cU(1), b.cU(2), b.cU(3)))
	b.stmt(OpReturn)
	_, err = runTB(t, b, nil, 1, xrt.Opts{})
	var u *xrt.Unsupported
	if !errors.As(err, &u) || !strings.Contains(u.What, "IMix") {
		t.Fatalf("want Unsupported naming IMix, got %v", err)
	}
}

// The SPIR-V < 1.3 encoding of storage buffers: Uniform storage class + BufferBlock.
func TestBufferBlockEncoding(t *testing.T) {
	b := newTB()
	b.ver = 0x00010000
	rt := b.typ(OpTypeRuntimeArray, b.tU32)
	b.deco(rt, DecArrayStride, 4)
	st := b.typ(OpTypeStruct, b.tU32, rt)
	b.deco(st, DecBufferBlock)
	b.mdeco(st, 0, DecOffset, 0)
	b.mdeco(st, 1, DecOffset, 4)
	pst := b.typ(OpTypePointer, SCUniform, st)
	pu := b.typ(OpTypePointer, SCUniform, b.tU32)
	buf := b.global(OpVariable, pst, SCUniform)
	b.deco(buf, DecDescriptorSet, 1)
	b.deco(buf, DecBinding, 3)
	b.begin()
	n := b.ins(OpArrayLength, b.tU32, buf, 1)
	b.stmt(OpStore, b.ins(OpAccessChain, pu, buf, b.cU(0)), n)
	last := b.ins(OpISub, b.tU32, n, b.cU(1))
	b.stmt(OpStore, b.ins(OpAccessChain, pu, buf, b.cU(1), last), b.cU(0xABCD))
	b.stmt(OpReturn)
	m, err := Parse(b.finish())
	if err != nil {
		t.Fatal(err)
	}
	rs := m.Resources()
	if len(rs) != 3 || rs[2].B != bnd(1, 3) || !rs[2].Storage || rs[2].ReadOnly {
		t.Fatalf("resources %+v", rs)
	}
	bufs := xrt.Buffers{bnd(1, 3): make([]byte, 4+3*4+2)} // trailing 2 bytes: partial element is ignored
	if err := Exec(m, bufs, xrt.Opts{}); err != nil {
		t.Fatalf("%v\n%s", err, m.Disassemble())
	}
	eqWords(t, getU32(bufs[bnd(1, 3)][:16]), 3, 0, 0, 0xABCD)
}
