package spv

import "testing"

// Group 1 of the brief: scalars, vectors, matrices, operators, conversions, constructors.
// Every expectation is derived by hand from the WGSL specification.
func TestConfOperators(t *testing.T) {
	runConf(t, []conf{
		{
			name: "i32_wrap",
			src: hdrOutI + hdrInI + cs1 + `
  out[0] = inp[0] + 1;          // INT_MAX + 1 wraps
  out[1] = inp[1] - 1;          // INT_MIN - 1 wraps
  out[2] = inp[1] * -1;         // INT_MIN * -1 = INT_MIN
  out[3] = inp[2] * inp[2];     // 65536*65536 = 0
  out[4] = -inp[1];             // -INT_MIN = INT_MIN
  out[5] = inp[0] * 2;          // 0x7FFFFFFF*2 = -2
}`,
			bufs: map[int][]byte{1: u32s(0x7FFFFFFF, intMin, 65536)},
			want: []any{intMin, uint32(0x7FFFFFFF), intMin, 0, intMin, -2},
		},
		{
			name: "i32_div_rem_signs",
			src: hdrOutI + hdrInI + cs1 + `
  let a = inp[0]; let b = inp[1]; // 7, 2
  out[0] = a / b;  out[1] = (-a) / b;  out[2] = a / (-b);  out[3] = (-a) / (-b);
  out[4] = a % b;  out[5] = (-a) % b;  out[6] = a % (-b);  out[7] = (-a) % (-b);
}`,
			bufs: map[int][]byte{1: i32s(7, 2)},
			want: []any{3, -3, -3, 3, 1, -1, 1, -1},
		},
		{
			name: "i32_div_rem_edge",
			src: hdrOutI + hdrInI + cs1 + `
  let z = inp[0]; let m = inp[1]; let n = inp[2]; // 0, INT_MIN, -1
  out[0] = 5 / z;     // x / 0 = x
  out[1] = 5 % z;     // x % 0 = 0
  out[2] = m / n;     // INT_MIN / -1 = INT_MIN
  out[3] = m % n;     // INT_MIN % -1 = 0
  out[4] = m / z;
  out[5] = n % z;
  out[6] = m / 2;     // -1073741824
  out[7] = m % 3;     // -2147483648 % 3 = -2
}`,
			bufs: map[int][]byte{1: u32s(0, intMin, uintMax)},
			want: []any{5, 0, intMin, 0, intMin, 0, -1073741824, -2},
		},
		{
			name: "u32_div_rem",
			src: hdrOutU + hdrInU + cs1 + `
  let a = inp[0]; let z = inp[1];
  out[0] = a / 2u; out[1] = a % 10u; out[2] = a / z; out[3] = a % z; out[4] = a / a; out[5] = 7u % a;
  out[6] = a + 2u; out[7] = z - 1u; out[8] = a * a;
}`,
			bufs: map[int][]byte{1: u32s(uintMax, 0)},
			want: []any{uint32(0x7FFFFFFF), 5, uintMax, 0, 1, 7, 1, uintMax, 1},
		},
		{
			name: "bit_ops",
			src: hdrOutU + hdrInU + cs1 + `
  let a = inp[0]; let b = inp[1];
  out[0] = a & b; out[1] = a | b; out[2] = a ^ b; out[3] = ~a;
  let c = bitcast<i32>(a); let d = bitcast<i32>(b);
  out[4] = bitcast<u32>(c & d); out[5] = bitcast<u32>(c | d); out[6] = bitcast<u32>(c ^ d); out[7] = bitcast<u32>(~d);
}`,
			bufs: map[int][]byte{1: u32s(0xF0F0AAAA, 0x0FF05555)},
			want: []any{uint32(0x00F00000), uint32(0xFFF0FFFF), uint32(0xFF00FFFF), uint32(0x0F0F5555),
				uint32(0x00F00000), uint32(0xFFF0FFFF), uint32(0xFF00FFFF), uint32(0xF00FAAAA)},
		},
		{
			name: "shifts",
			src: hdrOutU + hdrInU + cs1 + `
  let one = inp[0]; let s31 = inp[1]; let hi = inp[2];
  out[0] = one << s31;                       // 0x80000000
  out[1] = hi >> s31;                        // 1
  out[2] = bitcast<u32>(bitcast<i32>(hi) >> s31);   // arithmetic: -1
  out[3] = bitcast<u32>(bitcast<i32>(0xFFFFFFF8u + inp[3]) >> 1u); // -8 >> 1 = -4
  out[4] = bitcast<u32>(bitcast<i32>(one) << s31);  // INT_MIN
  out[5] = hi >> 4u;
  out[6] = (0xFFu + inp[3]) << 28u;          // 0xF0000000
  out[7] = (one << 4u) >> 2u;
}`,
			bufs: map[int][]byte{1: u32s(1, 31, intMin, 0)},
			want: []any{intMin, 1, uintMax, -4, intMin, uint32(0x08000000), uint32(0xF0000000), 4},
		},
		{
			name: "shift_count_mod_32",
			src: hdrOutU + hdrInU + cs1 + `
  let x = inp[0];
  out[0] = x << inp[1];   // by 32 -> by 0
  out[1] = x >> inp[2];   // by 33 -> by 1
  out[2] = x << inp[3];   // by 63 -> by 31
}`,
			bufs:   map[int][]byte{1: u32s(0x80000001, 32, 33, 63)},
			want:   []any{uint32(0x80000001), uint32(0x40000000), intMin},
			defect: "shift amount is not masked to the bit width (OpShiftLeftLogical/RightLogical with count >= 32 is undefined)",
		},
		{
			name: "int_compare",
			src: hdrOutU + hdrInU + cs1 + `
  let a = inp[0]; let b = inp[1];     // 0xFFFFFFFF, 1
  let c = bitcast<i32>(a); let d = bitcast<i32>(b); // -1, 1
  out[0] = select(0u, 1u, a < b);  out[1] = select(0u, 1u, c < d);
  out[2] = select(0u, 1u, a > b);  out[3] = select(0u, 1u, c > d);
  out[4] = select(0u, 1u, a <= a); out[5] = select(0u, 1u, c >= d);
  out[6] = select(0u, 1u, a == b); out[7] = select(0u, 1u, c != d);
  out[8] = select(0u, 1u, a >= b); out[9] = select(0u, 1u, c <= d);
}`,
			bufs: map[int][]byte{1: u32s(uintMax, 1)},
			want: []any{0, 1, 1, 0, 1, 0, 0, 1, 1, 1},
		},
		{
			name: "float_compare",
			src: hdrOutU + hdrInF + cs1 + `
  let a = inp[0]; let b = inp[1]; let z = inp[2]; let nz = inp[3]; // -1.5, 2.0, 0.0, -0.0
  out[0] = select(0u, 1u, a < b);  out[1] = select(0u, 1u, a > b); out[2] = select(0u, 1u, a <= a);
  out[3] = select(0u, 1u, a >= b); out[4] = select(0u, 1u, a == a); out[5] = select(0u, 1u, a != b);
  out[6] = select(0u, 1u, z == nz); out[7] = select(0u, 1u, z < nz); out[8] = select(0u, 1u, b != b);
}`,
			bufs: map[int][]byte{1: u32s(fb(-1.5), fb(2), 0, 0x80000000)},
			want: []any{1, 0, 1, 0, 1, 1, 1, 0, 0},
		},
		{
			name: "short_circuit",
			src: hdrOutU + hdrInU + `var<private> calls: u32 = 0u;
fn side(v: bool) -> bool { calls = calls + 1u; return v; }
` + cs1 + `
  let t = inp[0] == 1u; let f = inp[0] == 0u;
  let r0 = f && side(true);   // rhs not evaluated
  out[0] = calls;
  let r1 = t || side(false);  // rhs not evaluated
  out[1] = calls;
  let r2 = t && side(false);  // evaluated
  out[2] = calls;
  let r3 = f || side(true);   // evaluated
  out[3] = calls;
  out[4] = select(0u, 1u, r0) | select(0u, 2u, r1) | select(0u, 4u, r2) | select(0u, 8u, r3);
  let r4 = f & side(true);    // non-short-circuit: evaluated
  out[5] = calls;
  out[6] = select(0u, 1u, !r4) + select(0u, 2u, t | f) + select(0u, 4u, t != f) + select(0u, 8u, t == f);
}`,
			bufs:           map[int][]byte{1: u32s(1)},
			zeroInitDefect: "var<private> without/with dropped initializer is emitted as OpVariable without initializer: contents undefined in SPIR-V, WGSL requires the zero value",
			want:           []any{0, 0, 1, 2, 10, 3, 7},
		},
		{
			name: "convert_in_range",
			src: hdrOutU + hdrInF + cs1 + `
  out[0] = bitcast<u32>(i32(inp[0]));   // 3.7 -> 3
  out[1] = bitcast<u32>(i32(inp[1]));   // -3.7 -> -3
  out[2] = u32(inp[0]);                 // 3
  out[3] = u32(inp[2]);                 // 4e9 -> 4000000000
  out[4] = bitcast<u32>(f32(i32(inp[1])));        // -3.0
  out[5] = bitcast<u32>(f32(0xFFFFFFFFu + u32(inp[3]))); // f32(0xFFFFFFFF) = 4294967296.0 ; inp[3] = 0
  out[6] = bitcast<u32>(i32(0xFFFFFFFFu + u32(inp[3]))); // -1
  out[7] = u32(i32(inp[1]));            // 0xFFFFFFFD
  out[8] = u32(inp[4]);                 // -0.5 -> 0
  out[9] = bitcast<u32>(f32(16777217u + u32(inp[3]))); // 2^24+1: tie rounds to even 16777216.0
}`,
			bufs: map[int][]byte{1: f32s(3.7, -3.7, 4e9, 0, -0.5)},
			want: []any{3, -3, 3, uint32(4000000000), float32(-3), float32(4294967296), -1, uint32(0xFFFFFFFD), 0, float32(16777216)},
		},
		{
			name: "convert_f2i_saturates",
			src: hdrOutU + hdrInF + cs1 + `
  out[0] = bitcast<u32>(i32(inp[0]));   // 3e9 -> INT_MAX (or 2147483520)
  out[1] = bitcast<u32>(i32(inp[1]));   // -3e9 -> INT_MIN
  out[2] = u32(inp[1]);                 // -3e9 -> 0
  out[3] = u32(inp[2]);                 // 5e9 -> 0xFFFFFFFF (or 4294967040)
}`,
			bufs:   map[int][]byte{1: f32s(3e9, -3e9, 5e9)},
			want:   []any{ignore{}, intMin, 0, ignore{}},
			defect: "bare OpConvertFToS/OpConvertFToU: out-of-range f32 -> i32/u32 is undefined behaviour in SPIR-V, WGSL requires clamping",
		},
		{
			name: "convert_bool",
			src: hdrOutU + hdrInU + cs1 + `
  let t = inp[0] != 0u; let f = inp[1] != 0u;
  out[0] = u32(t); out[1] = u32(f); out[2] = bitcast<u32>(i32(t)); out[3] = bitcast<u32>(f32(t)); out[4] = bitcast<u32>(f32(f));
  out[5] = select(0u, 1u, bool(inp[0])); out[6] = select(0u, 1u, bool(inp[1]));
  out[7] = select(0u, 1u, bool(bitcast<f32>(inp[2]))); out[8] = select(0u, 1u, bool(bitcast<i32>(inp[3])));
  let v = vec2<u32>(vec2<bool>(t, f));
  out[9] = v.x * 10u + v.y;
}`,
			bufs: map[int][]byte{1: u32s(2, 0, fb(0.5), uintMax)},
			want: []any{1, 0, 1, float32(1), float32(0), 1, 0, 1, 1, 10},
		},
		{
			name: "bitcast",
			src: hdrOutU + hdrInU + cs1 + `
  let f = bitcast<f32>(inp[0]);          // 0x40000000 = 2.0
  out[0] = bitcast<u32>(f * 2.0);        // 4.0
  out[1] = bitcast<u32>(bitcast<i32>(inp[1]) + 1); // 0xFFFFFFFF + 1 = 0
  let v = bitcast<vec2<f32>>(vec2<u32>(inp[0], inp[2]));
  out[2] = bitcast<u32>(v.x + v.y);      // 2.0 + 1.0
  let w = bitcast<vec3<i32>>(vec3<f32>(1.0, -2.0, f));
  out[3] = bitcast<u32>(w.x); out[4] = bitcast<u32>(w.y); out[5] = bitcast<u32>(w.z);
  out[6] = bitcast<u32>(inp[1]);
}`,
			bufs: map[int][]byte{1: u32s(0x40000000, uintMax, 0x3F800000)},
			want: []any{float32(4), 0, float32(3), uint32(0x3F800000), uint32(0xC0000000), uint32(0x40000000), uintMax},
		},
		{
			name: "select_forms",
			src: hdrOutI + hdrInI + cs1 + `
  let a = vec3<i32>(inp[0], inp[1], inp[2]); let b = vec3<i32>(10, 20, 30);
  let c = a > vec3<i32>(0);                      // (true,false,true)
  let r = select(a, b, c);                       // (10,-2,30)
  out[0] = r.x; out[1] = r.y; out[2] = r.z;
  let s = select(a, b, inp[1] < 0);              // scalar condition true -> b
  out[3] = s.x; out[4] = s.y; out[5] = s.z;
  out[6] = select(inp[0], inp[1], inp[2] == 3);  // true -> inp[1]
  let fsel = select(vec2<f32>(1.0, 2.0), vec2<f32>(3.0, 4.0), vec2<bool>(inp[0] == 1, inp[0] == 2));
  out[7] = i32(fsel.x) * 10 + i32(fsel.y);       // (3,2)
}`,
			bufs: map[int][]byte{1: i32s(1, -2, 3)},
			want: []any{10, -2, 30, 10, 20, 30, -2, 32},
		},
		{
			name: "scalar_vector_mix",
			src: hdrOutI + hdrInI + cs1 + `
  let v = vec3<i32>(inp[0], inp[1], inp[2]);   // (7,-7,INT_MIN)
  let a = v * 2;        out[0] = a.x; out[1] = a.y; out[2] = a.z;
  let b = 100 - v;      out[3] = b.x; out[4] = b.y; out[5] = b.z;
  let c = v / 2;        out[6] = c.x; out[7] = c.y; out[8] = c.z;
  let d = v % 4;        out[9] = d.x; out[10] = d.y; out[11] = d.z;
  let e = 15 % v;       out[12] = e.x; out[13] = e.y; out[14] = e.z;
  let f = 100 / v;      out[15] = f.x; out[16] = f.y; out[17] = f.z;
}`,
			bufs: map[int][]byte{1: u32s(7, 0xFFFFFFF9, intMin)},
			want: []any{14, -14, 0, 93, 107, uint32(0x80000064), 3, -3, -1073741824, 3, -3, 0, 1, 1, 15, 14, -14, 0},
		},
		{
			name: "vector_div_rem_edge",
			src: hdrOutI + hdrInI + cs1 + `
  let a = vec4<i32>(inp[0], inp[1], inp[2], inp[3]);  // INT_MIN, 7, -7, 5
  let b = vec4<i32>(inp[4], inp[5], inp[6], inp[7]);  // -1, 0, 2, -3
  let q = a / b; let r = a % b;
  out[0] = q.x; out[1] = q.y; out[2] = q.z; out[3] = q.w;
  out[4] = r.x; out[5] = r.y; out[6] = r.z; out[7] = r.w;
  let ua = vec2<u32>(bitcast<u32>(inp[0]), 9u); let ub = vec2<u32>(bitcast<u32>(inp[5]), 4u);
  let uq = ua / ub; let ur = ua % ub;
  out[8] = bitcast<i32>(uq.x); out[9] = bitcast<i32>(uq.y); out[10] = bitcast<i32>(ur.x); out[11] = bitcast<i32>(ur.y);
}`,
			bufs: map[int][]byte{1: u32s(intMin, 7, 0xFFFFFFF9, 5, uintMax, 0, 2, 0xFFFFFFFD)},
			want: []any{intMin, 7, -3, -1, 0, 0, -1, 2, intMin, 2, 0, 1},
		},
		{
			name: "float_arith_exact",
			src: hdrOutF + hdrInF + cs1 + `
  let a = inp[0]; let b = inp[1];   // 1.5, 2.25
  out[0] = a + b; out[1] = a - b; out[2] = a * b; out[3] = inp[2] / inp[3]; // 7.5/2.5 = 3
  out[4] = -a; out[5] = -inp[4];    // -(0.0) = -0.0
  out[6] = inp[5] + inp[6];         // 16777216 + 1 = 16777216 (round to even)
  out[7] = inp[5] + inp[7];         // 16777216 + 3 = 16777220
  out[8] = 1.0 / inp[8];            // 1/3 correctly rounded
  out[9] = inp[9] * inp[9];         // FLT_MAX^2 = +inf
}`,
			bufs: map[int][]byte{1: f32s(1.5, 2.25, 7.5, 2.5, 0, 16777216, 1, 3, 3, 1e20)},
			want: []any{float32(3.75), float32(-0.75), float32(3.375), float32(3), float32(-1.5), uint32(0x80000000),
				float32(16777216), float32(16777220), float32(1.0 / 3.0), ignore{}},
		},
		{
			name: "float_rem_positive",
			src: hdrOutF + hdrInF + cs1 + `
  out[0] = inp[0] % inp[1];   // 7.5 % 2 = 1.5
  out[1] = inp[2] % inp[3];   // 5.25 % 0.5 = 0.25
  let v = vec2<f32>(inp[0], inp[2]) % vec2<f32>(inp[1], inp[1]);
  out[2] = v.x; out[3] = v.y; // 1.5, 1.25
}`,
			bufs: map[int][]byte{1: f32s(7.5, 2, 5.25, 0.5)},
			want: []any{float32(1.5), float32(0.25), float32(1.5), float32(1.25)},
		},
		{
			name: "float_rem_negative",
			src: hdrOutF + hdrInF + cs1 + `
  out[0] = inp[0] % inp[1];   // -7.5 % 2 = -1.5   (truncated: sign of the dividend)
  out[1] = inp[2] % inp[3];   // 7.5 % -2 = 1.5
  out[2] = inp[0] % inp[3];   // -7.5 % -2 = -1.5
  let v = vec2<f32>(inp[0], inp[2]) % vec2<f32>(inp[1], inp[3]);
  out[3] = v.x; out[4] = v.y;
}`,
			bufs:   map[int][]byte{1: f32s(-7.5, 2, 7.5, -2)},
			want:   []any{float32(-1.5), float32(1.5), float32(-1.5), float32(-1.5), float32(1.5)},
			defect: "f32 % is emitted as OpFMod (floored, sign of the divisor); WGSL % is the truncated remainder (OpFRem)",
		},
		{
			name: "mat_times_vec_nonsquare",
			src: hdrOutF + hdrInF + cs1 + `
  // m: 2 columns of 3 rows: col0 = (1,2,3), col1 = (4,5,6)
  let m = mat2x3<f32>(inp[0], inp[1], inp[2], inp[3], inp[4], inp[5]);
  let v2 = vec2<f32>(inp[6], inp[7]);            // (10, 100)
  let r = m * v2;                                // col0*10 + col1*100 = (410, 520, 630)
  out[0] = r.x; out[1] = r.y; out[2] = r.z;
  let v3 = vec3<f32>(inp[0], inp[6], inp[7]);    // (1, 10, 100)
  let s = v3 * m;                                // (dot(v3,col0), dot(v3,col1)) = (321, 654)
  out[3] = s.x; out[4] = s.y;
}`,
			bufs: map[int][]byte{1: f32s(1, 2, 3, 4, 5, 6, 10, 100)},
			want: []any{float32(410), float32(520), float32(630), float32(321), float32(654)},
		},
		{
			name: "mat_times_mat_nonsquare",
			src: hdrOutF + hdrInF + cs1 + `
  let a = mat2x3<f32>(inp[0], inp[1], inp[2], inp[3], inp[4], inp[5]);   // cols (1,2,3) (4,5,6)
  let b = mat3x2<f32>(inp[0], inp[1], inp[2], inp[3], inp[4], inp[5]);   // cols (1,2) (3,4) (5,6)
  let p = a * b;   // mat3x3: col j = a * b[j] = a0*b[j].x + a1*b[j].y
  // col0 = (1,2,3)*1 + (4,5,6)*2 = (9,12,15); col1 = (1,2,3)*3+(4,5,6)*4 = (19,26,33); col2 = *5,*6 = (29,40,51)
  out[0] = p[0].x; out[1] = p[0].y; out[2] = p[0].z;
  out[3] = p[1].x; out[4] = p[1].y; out[5] = p[1].z;
  out[6] = p[2].x; out[7] = p[2].y; out[8] = p[2].z;
  let q = b * a;   // mat2x2: col j = b * a[j] = b0*a[j].x + b1*a[j].y + b2*a[j].z
  // col0 = (1,2)*1 + (3,4)*2 + (5,6)*3 = (22,28); col1 = (1,2)*4+(3,4)*5+(5,6)*6 = (49,64)
  out[9] = q[0].x; out[10] = q[0].y; out[11] = q[1].x; out[12] = q[1].y;
}`,
			bufs: map[int][]byte{1: f32s(1, 2, 3, 4, 5, 6)},
			want: []any{float32(9), float32(12), float32(15), float32(19), float32(26), float32(33), float32(29), float32(40), float32(51),
				float32(22), float32(28), float32(49), float32(64)},
		},
		{
			name: "mat_all_shapes_times_vec",
			src: hdrOutF + hdrInF + cs1 + `
  let x = inp[0];  // 1.0
  let a22 = mat2x2<f32>(x, 2.0, 3.0, 4.0) * vec2<f32>(x, 10.0);           // (31, 42)
  let a23 = mat2x3<f32>(x, 2.0, 3.0, 4.0, 5.0, 6.0) * vec2<f32>(x, 10.0); // (41, 52, 63)
  let a24 = mat2x4<f32>(x, 2.0, 3.0, 4.0, 5.0, 6.0, 7.0, 8.0) * vec2<f32>(x, 10.0); // (51,62,73,84)
  let a32 = mat3x2<f32>(x, 2.0, 3.0, 4.0, 5.0, 6.0) * vec3<f32>(x, 10.0, 100.0);   // (531, 642)
  let a33 = mat3x3<f32>(x, 2.0, 3.0, 4.0, 5.0, 6.0, 7.0, 8.0, 9.0) * vec3<f32>(x, 10.0, 100.0); // (741, 852, 963)
  let a34 = mat3x4<f32>(x, 2.0, 3.0, 4.0, 5.0, 6.0, 7.0, 8.0, 9.0, 10.0, 11.0, 12.0) * vec3<f32>(x, 10.0, 100.0); // (951,1062,1173,1284)
  let a42 = mat4x2<f32>(x, 2.0, 3.0, 4.0, 5.0, 6.0, 7.0, 8.0) * vec4<f32>(x, 10.0, 100.0, 1000.0); // (7531, 8642)
  let a43 = mat4x3<f32>(x, 2.0, 3.0, 4.0, 5.0, 6.0, 7.0, 8.0, 9.0, 10.0, 11.0, 12.0) * vec4<f32>(x, 10.0, 100.0, 1000.0); // (10741, 11852, 12963)
  let a44 = mat4x4<f32>(x, 2.0, 3.0, 4.0, 5.0, 6.0, 7.0, 8.0, 9.0, 10.0, 11.0, 12.0, 13.0, 14.0, 15.0, 16.0) * vec4<f32>(x, 10.0, 100.0, 1000.0);
  out[0] = a22.x; out[1] = a22.y; out[2] = a23.x; out[3] = a23.z; out[4] = a24.x; out[5] = a24.w;
  out[6] = a32.x; out[7] = a32.y; out[8] = a33.x; out[9] = a33.z; out[10] = a34.x; out[11] = a34.w;
  out[12] = a42.x; out[13] = a42.y; out[14] = a43.x; out[15] = a43.z; out[16] = a44.x; out[17] = a44.w;
}`,
			bufs: map[int][]byte{1: f32s(1)},
			want: []any{float32(31), float32(42), float32(41), float32(63), float32(51), float32(84),
				float32(531), float32(642), float32(741), float32(963), float32(951), float32(1284),
				float32(7531), float32(8642), float32(10741), float32(12963), float32(13951), float32(17284)},
		},
		{
			name: "mat_scalar_add_sub_transpose",
			src: hdrOutF + hdrInF + cs1 + `
  let m = mat2x3<f32>(inp[0], inp[1], inp[2], inp[3], inp[4], inp[5]);   // cols (1,2,3) (4,5,6)
  let a = m * 2.0;  let b = 0.5 * m;  let c = m + a;  let d = m - a;
  out[0] = a[1].z;  // 12
  out[1] = b[0].y;  // 1
  out[2] = c[1].x;  // 12
  out[3] = d[0].z;  // -3
  let t = transpose(mat2x2<f32>(inp[0], inp[1], inp[2], inp[3]));  // cols (1,2) (3,4) -> cols (1,3) (2,4)
  out[4] = t[0].x; out[5] = t[0].y; out[6] = t[1].x; out[7] = t[1].y;
  out[8] = determinant(mat2x2<f32>(inp[0], inp[1], inp[2], inp[3]));  // 1*4 - 3*2 = -2
  out[9] = determinant(mat3x3<f32>(inp[1], 0.0, 0.0, 0.0, inp[2], 0.0, 1.0, 1.0, inp[3])); // 2*3*4 = 24
}`,
			bufs: map[int][]byte{1: f32s(1, 2, 3, 4, 5, 6)},
			want: []any{float32(12), float32(1), float32(12), float32(-3), float32(1), float32(3), float32(2), float32(4), approx(-2), approx(24)},
		},
		{
			name: "transpose_nonsquare",
			src: hdrOutF + hdrInF + cs1 + `
  let m = mat2x3<f32>(inp[0], inp[1], inp[2], inp[3], inp[4], inp[5]);   // cols (1,2,3) (4,5,6)
  let t = transpose(m);  // mat3x2: t[r][c] = m[c][r]; cols (1,4) (2,5) (3,6)
  out[0] = t[0].x; out[1] = t[0].y; out[2] = t[2].x; out[3] = t[2].y;
  let v = t * vec3<f32>(1.0, 10.0, 100.0);   // (1+20+300, 4+50+600)
  out[4] = v.x; out[5] = v.y;
}`,
			bufs:   map[int][]byte{1: f32s(1, 2, 3, 4, 5, 6)},
			want:   []any{float32(1), float32(4), float32(3), float32(6), float32(321), float32(654)},
			defect: "transpose of a non-square matrix is typed as the operand type: t[0] is extracted as vec3 from a mat3x2 (invalid SPIR-V)",
		},
		{
			name: "compound_assign_incdec",
			src: hdrOutI + hdrInI + cs1 + `
  var x = inp[0];   // 10
  x += 3; x -= 1; x *= 2; x /= 5; x %= 3;   // 13,12,24,4,1
  out[0] = x;
  x |= 12; x &= 10; x ^= 3;                   // 13, 8, 11
  out[1] = x;
  x <<= 2u; x >>= 1u;                         // 44, 22
  out[2] = x;
  x++; x++; x--;
  out[3] = x;                                 // 23
  var v = vec2<i32>(inp[0], inp[1]);          // (10,-4)
  v += vec2<i32>(1, 1); v *= 2; v.x -= 2; v.y /= 3;   // (11,-3) (22,-6) (20,-2)
  out[4] = v.x; out[5] = v.y;
  var u = bitcast<u32>(inp[1]);               // 0xFFFFFFFC
  u >>= 28u; u++;                             // 0xF -> 16
  out[6] = bitcast<i32>(u);
  var f = f32(inp[0]); f *= 0.5; f -= 1.0; f /= 2.0;   // 5, 4, 2
  out[7] = i32(f);
}`,
			bufs: map[int][]byte{1: i32s(10, -4)},
			want: []any{1, 11, 22, 23, 20, -2, 16, 2},
		},
		{
			name: "swizzle_read_write",
			src: hdrOutI + hdrInI + cs1 + `
  var v = vec4<i32>(inp[0], inp[1], inp[2], inp[3]);   // (1,2,3,4)
  let a = v.wzyx; let b = v.xx; let c = v.yzw; let d = v.zx;
  out[0] = a.x * 1000 + a.y * 100 + a.z * 10 + a.w;    // 4321
  out[1] = b.x * 10 + b.y;                             // 11
  out[2] = c.x * 100 + c.y * 10 + c.z;                 // 234
  out[3] = d.x * 10 + d.y;                             // 31
  v.y = 9; v.w = v.x + 6;
  out[4] = v.x * 1000 + v.y * 100 + v.z * 10 + v.w;    // 1937
  let e = v.rgba.ab;                                   // (w, z) = (7,3)
  out[5] = e.x * 10 + e.y;
  out[6] = vec3<i32>(5, 6, 7)[inp[0]];                 // dynamic index of a constant vector: 6
  v[inp[1]] = 8;                                       // dynamic component write: v.z = 8
  out[7] = v.z;
}`,
			bufs: map[int][]byte{1: i32s(1, 2, 3, 4)},
			want: []any{4321, 11, 234, 31, 1937, 73, 6, 8},
		},
		{
			name: "constructors_zero_values",
			src: hdrOutF + hdrInF + `struct S { a: i32, b: vec2<f32>, c: array<u32, 2> }
` + cs1 + `
  let x = inp[0];  // 2.0
  let s3 = vec3<f32>(x);                       // splat
  let c4 = vec4<f32>(vec2<f32>(x, 3.0), vec2<f32>(4.0, 5.0));
  let c4b = vec4<f32>(x, vec2<f32>(6.0, 7.0), 8.0);
  let c3 = vec3<f32>(vec2<f32>(9.0, x), 1.0);
  out[0] = s3.x + s3.y + s3.z;                 // 6
  out[1] = c4.x * 1000.0 + c4.y * 100.0 + c4.z * 10.0 + c4.w;   // 2345
  out[2] = c4b.x * 1000.0 + c4b.y * 100.0 + c4b.z * 10.0 + c4b.w; // 2678
  out[3] = c3.x * 100.0 + c3.y * 10.0 + c3.z;  // 921
  let z = vec3<f32>(); let zi = i32(); let zm = mat2x2<f32>(); let zs = S(); let za = array<f32, 3>();
  out[4] = z.x + z.y + z.z + f32(zi) + zm[1].y + f32(zs.a) + zs.b.y + f32(zs.c[1]) + za[2];   // 0
  let m = mat2x2<f32>(vec2<f32>(x, 1.0), vec2<f32>(3.0, 4.0));
  out[5] = m[0].x * 1000.0 + m[0].y * 100.0 + m[1].x * 10.0 + m[1].y;   // 2134
  let arr = array<f32, 3>(x, 5.0, 7.0);
  out[6] = arr[0] * 100.0 + arr[1] * 10.0 + arr[2];   // 257
  let st = S(3, vec2<f32>(x, 4.0), array<u32, 2>(5u, 6u));
  out[7] = f32(st.a) * 1000.0 + st.b.x * 100.0 + st.b.y * 10.0 + f32(st.c[1]);   // 3246
  let vi = vec3<i32>(vec3<f32>(x, -1.5, 3.9)); // (2,-1,3)
  out[8] = f32(vi.x * 100 + vi.y * 10 + vi.z); // 193
  let vu = vec2<u32>(vec2<i32>(-1, 2));
  out[9] = f32(vu.x >> 28u) + f32(vu.y);       // 15 + 2
}`,
			bufs: map[int][]byte{1: f32s(2)},
			want: []any{float32(6), float32(2345), float32(2678), float32(921), float32(0), float32(2134), float32(257), float32(3246), float32(193), float32(17)},
		},
		{
			name: "let_var_const",
			src: hdrOutI + hdrInI + `const K: i32 = 6 * 7;
const V = vec2<i32>(K, K / 4);   // (42, 10)
` + cs1 + `
  const L = K % 5;     // 2
  let a = inp[0];      // 5
  var b = a;
  b = b + L;           // 7
  let c = b;           // snapshot 7
  b = b * 2;           // 14
  out[0] = K; out[1] = V.y; out[2] = L; out[3] = a; out[4] = b; out[5] = c;
  const big = 0x7FFFFFFF;
  out[6] = big;
  out[7] = i32(-2147483648);
}`,
			bufs: map[int][]byte{1: i32s(5)},
			want: []any{42, 10, 2, 5, 14, 7, uint32(0x7FFFFFFF), intMin},
		},
		{
			name: "bool_vectors",
			src: hdrOutU + hdrInI + cs1 + `
  let v = vec3<i32>(inp[0], inp[1], inp[2]);    // (1,-2,3)
  let p = v > vec3<i32>(0);                     // (t,f,t)
  let q = v < vec3<i32>(2);                     // (t,t,f)
  let o = p | q; let a = p & q;                 // (t,t,t) (t,f,f)
  out[0] = select(0u, 1u, o.x) * 4u + select(0u, 1u, o.y) * 2u + select(0u, 1u, o.z);
  out[1] = select(0u, 1u, a.x) * 4u + select(0u, 1u, a.y) * 2u + select(0u, 1u, a.z);
  let r = !p;                                   // (f,t,f)
  out[2] = select(0u, 1u, r.x) * 4u + select(0u, 1u, r.y) * 2u + select(0u, 1u, r.z);
  let e = p == q;                               // (t,f,f)
  out[3] = select(0u, 1u, e.x) * 4u + select(0u, 1u, e.y) * 2u + select(0u, 1u, e.z);
  let ne = v != vec3<i32>(1, 2, 3);             // (f,t,f)
  out[4] = select(0u, 1u, ne.x) * 4u + select(0u, 1u, ne.y) * 2u + select(0u, 1u, ne.z);
  let f = vec2<f32>(f32(inp[0]), f32(inp[1])) >= vec2<f32>(1.0, 1.0);   // (t,f)
  out[5] = select(0u, 1u, f.x) * 2u + select(0u, 1u, f.y);
}`,
			bufs: map[int][]byte{1: i32s(1, -2, 3)},
			want: []any{7, 4, 2, 4, 2, 2},
		},
		{
			name: "all_any",
			src: hdrOutU + hdrInI + cs1 + `
  let v = vec3<i32>(inp[0], inp[1], inp[2]);    // (1,-2,3)
  let p = v > vec3<i32>(0);                     // (t,f,t)
  if all(p) { out[0] = 1u; } else { out[0] = 2u; }
  if any(p) { out[1] = 1u; } else { out[1] = 2u; }
  if all(v != vec3<i32>(0)) { out[2] = 1u; }
}`,
			bufs:   map[int][]byte{1: i32s(1, -2, 3)},
			want:   []any{2, 1, 1},
			defect: "SPIR-V backend rejects all()/any(): \"unsupported expression kind: ir.ExprRelational\"",
		},
		{
			name: "vector_unary_and_shift",
			src: hdrOutU + hdrInU + cs1 + `
  let v = vec3<u32>(inp[0], inp[1], inp[2]);    // (1, 0x80000000, 0xF0)
  let n = ~v;
  out[0] = n.x; out[1] = n.y; out[2] = n.z;
  let s = v << vec3<u32>(31u, 0u, 4u);
  out[3] = s.x; out[4] = s.y; out[5] = s.z;
  let t = v >> vec3<u32>(0u, 31u, 4u);
  out[6] = t.x; out[7] = t.y; out[8] = t.z;
  let i = bitcast<vec3<i32>>(v);
  let neg = -i;                                 // (-1, INT_MIN, -240)
  out[9] = bitcast<u32>(neg.x); out[10] = bitcast<u32>(neg.y); out[11] = bitcast<u32>(neg.z);
  let sr = i >> vec3<u32>(0u, 4u, 4u);          // arithmetic: (1, 0xF8000000, 15)
  out[12] = bitcast<u32>(sr.y); out[13] = bitcast<u32>(sr.z);
  let fneg = -vec2<f32>(bitcast<f32>(inp[3]), 2.0);
  out[14] = bitcast<u32>(fneg.x); out[15] = bitcast<u32>(fneg.y);
}`,
			bufs: map[int][]byte{1: u32s(1, intMin, 0xF0, 0)},
			want: []any{uint32(0xFFFFFFFE), uint32(0x7FFFFFFF), uint32(0xFFFFFF0F), intMin, intMin, uint32(0xF00), 1, 1, 0xF,
				uintMax, intMin, uint32(0xFFFFFF10), uint32(0xF8000000), 15, uint32(0x80000000), float32(-2)},
		},
		{
			name: "vector_componentwise_float",
			src: hdrOutF + hdrInF + cs1 + `
  let a = vec4<f32>(inp[0], inp[1], inp[2], inp[3]);   // (1, -2, 0.5, 8)
  let b = vec4<f32>(inp[3], inp[2], inp[1], inp[0]);   // (8, 0.5, -2, 1)
  let s = a + b; let d = a - b; let p = a * b; let q = a / b;
  out[0] = s.x; out[1] = s.y; out[2] = d.z; out[3] = d.w; out[4] = p.x; out[5] = p.y; out[6] = q.z; out[7] = q.w;
  let k = a * 4.0; let j = 16.0 / a;
  out[8] = k.y; out[9] = j.w; out[10] = (a + 1.0).z; out[11] = (1.0 - a).y;
}`,
			bufs: map[int][]byte{1: f32s(1, -2, 0.5, 8)},
			want: []any{float32(9), float32(-1.5), float32(2.5), float32(7), float32(8), float32(-1), float32(-0.25), float32(8),
				float32(-8), float32(2), float32(1.5), float32(3)},
		},
	})
}
