package spv

import "testing"

// Group 2 of the brief: control flow, helper functions, pointer parameters, private globals.
func TestConfControlFlow(t *testing.T) {
	runConf(t, []conf{
		{
			name: "if_else_chain",
			src: hdrOutI + hdrInI + `
fn classify(x: i32) -> i32 {
  if x < 0 { return -1; } else if x == 0 { return 0; } else if x < 10 { return 1; } else { return 2; }
}
` + cs1 + `
  for (var i = 0; i < 5; i++) { out[i] = classify(inp[i]); }
  var r = 0;
  if inp[2] > 3 { r += 1; if inp[2] > 4 { r += 10; if inp[2] > 5 { r += 100; } else { r += 1000; } } }
  out[5] = r;     // inp[2] = 5: 1 + 10 + 1000
}`,
			bufs: map[int][]byte{1: u32s(0xFFFFFFFB, 0, 5, 10, intMin)},
			want: []any{-1, 0, 1, 2, -1, 1011},
		},
		{
			name: "switch_grouped_default_middle",
			src: hdrOutI + hdrInI + `
fn sw(x: i32) -> i32 {
  var r = 0;
  switch x {
    case 1, 2: { r = 10; }
    default: { r = 99; }
    case 3: { r = 30; }
    case -1, 7, 100: { r = 70; }
  }
  return r;
}
` + cs1 + `
  for (var i = 0; i < 8; i++) { out[i] = sw(inp[i]); }
}`,
			bufs: map[int][]byte{1: i32s(1, 2, 3, 4, -1, 7, 100, 0)},
			want: []any{10, 10, 30, 99, 70, 70, 70, 99},
		},
		{
			name: "switch_u32_default_only_and_nested",
			src: hdrOutU + hdrInU + cs1 + `
  switch inp[0] { default: { out[0] = 5u; } }
  var r = 0u;
  switch inp[1] {
    case 0u: { r = 1u; }
    case 4294967295u: {
      switch inp[2] {
        case 1u: { r = 21u; }
        case 2u, 3u: { r = 22u; }
        default: { r = 23u; }
      }
      r += 100u;
    }
    default: { r = 3u; }
  }
  out[1] = r;
  switch inp[2] { case 2u: { out[2] = 7u; } default: { } }
  switch inp[2] { case 9u: { out[3] = 7u; } default: { out[3] = 8u; } }
}`,
			bufs: map[int][]byte{1: u32s(42, uintMax, 2)},
			want: []any{5, 122, 7, 8},
		},
		{
			name: "loop_continuing_break_if",
			src: hdrOutI + hdrInI + `
fn run(n: i32) -> vec2<i32> {
  var i = 0; var s = 0;
  loop { s += i; continuing { i++; break if i >= n; } }
  return vec2<i32>(s, i);
}
` + cs1 + `
  let a = run(inp[0]); let b = run(inp[1]);
  out[0] = a.x; out[1] = a.y; out[2] = b.x; out[3] = b.y;
}`,
			bufs: map[int][]byte{1: i32s(5, 0)},
			want: []any{10, 5, 0, 1},
		},
		{
			name: "for_continue_break",
			src: hdrOutI + hdrInI + cs1 + `
  var s = 0;
  for (var i = 0; i < inp[0]; i++) { if i % 2 == 0 { continue; } if i > 7 { break; } s += i; }
  out[0] = s;     // 1+3+5+7
  var k = 0;
  for (; k < 3; ) { k += 2; }
  out[1] = k;     // 4
  var m = 0;
  for (var j = 10; j > 0; j -= 3) { m = m * 10 + j; if m > 1000 { break; } }
  out[2] = m;     // j = 10,7,4 -> 10, 107, 1074 -> break
}`,
			bufs: map[int][]byte{1: i32s(10)},
			want: []any{16, 4, 1074},
		},
		{
			name: "while_collatz",
			src: hdrOutI + hdrInI + cs1 + `
  var n = inp[0]; var steps = 0;
  while n != 1 { if n % 2 == 0 { n = n / 2; } else { n = 3 * n + 1; } steps++; }
  out[0] = steps;   // 6,3,10,5,16,8,4,2,1
  var w = 0;
  while true { w++; if w * w > inp[1] { break; } }
  out[1] = w;       // smallest w with w*w > 50 -> 8
  var z = 5;
  while z < 3 { z = 100; }
  out[2] = z;
}`,
			bufs: map[int][]byte{1: i32s(6, 50)},
			want: []any{8, 8, 5},
		},
		{
			name: "switch_in_loop_break_continue",
			src: hdrOutU + hdrInU + cs1 + `
  var acc = 0u;
  for (var i = 0u; i < inp[0]; i++) {
    switch i {
      case 0u: { acc += 1u; }
      case 1u: { continue; }
      case 2u: { acc += 10u; break; }
      default: { acc += 1000u; }
    }
    acc += 100u;
  }
  out[0] = acc;   // 101; 101; 211; 1311
  var c = 0u;
  for (var i = 0u; i < 3u; i++) {
    var j = 0u;
    loop { if j >= 3u { break; } j++; if j == 2u { continue; } c += i * 10u + j; }
  }
  out[1] = c;     // sum over i of (20 i + 4) = 72
  var d = 0u; var it = 0u;
  loop {
    it++;
    switch it {
      case 2u: { continue; }
      case 5u: { break; }
      default: { d += it; }
    }
    if it >= 5u { break; }
    continuing { d += 100u; }
  }
  out[2] = d;     // it=1: d=1,+100; it=2: continue,+100; it=3: +3,+100; it=4: +4,+100; it=5: break switch, loop break
  out[3] = it;
}`,
			bufs: map[int][]byte{1: u32s(4)},
			want: []any{1311, 72, 408, 5},
		},
		{
			name: "early_return_nested",
			src: hdrOutI + hdrInI + `
fn find(limit: i32, target: i32) -> i32 {
  for (var i = 0; i < limit; i++) {
    for (var j = 0; j < limit; j++) {
      if i * j == target { return i * 100 + j; }
    }
  }
  return -1;
}
fn store_if(i: i32, v: i32) { if v == 0 { return; } out[i] = v; { if v == 7 { return; } } out[i] = v + 1; }
` + cs1 + `
  out[0] = find(inp[0], 6); out[1] = find(inp[0], 7); out[2] = find(3, 0);
  out[3] = 55; store_if(3, 0);
  store_if(4, 7);
  store_if(5, 9);
  if inp[0] == 5 { out[6] = 1; return; }
  out[6] = 2;
}`,
			bufs: map[int][]byte{1: i32s(5)},
			want: []any{203, -1, 0, 55, 7, 10, 1},
		},
		{
			name: "return_from_switch_in_loop_callee",
			src: hdrOutI + hdrInI + `
fn f(n: i32) -> i32 {
  var i = 0;
  loop {
    switch i {
      case 3: { return i * 10; }
      case 1: { i += 1; continue; }
      default: { }
    }
    i++;
    if i > n { break; }
  }
  return -i;
}
` + cs1 + `
  out[0] = f(inp[0]); out[1] = f(inp[1]); out[2] = f(inp[2]);
}`,
			bufs: map[int][]byte{1: i32s(10, 1, 0)},
			want: []any{30, -3, -1},
		},
		{
			name: "pointer_params",
			src: hdrOutI + hdrInI + `
var<private> g: i32;
var<private> garr: array<i32, 3>;
fn bump(p: ptr<function, i32>, by: i32) -> i32 { let old = *p; *p = old + by; return old; }
fn dbl(p: ptr<private, i32>) { *p = *p * 2; }
fn swap(a: ptr<function, vec2<i32>>) { let t = (*a).x; (*a).x = (*a).y; (*a).y = t; }
fn set_elem(a: ptr<function, array<i32, 4>>, i: i32, v: i32) { (*a)[i] = v; }
fn twice(p: ptr<function, i32>) { let a = bump(p, 1); let b = bump(p, 1); }
` + cs1 + `
  var x = inp[0];
  let o = bump(&x, 3);
  out[0] = o; out[1] = x;          // 5, 8
  g = 100; dbl(&g); dbl(&g);
  out[2] = g;                      // 400
  var v = vec2<i32>(1, 2);
  swap(&v);
  out[3] = v.x * 10 + v.y;         // 21
  var arr = array<i32, 4>(0, 0, 0, 0);
  set_elem(&arr, inp[1], 9); set_elem(&arr, 0, 4);
  out[4] = arr[0] * 1000 + arr[1] * 100 + arr[2] * 10 + arr[3];   // 4090
  garr = array<i32, 3>(1, 2, 3); garr[inp[1] - 1] = 20;
  out[5] = garr[0] + garr[1] + garr[2];   // 24
  twice(&x);
  out[6] = x;                      // 10
  let p = &x; *p += 5;
  out[7] = x;                      // 15
}`,
			bufs: map[int][]byte{1: i32s(5, 2)},
			want: []any{5, 8, 400, 21, 4090, 24, 10, 15},
		},
		{
			name: "private_pointer_param_indexing",
			src: hdrOutI + hdrInI + `
var<private> garr: array<i32, 3>;
struct S { a: i32, b: vec2<i32> }
var<private> gs: S;
fn sum3(a: ptr<private, array<i32, 3>>) -> i32 { return (*a)[0] + (*a)[1] + (*a)[2]; }
fn setb(s: ptr<private, S>, v: i32) { (*s).b.y = v; (*s).a = v + 1; }
` + cs1 + `
  garr = array<i32, 3>(1, 2, 3); garr[1] = inp[0];
  out[0] = sum3(&garr);            // 1 + 20 + 3
  setb(&gs, inp[0]);
  out[1] = gs.b.y; out[2] = gs.a; out[3] = gs.b.x;
}`,
			bufs:   map[int][]byte{1: i32s(20)},
			want:   []any{24, 20, 21, 0},
			defect: "indexing through a ptr<private, array|struct> parameter emits an OpAccessChain whose result pointer is in the Function storage class (base is Private): invalid SPIR-V",
		},
		{
			name: "private_initializer",
			src: hdrOutI + hdrInI + `
var<private> g: i32 = 100;
var<private> garr: array<i32, 3> = array<i32, 3>(1, 2, 3);
var<private> gv: vec2<f32> = vec2<f32>(1.5, 2.5);
const K = 7;
var<private> gk: i32 = K * 6;
` + cs1 + `
  out[0] = g; out[1] = garr[0] + garr[1] * 10 + garr[inp[0]] * 100; out[2] = i32(gv.x + gv.y); out[3] = gk;
  g += 1; out[4] = g;
}`,
			bufs:   map[int][]byte{1: i32s(2)},
			want:   []any{100, 321, 4, 42, 101},
			defect: "initializers of var<private> globals are dropped by the SPIR-V backend (OpVariable emitted without initializer, no store): the variable reads as undefined/zero",
		},
		{
			name: "switch_break_as_last_statement",
			src: hdrOutI + hdrInI + `
fn f(i: i32) { switch i { default: { break; } } }
fn g(i: i32) -> i32 {
  var r = 1;
  switch i { case 1: { r = 2; break; } default: { break; } }
  return r;
}
` + cs1 + `
  f(inp[0]);
  out[0] = g(inp[0]) * 10 + g(inp[1]);
}`,
			bufs:   map[int][]byte{1: i32s(1, 5)},
			want:   []any{21},
			defect: "a void function whose last statement is a switch with `break` in a case: the merge block (reached by the break) is emitted as OpUnreachable instead of OpReturn",
		},
		{
			name: "private_globals_eval_order",
			src: hdrOutU + hdrInU + `
var<private> counter: u32 = 0u;
var<private> zeroed: vec3<u32>;
fn next() -> u32 { counter = counter + 1u; return counter; }
fn combine(a: u32, b: u32, c: u32) -> u32 { return a * 100u + b * 10u + c; }
` + cs1 + `
  out[0] = combine(next(), next(), next());   // 123: arguments evaluate left to right
  out[1] = next() - next();                   // 4 - 5
  out[2] = counter;
  out[3] = zeroed.x + zeroed.y + zeroed.z;    // zero-initialised
  zeroed.y = next() * inp[0];                 // 6 * 7
  out[4] = zeroed.y;
  let arr = array<u32, 3>(next(), next(), next());   // 7,8,9
  out[5] = arr[0] * 100u + arr[1] * 10u + arr[2];
  let v = vec2<u32>(next(), next());          // 10, 11
  out[6] = v.x * 100u + v.y;
}`,
			bufs:           map[int][]byte{1: u32s(7)},
			zeroInitDefect: "var<private> without/with dropped initializer is emitted as OpVariable without initializer: contents undefined in SPIR-V, WGSL requires the zero value",
			want:           []any{123, uintMax, 5, 0, 42, 789, 1011},
		},
		{
			name: "shadowing",
			src: hdrOutI + hdrInI + cs1 + `
  var x = inp[0];     // 1
  {
    var x = 2;
    { let x = 3; out[0] = x; }
    out[1] = x; x = 20; out[2] = x;
  }
  out[3] = x;
  for (var x = 7; x < 8; x++) { out[4] = x; }
  out[5] = x;
  if x == 1 { let x = x + 41; out[6] = x; }
  out[7] = x;
}`,
			bufs: map[int][]byte{1: i32s(1)},
			want: []any{3, 2, 20, 1, 7, 1, 42, 1},
		},
		{
			name: "long_loop_and_call_chain",
			src: hdrOutU + hdrInU + `
fn l3(x: u32) -> u32 { return x * x + 1u; }
fn l2(x: u32) -> u32 { return l3(x + 1u) + l3(x); }
fn l1(x: u32) -> u32 { return l2(x) * 2u + l2(0u); }
` + cs1 + `
  var s = 0u;
  for (var i = 0u; i < inp[0]; i++) { s += i; }
  out[0] = s;             // 499500
  out[1] = l1(inp[1]);    // l2(3) = l3(4)+l3(3) = 17+10 = 27; l2(0) = l3(1)+l3(0) = 2+1 = 3; 57
  var h = 2166136261u;    // FNV-1a over 0..9
  for (var i = 0u; i < 10u; i++) { h = (h ^ i) * 16777619u; }
  out[2] = h;
}`,
			bufs: map[int][]byte{1: u32s(1000, 3)},
			want: []any{499500, 57, fnv10()},
		},
		{
			name: "loop_exits_in_both_branches",
			src: hdrOutI + hdrInI + cs1 + `
  var i = 0; var r = 0;
  loop {
    if i == inp[0] { r = 1; break; } else { if i > 100 { r = 2; break; } }
    i++;
  }
  out[0] = r; out[1] = i;
  var j = 0;
  loop {
    j++;
    if j < 3 { continue; } else { break; }
  }
  out[2] = j;
  var k = 0; var n = 0;
  loop {
    if k >= 4 { break; }
    var inner = 0;
    loop { if inner >= k { break; } inner++; n++; }
    continuing { k++; }
  }
  out[3] = n;    // 0+1+2+3
}`,
			bufs: map[int][]byte{1: i32s(7)},
			want: []any{1, 7, 3, 6},
		},
		{
			name: "functions_return_composites",
			src: hdrOutF + hdrInF + `
struct Pair { lo: f32, hi: f32 }
fn minmax(a: f32, b: f32) -> Pair { if a < b { return Pair(a, b); } return Pair(b, a); }
fn mk(x: f32) -> array<f32, 3> { return array<f32, 3>(x, x * 2.0, x * 3.0); }
fn diag(x: f32) -> mat2x2<f32> { return mat2x2<f32>(x, 0.0, 0.0, x); }
fn pick(v: vec4<f32>, i: i32) -> f32 { return v[i]; }
` + cs1 + `
  let p = minmax(inp[0], inp[1]);
  out[0] = p.lo; out[1] = p.hi;
  let a = mk(inp[0]);
  out[2] = a[0] + a[1] + a[2];      // 4+8+12
  let d = diag(inp[1]) * vec2<f32>(1.0, 2.0);
  out[3] = d.x; out[4] = d.y;       // (-2,-4)
  out[5] = pick(vec4<f32>(1.0, 2.0, 3.0, inp[0]), 3);
}`,
			bufs: map[int][]byte{1: f32s(4, -2)},
			want: []any{float32(-2), float32(4), float32(24), float32(-2), float32(-4), float32(4)},
		},
	})
}

func fnv10() uint32 {
	h := uint32(2166136261)
	for i := uint32(0); i < 10; i++ {
		h = (h ^ i) * 16777619
	}
	return h
}
