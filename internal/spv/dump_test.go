package spv

import (
	"os"
	"testing"

	"github.com/gogpu/naga/spirv"
)

// TestDump disassembles the file named by SPV_FILE (debugging aid; skipped otherwise).
func TestDump(t *testing.T) {
	f := os.Getenv("SPV_FILE")
	if f == "" {
		t.Skip("SPV_FILE not set")
	}
	src, err := os.ReadFile(f)
	if err != nil {
		t.Fatal(err)
	}
	o := spirv.Options{Version: spirv.Version1_3}
	if os.Getenv("SPV_DEFAULT") != "" {
		o = spirv.DefaultOptions()
	}
	b, err := compileWGSL(t, string(src), o)
	if err != nil {
		t.Fatal(err)
	}
	m, err := Parse(b)
	if err != nil {
		t.Fatal(err)
	}
	t.Log("\n" + m.Disassemble())
}
