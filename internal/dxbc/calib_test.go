package dxbc

import (
	"fmt"
	"os"
	"path/filepath"
	"sort"
	"strings"
	"testing"

	"github.com/gogpu/naga"
	"github.com/gogpu/naga/dxil"
	"github.com/gogpu/naga/ir"
)

const corpusDir = "/repo/snapshot/testdata/in"

type compiled struct {
	shader, entry string
	stage         ir.ShaderStage
	wg            [3]uint32
	sm            dxil.ShaderModel
	bypass        bool
	blob          []byte
}

func stageName(s ir.ShaderStage) string {
	switch s {
	case ir.StageVertex:
		return "vertex"
	case ir.StageFragment:
		return "fragment"
	case ir.StageCompute:
		return "compute"
	case ir.StageMesh:
		return "mesh"
	case ir.StageTask:
		return "amplification"
	}
	return ""
}

// lowerWGSL parses and lowers one WGSL source, applying default overrides.
func lowerWGSL(src string) (*ir.Module, error) {
	ast, err := naga.Parse(src)
	if err != nil {
		return nil, err
	}
	m, err := naga.LowerWithSource(ast, src)
	if err != nil {
		return nil, err
	}
	if len(m.Overrides) > 0 {
		m = ir.CloneModuleForOverrides(m)
		if err := ir.ProcessOverrides(m, nil); err != nil {
			return nil, err
		}
	}
	return m, nil
}

func safeCompile(m *ir.Module, o dxil.Options) (b []byte, err error, panicked any) {
	defer func() {
		if x := recover(); x != nil {
			panicked = x
		}
	}()
	b, err = dxil.Compile(m, o)
	return
}

type calibStats struct {
	files, lowerErr, compileErr, panics, containers int
}

// compileCorpus compiles every entry point of the selected corpus files.
func compileCorpus(t testing.TB, pick func(i int, name string) bool, sms []dxil.ShaderModel, hashModes []bool, each func(c compiled)) calibStats {
	files, err := filepath.Glob(filepath.Join(corpusDir, "*.wgsl"))
	if err != nil || len(files) == 0 {
		t.Skipf("corpus not available: %v", err)
	}
	sort.Strings(files)
	var st calibStats
	for i, f := range files {
		name := strings.TrimSuffix(filepath.Base(f), ".wgsl")
		if !pick(i, name) {
			continue
		}
		st.files++
		src, _ := os.ReadFile(f)
		var m *ir.Module
		func() {
			defer func() {
				if x := recover(); x != nil {
					err = fmt.Errorf("panic: %v", x)
				}
			}()
			m, err = lowerWGSL(string(src))
		}()
		if err != nil || m == nil {
			st.lowerErr++
			continue
		}
		for j := range m.EntryPoints {
			single := *m
			single.EntryPoints = []ir.EntryPoint{m.EntryPoints[j]}
			ep := m.EntryPoints[j]
			for _, sm := range sms {
				for _, bp := range hashModes {
					o := dxil.DefaultOptions()
					o.ShaderModel = sm
					o.UseBypassHash = bp
					blob, cerr, p := safeCompile(&single, o)
					if p != nil {
						st.panics++
						continue
					}
					if cerr != nil {
						st.compileErr++
						continue
					}
					st.containers++
					each(compiled{shader: name, entry: ep.Name, stage: ep.Stage, wg: ep.Workgroup, sm: sm, bypass: bp, blob: blob})
				}
			}
		}
	}
	return st
}

func expectFor(c compiled) Expect {
	e := Expect{Stage: stageName(c.stage), SMMajor: int(c.sm.Major), SMMinor: int(c.sm.Minor), AllowSMUpgrade: true, BypassHash: c.bypass}
	if c.stage == ir.StageCompute {
		wg := c.wg
		e.NumThreads = &wg
	}
	return e
}

// knownCorpusFindings: "shader:entry rule" pairs that are genuine deviations in
// naga's output on the pinned tree (triaged; bitcode-level ones confirmed with
// llvm-dis / opt -verify). Anything else is a regression of the checker or a
// new naga defect and fails the test.
var knownCorpusFindings = map[string]bool{
	"access:foo_compute func.type-check":                             true, // nested struct flattened, member GEP typed {i32}
	"atomicOps:cs_main func.enum":                                    true, // atomicrmw ordering code 7
	"atomicOps-int64:cs_main func.enum":                              true,
	"atomics:main func.enum":                                         true,
	"barycentrics:fs_main psv.layout":                                true, // PSV0 counts 2 sig elements, stores 1
	"binding-arrays:main dxmeta.resource-overlap":                    true, // default binding map: unbounded array overlaps
	"bounds-check-restrict:main func.type-check":                     true, // store through dx.types.Handle (m[i][j] = v)
	"bounds-check-zero:main func.type-check":                         true,
	"debug-symbol-large-source:gen_terrain_fragment func.ssa":        true, // switch phi names the wrong values
	"debug-symbol-large-source:gen_terrain_fragment func.type-check": true,
	"debug-symbol-terrain:gen_terrain_fragment func.ssa":             true,
	"debug-symbol-terrain:gen_terrain_fragment func.type-check":      true,
	"f16:main func.record":                                           true, // forward-referenced cast operand without type
	"f16:main func.type-check":                                       true, // half/float/i32 mix-ups, bitcast half->i32
	"hlsl_mat_cx2:main func.type-check":                              true, // load/GEP/store through dx.types.Handle
	"hlsl_mat_cx3:main func.type-check":                              true,
	"int64:main func.type-check":                                     true, // i32/i64 mix-ups, extractvalue index out of range
	"int64:main module.const-range":                                  true, // 64-bit literal under SETTYPE i32
	"mesh-shader:ms_main psv.layout":                                 true, // mesh: primitive sig elements counted, not stored
	"mesh-shader-lines:ms_main psv.layout":                           true,
	"mesh-shader-points:ms_main psv.layout":                          true,
	"msl-vpt-formats-x1:render_vertex psv.sig-elements":              true, // > 32 vertex inputs: rows/registers >= 32
	"msl-vpt-formats-x1:render_vertex sig.element":                   true,
	"msl-vpt-formats-x2:render_vertex psv.sig-elements":              true,
	"msl-vpt-formats-x2:render_vertex sig.element":                   true,
	"msl-vpt-formats-x3:render_vertex psv.sig-elements":              true,
	"msl-vpt-formats-x3:render_vertex sig.element":                   true,
	"msl-vpt-formats-x4:render_vertex psv.sig-elements":              true,
	"msl-vpt-formats-x4:render_vertex sig.element":                   true,
}

// TestCalibrationCorpus runs Check over naga's DXIL output for every corpus
// entry point. Default: SM 6.0 retail hash + SM 6.6 bypass hash;
// DXBC_CALIB=full: SM 6.0/6.2/6.6 x both hash modes (1386 containers).
func TestCalibrationCorpus(t *testing.T) {
	type cfg struct {
		sm     dxil.ShaderModel
		bypass bool
	}
	cfgs := []cfg{{dxil.SM6_0, false}, {dxil.SM6_6, true}}
	if os.Getenv("DXBC_CALIB") == "full" {
		cfgs = nil
		for _, sm := range []dxil.ShaderModel{dxil.SM6_0, dxil.SM6_2, dxil.SM6_6} {
			cfgs = append(cfgs, cfg{sm, false}, cfg{sm, true})
		}
	}
	unexpected := map[string]string{}
	seenKnown := map[string]bool{}
	only := os.Getenv("DXBC_CALIB_ONLY")
	byRule := map[string][]string{}
	fired := map[string]int{}
	unsup := map[string]int{}
	nfind := 0
	withFindings := 0
	var st calibStats
	each := func(c compiled) {
		rep := Check(c.blob, expectFor(c))
		for k, v := range rep.Fired {
			fired[k] += v
		}
		for _, u := range rep.Unsupported {
			unsup[u]++
		}
		if len(rep.Findings) > 0 {
			withFindings++
		}
		for _, f := range rep.Findings {
			nfind++
			key := c.shader + ":" + c.entry + " " + f.Rule
			if knownCorpusFindings[key] {
				seenKnown[key] = true
			} else if _, dup := unexpected[key]; !dup {
				unexpected[key] = f.Detail
			}
			byRule[f.Rule] = append(byRule[f.Rule], fmt.Sprintf("%s:%s SM%d.%d bypass=%v: %s", c.shader, c.entry, c.sm.Major, c.sm.Minor, c.bypass, f.Detail))
		}
		if dir := os.Getenv("DXBC_CALIB_DUMP"); dir != "" && only != "" {
			_ = os.WriteFile(filepath.Join(dir, fmt.Sprintf("%s_%s_%d%d.dxbc", c.shader, c.entry, c.sm.Major, c.sm.Minor)), c.blob, 0o644)
		}
	}
	for i, cf := range cfgs {
		s1 := compileCorpus(t, func(i int, name string) bool { return only == "" || name == only }, []dxil.ShaderModel{cf.sm}, []bool{cf.bypass}, each)
		if i == 0 {
			st.files, st.lowerErr = s1.files, s1.lowerErr
		}
		st.compileErr += s1.compileErr
		st.panics += s1.panics
		st.containers += s1.containers
	}
	t.Logf("files=%d lowerErr=%d compileErr=%d panics=%d containers=%d findings=%d containersWithFindings=%d", st.files, st.lowerErr, st.compileErr, st.panics, st.containers, nfind, withFindings)
	var rules []string
	for r := range byRule {
		rules = append(rules, r)
	}
	sort.Strings(rules)
	maxEx := 2
	if os.Getenv("DXBC_CALIB_VERBOSE") != "" {
		maxEx = 1 << 30
	}
	for _, r := range rules {
		t.Logf("RULE %s: %d findings", r, len(byRule[r]))
		for i, d := range byRule[r] {
			if i >= maxEx {
				break
			}
			t.Logf("    %s", d)
		}
	}
	for u, n := range unsup {
		t.Logf("UNSUPPORTED x%d: %s", n, u)
	}
	var never []string
	for _, r := range Rules() {
		if fired[r] == 0 && r != "internal.panic" {
			never = append(never, r)
		}
	}
	t.Logf("rules never examined: %v", never)
	if st.containers == 0 {
		t.Fatalf("no containers produced")
	}
	for k, d := range unexpected {
		t.Errorf("unexpected finding %s: %s", k, d)
	}
	if only == "" {
		for k := range knownCorpusFindings {
			if !seenKnown[k] {
				t.Logf("known finding no longer reproduces: %s", k)
			}
		}
	}
	t.Logf("distinct (entry point, rule) findings: %d known, %d unexpected", len(seenKnown), len(unexpected))
	if n := len(byRule["internal.panic"]); n > 0 {
		t.Errorf("checker panicked %d times", n)
	}
}
