package dxbc

import (
	"fmt"
	"os"
	"path/filepath"
	"sort"
	"strings"
	"testing"

	"github.com/gogpu/naga"
	"github.com/gogpu/naga/dxil"
	"github.com/gogpu/naga/ir"
)

const corpusDir = "/repo/snapshot/testdata/in"

type compiled struct {
	shader, entry string
	stage         ir.ShaderStage
	wg            [3]uint32
	sm            dxil.ShaderModel
	bypass        bool
	blob          []byte
}

func stageName(s ir.ShaderStage) string {
	switch s {
	case ir.StageVertex:
		return "vertex"
	case ir.StageFragment:
		return "fragment"
	case ir.StageCompute:
		return "compute"
	case ir.StageMesh:
		return "mesh"
	case ir.StageTask:
		return "amplification"
	}
	return ""
}

// lowerWGSL parses and lowers one WGSL source, applying default overrides.
func lowerWGSL(src string) (*ir.Module, error) {
	ast, err := naga.Parse(src)
	if err != nil {
		return nil, err
	}
	m, err := naga.LowerWithSource(ast, src)
	if err != nil {
		return nil, err
	}
	if len(m.Overrides) > 0 {
		m = ir.CloneModuleForOverrides(m)
		if err := ir.ProcessOverrides(m, nil); err != nil {
			return nil, err
		}
	}
	return m, nil
}

func safeCompile(m *ir.Module, o dxil.Options) (b []byte, err error, panicked any) {
	defer func() {
		if x := recover(); x != nil {
			panicked = x
		}
	}()
	b, err = dxil.Compile(m, o)
	return
}

type calibStats struct {
	files, lowerErr, compileErr, panics, containers int
}

// compileCorpus compiles every entry point of the selected corpus files.
func compileCorpus(t testing.TB, pick func(i int, name string) bool, sms []dxil.ShaderModel, hashModes []bool, each func(c compiled)) calibStats {
	files, err := filepath.Glob(filepath.Join(corpusDir, "*.wgsl"))
	if err != nil || len(files) == 0 {
		t.Skipf("corpus not available: %v", err)
	}
	sort.Strings(files)
	var st calibStats
	for i, f := range files {
		name := strings.TrimSuffix(filepath.Base(f), ".wgsl")
		if !pick(i, name) {
			continue
		}
		st.files++
		src, _ := os.ReadFile(f)
		var m *ir.Module
		func() {
			defer func() {
				if x := recover(); x != nil {
					err = fmt.Errorf("panic: %v", x)
				}
			}()
			m, err = lowerWGSL(string(src))
		}()
		if err != nil || m == nil {
			st.lowerErr++
			continue
		}
		for j := range m.EntryPoints {
			single := *m
			single.EntryPoints = []ir.EntryPoint{m.EntryPoints[j]}
			ep := m.EntryPoints[j]
			for _, sm := range sms {
				for _, bp := range hashModes {
					o := dxil.DefaultOptions()
					o.ShaderModel = sm
					o.UseBypassHash = bp
					blob, cerr, p := safeCompile(&single, o)
					if p != nil {
						st.panics++
						continue
					}
					if cerr != nil {
						st.compileErr++
						continue
					}
					st.containers++
					each(compiled{shader: name, entry: ep.Name, stage: ep.Stage, wg: ep.Workgroup, sm: sm, bypass: bp, blob: blob})
				}
			}
		}
	}
	return st
}

func expectFor(c compiled) Expect {
	e := Expect{Stage: stageName(c.stage), SMMajor: int(c.sm.Major), SMMinor: int(c.sm.Minor), AllowSMUpgrade: true, BypassHash: c.bypass}
	if c.stage == ir.StageCompute {
		wg := c.wg
		e.NumThreads = &wg
	}
	return e
}

// TestCalibrationCorpus runs Check over naga's DXIL output for the corpus.
// Default: every shader at SM 6.0 retail hash. DXBC_CALIB=full: SM 6.0/6.2/6.6 x both hash modes.
func TestCalibrationCorpus(t *testing.T) {
	sms := []dxil.ShaderModel{dxil.SM6_0}
	modes := []bool{false}
	if os.Getenv("DXBC_CALIB") == "full" {
		sms = []dxil.ShaderModel{dxil.SM6_0, dxil.SM6_2, dxil.SM6_6}
		modes = []bool{false, true}
	}
	only := os.Getenv("DXBC_CALIB_ONLY")
	byRule := map[string][]string{}
	fired := map[string]int{}
	unsup := map[string]int{}
	nfind := 0
	withFindings := 0
	st := compileCorpus(t, func(i int, name string) bool { return only == "" || name == only }, sms, modes, func(c compiled) {
		rep := Check(c.blob, expectFor(c))
		for k, v := range rep.Fired {
			fired[k] += v
		}
		for _, u := range rep.Unsupported {
			unsup[u]++
		}
		if len(rep.Findings) > 0 {
			withFindings++
		}
		for _, f := range rep.Findings {
			nfind++
			byRule[f.Rule] = append(byRule[f.Rule], fmt.Sprintf("%s:%s SM%d.%d bypass=%v: %s", c.shader, c.entry, c.sm.Major, c.sm.Minor, c.bypass, f.Detail))
		}
		if dir := os.Getenv("DXBC_CALIB_DUMP"); dir != "" && only != "" {
			_ = os.WriteFile(filepath.Join(dir, fmt.Sprintf("%s_%s_%d%d.dxbc", c.shader, c.entry, c.sm.Major, c.sm.Minor)), c.blob, 0o644)
		}
	})
	t.Logf("files=%d lowerErr=%d compileErr=%d panics=%d containers=%d findings=%d containersWithFindings=%d", st.files, st.lowerErr, st.compileErr, st.panics, st.containers, nfind, withFindings)
	var rules []string
	for r := range byRule {
		rules = append(rules, r)
	}
	sort.Strings(rules)
	maxEx := 6
	if os.Getenv("DXBC_CALIB_VERBOSE") != "" {
		maxEx = 1 << 30
	}
	for _, r := range rules {
		t.Logf("RULE %s: %d findings", r, len(byRule[r]))
		for i, d := range byRule[r] {
			if i >= maxEx {
				break
			}
			t.Logf("    %s", d)
		}
	}
	for u, n := range unsup {
		t.Logf("UNSUPPORTED x%d: %s", n, u)
	}
	var never []string
	for _, r := range Rules() {
		if fired[r] == 0 && r != "internal.panic" {
			never = append(never, r)
		}
	}
	t.Logf("rules never examined: %v", never)
	if st.containers == 0 {
		t.Fatalf("no containers produced")
	}
	if n := len(byRule["internal.panic"]); n > 0 {
		t.Errorf("checker panicked %d times", n)
	}
}
