package dxbc

import (
	"fmt"
)

// LLVM 3.7 bitcode record semantics: MODULE, TYPE_NEW, PARAMATTR(_GROUP),
// CONSTANTS, METADATA, VALUE_SYMTAB.

type tyKind int

const (
	tVoid tyKind = iota
	tHalf
	tFloat
	tDouble
	tLabel
	tOpaque
	tInt
	tPointer
	tFunction
	tArray
	tVector
	tMetadata
	tStruct
	tOtherFP // x86_fp80, fp128, ppc_fp128
	tMMX
)

type typ struct {
	kind      tyKind
	width     uint64 // integer bits
	elem      int    // pointer/array/vector element, function return
	n         uint64 // array/vector length
	addrspace uint64
	vararg    bool
	fields    []int // struct fields / function params
	named     bool
	name      string
	packed    bool
	opaque    bool
	synthetic bool
}

type valKind int

const (
	vkGlobalVar valKind = iota
	vkFunction
	vkAlias
	vkConst
	vkArg
	vkInst
)

type constInfo struct {
	code   uint64
	isInt  bool
	ival   int64
	elems  []uint64 // aggregate element value ids
	refs   []uint64 // all value ids referenced (aggregate + CE operands)
	bitpos uint64
}

type value struct {
	kind valKind
	ty   int // type id, -1 unknown
	cst  *constInfo
	fn   *funcDecl
}

type funcDecl struct {
	valueID int
	fty     int // function type id
	isProto bool
	name    string
	rec     *bsRecord
}

type mdKind int

const (
	mdString mdKind = iota
	mdValue
	mdNode
	mdOther
)

type mdEntry struct {
	kind  mdKind
	str   string
	valTy int
	valID uint64
	ops   []uint64 // NODE: id+1, 0 = null
	rec   *bsRecord
}

type namedMD struct {
	name string
	ops  []uint64
}

type moduleChecker struct {
	c   *checker
	rep *Report
	mod *bsBlock
	sum *BitcodeSummary

	types       []*typ
	numDeclared int
	values      []value
	funcs       []*funcDecl
	md          []mdEntry
	named       []namedMD
	mdKinds     map[uint64]string
	numAttrs    int
	sections    int
	gcs         int
	comdats     int
	vstNames    map[int]string
}

func newModuleChecker(c *checker, mod *bsBlock, sum *BitcodeSummary) *moduleChecker {
	return &moduleChecker{c: c, rep: c.rep, mod: mod, sum: sum, mdKinds: map[uint64]string{}, vstNames: map[int]string{}}
}

func (m *moduleChecker) find(rule, f string, a ...any) { m.rep.add(rule, fmt.Sprintf(f, a...)) }
func (m *moduleChecker) fire(rule string)              { m.rep.fire(rule) }

func (m *moduleChecker) ty(id int) *typ {
	if id < 0 || id >= len(m.types) {
		return nil
	}
	return m.types[id]
}

func (m *moduleChecker) typeInRange(id uint64) bool {
	return id < uint64(m.numDeclared) && m.types[id] != nil
}

func (m *moduleChecker) findOrMake(t typ) int {
	for i, x := range m.types {
		if x == nil || x.kind != t.kind {
			continue
		}
		switch t.kind {
		case tInt:
			if x.width == t.width {
				return i
			}
		case tPointer:
			if x.elem == t.elem && x.addrspace == t.addrspace {
				return i
			}
		case tVector, tArray:
			if x.elem == t.elem && x.n == t.n {
				return i
			}
		case tStruct:
			if !x.named && !t.named && x.packed == t.packed && len(x.fields) == len(t.fields) {
				same := true
				for k := range x.fields {
					if x.fields[k] != t.fields[k] {
						same = false
					}
				}
				if same {
					return i
				}
			}
		case tVoid, tHalf, tFloat, tDouble, tLabel, tMetadata:
			return i
		}
	}
	t.synthetic = true
	m.types = append(m.types, &t)
	return len(m.types) - 1
}

func (m *moduleChecker) ptrTo(elem int, as uint64) int {
	if elem < 0 {
		return -1
	}
	return m.findOrMake(typ{kind: tPointer, elem: elem, addrspace: as})
}

// sameType compares type ids structurally for the synthetic/declared split:
// LLVM types are uniqued, so two ids denote the same type iff they are
// structurally equal (named structs: identical id).
func (m *moduleChecker) sameType(a, b int) bool { return m.sameTypeD(a, b, 0) }

func (m *moduleChecker) sameTypeD(a, b, depth int) bool {
	if a == b || depth > 32 {
		return true
	}
	depth++
	x, y := m.ty(a), m.ty(b)
	if x == nil || y == nil || x.kind != y.kind {
		return false
	}
	switch x.kind {
	case tInt:
		return x.width == y.width
	case tPointer:
		return x.addrspace == y.addrspace && m.sameTypeD(x.elem, y.elem, depth)
	case tArray, tVector:
		return x.n == y.n && m.sameTypeD(x.elem, y.elem, depth)
	case tFunction:
		if x.vararg != y.vararg || len(x.fields) != len(y.fields) || !m.sameTypeD(x.elem, y.elem, depth) {
			return false
		}
		for i := range x.fields {
			if !m.sameTypeD(x.fields[i], y.fields[i], depth) {
				return false
			}
		}
		return true
	case tStruct:
		if x.named || y.named {
			return false
		}
		if x.packed != y.packed || len(x.fields) != len(y.fields) {
			return false
		}
		for i := range x.fields {
			if !m.sameTypeD(x.fields[i], y.fields[i], depth) {
				return false
			}
		}
		return true
	case tOtherFP, tMMX, tOpaque:
		return false
	}
	return true
}

func (m *moduleChecker) tyString(id int) string {
	return m.tyStringD(id, 0)
}

func (m *moduleChecker) tyStringD(id, depth int) string {
	t := m.ty(id)
	if t == nil {
		return fmt.Sprintf("?%d", id)
	}
	if depth > 6 {
		return "..."
	}
	switch t.kind {
	case tVoid:
		return "void"
	case tHalf:
		return "half"
	case tFloat:
		return "float"
	case tDouble:
		return "double"
	case tLabel:
		return "label"
	case tMetadata:
		return "metadata"
	case tOpaque:
		return "opaque"
	case tInt:
		return fmt.Sprintf("i%d", t.width)
	case tPointer:
		if t.addrspace != 0 {
			return fmt.Sprintf("%s addrspace(%d)*", m.tyStringD(t.elem, depth+1), t.addrspace)
		}
		return m.tyStringD(t.elem, depth+1) + "*"
	case tArray:
		return fmt.Sprintf("[%d x %s]", t.n, m.tyStringD(t.elem, depth+1))
	case tVector:
		return fmt.Sprintf("<%d x %s>", t.n, m.tyStringD(t.elem, depth+1))
	case tStruct:
		if t.named {
			return "%" + t.name
		}
		s := "{"
		for i, f := range t.fields {
			if i > 0 {
				s += ", "
			}
			s += m.tyStringD(f, depth+1)
		}
		return s + "}"
	case tFunction:
		s := m.tyStringD(t.elem, depth+1) + " ("
		for i, f := range t.fields {
			if i > 0 {
				s += ", "
			}
			s += m.tyStringD(f, depth+1)
		}
		if t.vararg {
			s += ", ..."
		}
		return s + ")"
	}
	return "?"
}

func (m *moduleChecker) run() {
	// pass 1: tables
	m.fire("module.version")
	nver := 0
	for _, r := range m.mod.records() {
		if r.Code == 1 {
			nver++
			if len(r.Ops) < 1 || r.Ops[0] != 1 {
				m.find("module.version", "MODULE_CODE_VERSION record %v, want [1] (relative value ids, as DXIL requires)", r.Ops)
			}
		}
	}
	if nver != 1 {
		m.find("module.version", "%d MODULE_CODE_VERSION records (want 1)", nver)
		if nver == 0 {
			// Version 0 = absolute ids; the function checker assumes relative.
			m.rep.unsupported("module without VERSION record: function bodies not analysed")
		}
	}
	for _, b := range m.mod.blocks(blkParamAttrGroup) {
		m.parseAttrGroups(b)
	}
	for _, b := range m.mod.blocks(blkParamAttr) {
		m.parseAttrs(b)
	}
	tb := m.mod.blocks(blkTypeNew)
	m.fire("module.type-table")
	if len(tb) != 1 {
		m.find("module.type-table", "%d TYPE_NEW blocks in MODULE (want 1)", len(tb))
	}
	if len(tb) >= 1 {
		m.parseTypes(tb[0])
	}
	m.sum.Types = m.numDeclared

	// module-level values in stream order
	var fnBlocks []*bsBlock
	seenFnBlock := false
	for _, it := range m.mod.Items {
		switch {
		case it.Rec != nil:
			r := it.Rec
			switch r.Code {
			case 5: // SECTIONNAME
				m.sections++
			case 11: // GCNAME
				m.gcs++
			case 12: // COMDAT
				m.comdats++
			}
		}
	}
	for _, it := range m.mod.Items {
		switch {
		case it.Rec != nil:
			r := it.Rec
			switch r.Code {
			case 7:
				m.globalVar(r)
			case 8:
				m.functionDecl(r)
			case 9, 14: // ALIAS_OLD / ALIAS
				t := -1
				if len(r.Ops) > 0 && m.typeInRange(r.Ops[0]) {
					t = int(r.Ops[0])
				}
				m.values = append(m.values, value{kind: vkAlias, ty: t})
			case 1, 2, 3, 4, 5, 6, 10, 11, 12, 13:
			default:
				m.rep.unsupported("MODULE record code %d", r.Code)
			}
			if seenFnBlock && (r.Code == 7 || r.Code == 8 || r.Code == 9) {
				m.fire("module.global")
				m.find("module.global", "global value record (code %d) after a FUNCTION block", r.Code)
			}
		case it.Blk != nil:
			switch it.Blk.ID {
			case blkConstants:
				if seenFnBlock {
					m.fire("module.constants")
					m.find("module.constants", "module-level CONSTANTS block after a FUNCTION block")
				}
				m.values = m.parseConstants(it.Blk, m.values, "module")
			case blkFunction:
				seenFnBlock = true
				fnBlocks = append(fnBlocks, it.Blk)
			}
		}
	}
	gv := 0
	for _, v := range m.values {
		if v.kind != vkConst {
			gv++
		}
	}
	m.sum.GlobalValues = gv
	m.sum.ModuleValues = len(m.values)
	m.sum.Functions = len(m.funcs)
	m.sum.FunctionBodies = len(fnBlocks)
	m.checkConstRefs(m.values, 0, "module")
	m.checkGlobalInits()

	// metadata
	for _, b := range m.mod.blocks(blkMetadata) {
		m.parseMetadata(b, uint64(len(m.values)), "module")
	}
	m.checkMetadataRefs(0, "module")
	m.sum.MetadataNodes = len(m.md)
	for _, n := range m.named {
		m.sum.NamedMetadata = append(m.sum.NamedMetadata, n.name)
	}
	for _, b := range m.mod.blocks(blkValueSymtab) {
		m.parseVST(b, len(m.values), -1, "module", "module.vst")
	}
	for _, f := range m.funcs {
		if n, ok := m.vstNames[f.valueID]; ok {
			f.name = n
		}
	}

	// function bodies
	var bodies []*funcDecl
	for _, f := range m.funcs {
		if !f.isProto {
			bodies = append(bodies, f)
		}
	}
	m.fire("module.function-count")
	if len(bodies) != len(fnBlocks) {
		m.find("module.function-count", "%d FUNCTION blocks but %d FUNCTION records with isproto=0", len(fnBlocks), len(bodies))
	}
	if nver == 1 {
		for i, fb := range fnBlocks {
			if i >= len(bodies) {
				break
			}
			fc := &funcChecker{m: m, decl: bodies[i], blk: fb}
			fc.run()
		}
	}
	m.checkDxMetadata()
}

// ---- attributes ----

func (m *moduleChecker) parseAttrGroups(b *bsBlock) {
	for _, r := range b.records() {
		if r.Code != 3 {
			continue
		}
		m.fire("module.paramattr")
		if len(r.Ops) < 3 {
			m.find("module.paramattr", "PARAMATTR_GRP_CODE_ENTRY with %d operands (<3)", len(r.Ops))
			continue
		}
		i := 2
		ok := true
		for i < len(r.Ops) && ok {
			k := r.Ops[i]
			switch k {
			case 0:
				i += 2
			case 1:
				i += 3
			case 3, 4:
				i++
				for i < len(r.Ops) && r.Ops[i] != 0 {
					i++
				}
				if i >= len(r.Ops) {
					ok = false
					break
				}
				i++
				if k == 4 {
					for i < len(r.Ops) && r.Ops[i] != 0 {
						i++
					}
					if i >= len(r.Ops) {
						ok = false
						break
					}
					i++
				}
			default:
				ok = false
			}
		}
		if !ok || i != len(r.Ops) {
			m.find("module.paramattr", "PARAMATTR_GRP_CODE_ENTRY %v is not a well-formed attribute list", r.Ops)
		}
	}
}

func (m *moduleChecker) parseAttrs(b *bsBlock) {
	groups := map[uint64]bool{}
	for _, gb := range m.mod.blocks(blkParamAttrGroup) {
		for _, r := range gb.records() {
			if r.Code == 3 && len(r.Ops) > 0 {
				groups[r.Ops[0]] = true
			}
		}
	}
	for _, r := range b.records() {
		switch r.Code {
		case 1:
			m.numAttrs++
		case 2:
			m.numAttrs++
			m.fire("module.paramattr")
			for _, g := range r.Ops {
				if !groups[g] {
					m.find("module.paramattr", "PARAMATTR_CODE_ENTRY refers to attribute group %d, which no PARAMATTR_GROUP entry defines", g)
				}
			}
		}
	}
}

// ---- types ----

func (m *moduleChecker) parseTypes(b *bsBlock) {
	recs := b.records()
	num := -1
	var defs []*bsRecord
	for _, r := range recs {
		switch r.Code {
		case 1:
			if num < 0 && len(r.Ops) >= 1 {
				num = int(r.Ops[0])
			}
		case 19:
		default:
			defs = append(defs, r)
		}
	}
	m.fire("module.type-table")
	if num < 0 {
		m.find("module.type-table", "TYPE block without NUMENTRY record")
		num = len(defs)
	}
	if num != len(defs) {
		m.find("module.type-table", "TYPE_CODE_NUMENTRY=%d but the block defines %d types", num, len(defs))
	}
	if len(defs) < num {
		num = len(defs)
	}
	if num > 1<<20 {
		num = 1 << 20
	}
	m.numDeclared = num
	m.types = make([]*typ, num)
	pendingName := ""
	idx := 0
	forward := map[int]int{} // forward-referenced id -> first referencing id
	ref := func(op uint64, what string) int {
		m.fire("module.type-ref")
		if op >= uint64(num) {
			m.find("module.type-ref", "type %d (%s): operand type id %d out of range (table has %d types)", idx, what, op, num)
			return -1
		}
		if int(op) >= idx {
			if _, ok := forward[int(op)]; !ok {
				forward[int(op)] = idx
			}
		}
		return int(op)
	}
	short := func(r *bsRecord, n int, what string) bool {
		if len(r.Ops) < n {
			m.fire("module.type-table")
			m.find("module.type-table", "type %d: %s record with %d operands (<%d)", idx, what, len(r.Ops), n)
			return true
		}
		return false
	}
	for _, r := range recs {
		if r.Code == 1 {
			continue
		}
		if r.Code == 19 {
			s := make([]byte, len(r.Ops))
			for i, c := range r.Ops {
				s[i] = byte(c)
			}
			pendingName = string(s)
			continue
		}
		if idx >= num {
			break
		}
		var t *typ
		switch r.Code {
		case 2:
			t = &typ{kind: tVoid}
		case 3:
			t = &typ{kind: tFloat}
		case 4:
			t = &typ{kind: tDouble}
		case 5:
			t = &typ{kind: tLabel}
		case 6:
			t = &typ{kind: tStruct, named: true, opaque: true, name: pendingName}
			pendingName = ""
		case 7:
			if !short(r, 1, "INTEGER") {
				t = &typ{kind: tInt, width: r.Ops[0]}
				m.fire("module.type-table")
				if r.Ops[0] < 1 || r.Ops[0] > (1<<23)-1 {
					m.find("module.type-table", "type %d: integer width %d outside [1, 2^23-1]", idx, r.Ops[0])
				}
			}
		case 8:
			if !short(r, 1, "POINTER") {
				t = &typ{kind: tPointer, elem: ref(r.Ops[0], "POINTER")}
				if len(r.Ops) >= 2 {
					t.addrspace = r.Ops[1]
				}
			}
		case 9: // FUNCTION_OLD [vararg, attrid, retty, paramty...]
			if !short(r, 3, "FUNCTION_OLD") {
				t = &typ{kind: tFunction, vararg: r.Ops[0] != 0, elem: ref(r.Ops[2], "FUNCTION_OLD")}
				for _, p := range r.Ops[3:] {
					t.fields = append(t.fields, ref(p, "FUNCTION_OLD"))
				}
			}
		case 21: // FUNCTION [vararg, retty, paramty...]
			if !short(r, 2, "FUNCTION") {
				t = &typ{kind: tFunction, vararg: r.Ops[0] != 0, elem: ref(r.Ops[1], "FUNCTION")}
				for _, p := range r.Ops[2:] {
					t.fields = append(t.fields, ref(p, "FUNCTION"))
				}
			}
		case 10:
			t = &typ{kind: tHalf}
		case 11:
			if !short(r, 2, "ARRAY") {
				t = &typ{kind: tArray, n: r.Ops[0], elem: ref(r.Ops[1], "ARRAY")}
			}
		case 12:
			if !short(r, 2, "VECTOR") {
				t = &typ{kind: tVector, n: r.Ops[0], elem: ref(r.Ops[1], "VECTOR")}
				m.fire("module.type-table")
				if r.Ops[0] == 0 {
					m.find("module.type-table", "type %d: vector of 0 elements", idx)
				}
			}
		case 13, 14, 15:
			t = &typ{kind: tOtherFP, width: r.Code}
		case 16:
			t = &typ{kind: tMetadata}
		case 17:
			t = &typ{kind: tMMX}
		case 18, 20:
			if !short(r, 1, "STRUCT") {
				t = &typ{kind: tStruct, packed: r.Ops[0] != 0}
				for _, p := range r.Ops[1:] {
					t.fields = append(t.fields, ref(p, "STRUCT"))
				}
				if r.Code == 20 {
					t.named = true
					t.name = pendingName
					pendingName = ""
				}
			}
		default:
			m.fire("module.type-table")
			m.find("module.type-table", "type %d: unknown TYPE record code %d", idx, r.Code)
		}
		if t == nil {
			t = &typ{kind: tOpaque}
		}
		m.types[idx] = t
		idx++
	}
	for i := range m.types {
		if m.types[i] == nil {
			m.types[i] = &typ{kind: tOpaque}
		}
	}
	// only named structs may be forward referenced
	for id, from := range forward {
		m.fire("module.type-ref")
		t := m.types[id]
		if !(t.kind == tStruct && t.named) {
			m.find("module.type-ref", "type %d refers forward to type %d (%s); only named structs may be forward referenced", from, id, m.tyString(id))
		}
	}
	// a type may contain itself only through a pointer
	state := make([]int, len(m.types))
	var visit func(i int) bool
	visit = func(i int) bool {
		if i < 0 || i >= len(m.types) {
			return false
		}
		if state[i] == 1 {
			return true
		}
		if state[i] == 2 {
			return false
		}
		state[i] = 1
		t := m.types[i]
		cyc := false
		switch t.kind {
		case tArray, tVector:
			cyc = visit(t.elem)
		case tStruct:
			for _, f := range t.fields {
				if visit(f) {
					cyc = true
					break
				}
			}
		}
		state[i] = 2
		return cyc
	}
	for i := range m.types {
		m.fire("module.type-table")
		if state[i] == 0 && visit(i) {
			m.find("module.type-table", "type %d (%s) contains itself by value (recursion is only legal through pointers)", i, m.tyString(i))
		}
	}
	// element type validity (LLVM isValidElementType rules)
	for i, t := range m.types {
		bad := func(e int, why string) {
			m.fire("module.type-table")
			m.find("module.type-table", "type %d (%s): %s %s", i, m.tyString(i), why, m.tyString(e))
		}
		chk := func(e int, deny ...tyKind) {
			m.fire("module.type-table")
			et := m.ty(e)
			if et == nil {
				return
			}
			for _, k := range deny {
				if et.kind == k {
					bad(e, "invalid element/operand type")
				}
			}
		}
		switch t.kind {
		case tPointer:
			chk(t.elem, tVoid, tLabel, tMetadata)
		case tArray:
			chk(t.elem, tVoid, tLabel, tMetadata, tFunction)
		case tVector:
			m.fire("module.type-table")
			if et := m.ty(t.elem); et != nil {
				switch et.kind {
				case tInt, tHalf, tFloat, tDouble, tOtherFP, tPointer:
				default:
					bad(t.elem, "invalid vector element type")
				}
			}
		case tStruct:
			for _, f := range t.fields {
				chk(f, tVoid, tLabel, tMetadata, tFunction)
			}
		case tFunction:
			chk(t.elem, tLabel, tMetadata, tFunction)
			for _, f := range t.fields {
				chk(f, tVoid, tFunction)
			}
		}
	}
}

// ---- globals ----

func (m *moduleChecker) globalVar(r *bsRecord) {
	m.fire("module.global")
	v := value{kind: vkGlobalVar, ty: -1}
	defer func() { m.values = append(m.values, v) }()
	if len(r.Ops) < 6 {
		m.find("module.global", "GLOBALVAR record with %d operands (<6)", len(r.Ops))
		return
	}
	m.fire("module.type-ref")
	if !m.typeInRange(r.Ops[0]) {
		m.find("module.type-ref", "GLOBALVAR value #%d: type id %d out of range (%d types)", len(m.values), r.Ops[0], m.numDeclared)
		return
	}
	tid := int(r.Ops[0])
	if r.Ops[1]&2 != 0 { // explicit value type
		v.ty = m.ptrTo(tid, r.Ops[1]>>2)
	} else {
		if m.types[tid].kind != tPointer {
			m.find("module.global", "GLOBALVAR value #%d: type %s is not a pointer and the explicit-type bit is clear", len(m.values), m.tyString(tid))
			return
		}
		v.ty = tid
	}
	if r.Ops[4] > 30 {
		m.find("module.global", "GLOBALVAR value #%d: alignment field %d exceeds the maximum exponent", len(m.values), r.Ops[4])
	}
	if len(r.Ops) > 11 && r.Ops[11] > uint64(m.comdats) {
		m.find("module.global", "GLOBALVAR value #%d: comdat index %d but only %d COMDAT records", len(m.values), r.Ops[11], m.comdats)
	}
	if r.Ops[5] != 0 && r.Ops[5]-1 >= uint64(m.sections) {
		m.find("module.global", "GLOBALVAR value #%d: section index %d but only %d SECTIONNAME records", len(m.values), r.Ops[5], m.sections)
	}
}

func (m *moduleChecker) checkGlobalInits() {
	vi := 0
	for _, it := range m.mod.Items {
		if it.Rec == nil {
			continue
		}
		r := it.Rec
		switch r.Code {
		case 7:
			if len(r.Ops) >= 3 && r.Ops[2] != 0 {
				m.fire("module.global")
				id := r.Ops[2] - 1
				if id >= uint64(len(m.values)) {
					m.find("module.global", "GLOBALVAR value #%d: initializer value id %d out of range (%d module-level values)", vi, id, len(m.values))
				} else if vt := m.ty(m.values[vi].ty); vt != nil && vt.kind == tPointer && m.values[id].ty >= 0 {
					if !m.sameType(vt.elem, m.values[id].ty) {
						m.find("module.global", "GLOBALVAR value #%d of type %s: initializer #%d has type %s", vi, m.tyString(m.values[vi].ty), id, m.tyString(m.values[id].ty))
					}
				}
			}
			vi++
		case 8, 9, 14:
			vi++
		}
	}
}

func (m *moduleChecker) functionDecl(r *bsRecord) {
	m.fire("module.function-decl")
	v := value{kind: vkFunction, ty: -1}
	fd := &funcDecl{valueID: len(m.values), fty: -1, isProto: true, rec: r}
	v.fn = fd
	defer func() {
		m.values = append(m.values, v)
		m.funcs = append(m.funcs, fd)
	}()
	if len(r.Ops) < 8 {
		m.find("module.function-decl", "FUNCTION record with %d operands (<8)", len(r.Ops))
		return
	}
	fd.isProto = r.Ops[2] != 0
	m.fire("module.type-ref")
	if !m.typeInRange(r.Ops[0]) {
		m.find("module.type-ref", "FUNCTION value #%d: type id %d out of range (%d types)", fd.valueID, r.Ops[0], m.numDeclared)
		return
	}
	tid := int(r.Ops[0])
	t := m.types[tid]
	if t.kind == tPointer {
		tid = t.elem
		t = m.ty(tid)
	}
	if t == nil || t.kind != tFunction {
		m.find("module.function-decl", "FUNCTION value #%d: type %s is neither a function type nor a pointer to one", fd.valueID, m.tyString(int(r.Ops[0])))
		return
	}
	fd.fty = tid
	v.ty = m.ptrTo(tid, 0)
	if fd.isProto {
		switch r.Ops[3] {
		case 1, 2, 3, 4, 8, 9, 10, 11, 12, 13, 14, 16, 17, 18, 19:
			m.find("module.function-decl", "FUNCTION value #%d is a declaration (isproto=1) with linkage code %d; declarations must have external or extern_weak linkage", fd.valueID, r.Ops[3])
		}
	}
	m.fire("module.paramattr")
	if r.Ops[4] > uint64(m.numAttrs) {
		m.find("module.paramattr", "FUNCTION value #%d: paramattr index %d but the PARAMATTR block has %d entries", fd.valueID, r.Ops[4], m.numAttrs)
	}
	if r.Ops[5] > 30 {
		m.find("module.function-decl", "FUNCTION value #%d: alignment field %d exceeds the maximum exponent", fd.valueID, r.Ops[5])
	}
	if r.Ops[6] != 0 && r.Ops[6]-1 >= uint64(m.sections) {
		m.find("module.function-decl", "FUNCTION value #%d: section index %d but only %d SECTIONNAME records", fd.valueID, r.Ops[6], m.sections)
	}
	if r.Ops[3] == 2 {
		m.find("module.function-decl", "FUNCTION value #%d has appending linkage (only global variables may)", fd.valueID)
	}
	if len(r.Ops) > 12 && r.Ops[12] > uint64(m.comdats) {
		m.find("module.function-decl", "FUNCTION value #%d: comdat index %d but only %d COMDAT records", fd.valueID, r.Ops[12], m.comdats)
	}
	if len(r.Ops) > 8 && r.Ops[8] != 0 && r.Ops[8]-1 >= uint64(m.gcs) {
		m.find("module.function-decl", "FUNCTION value #%d: gc index %d but only %d GCNAME records", fd.valueID, r.Ops[8], m.gcs)
	}
}

// ---- constants ----

func decodeSignRotated(v uint64) int64 {
	if v&1 == 0 {
		return int64(v >> 1)
	}
	if v != 1 {
		return -int64(v >> 1)
	}
	return -1 << 63
}

// parseConstants appends the block's values to vals and returns the new list.
func (m *moduleChecker) parseConstants(b *bsBlock, vals []value, where string) []value {
	cur := -1 // current type; LLVM starts with i32 but a SETTYPE always comes first in practice
	haveType := false
	for _, r := range b.records() {
		if r.Code == 1 { // SETTYPE
			m.fire("module.type-ref")
			if len(r.Ops) < 1 || !m.typeInRange(r.Ops[0]) {
				m.find("module.type-ref", "%s CONSTANTS: SETTYPE %v out of range (%d types)", where, r.Ops, m.numDeclared)
				cur = -1
			} else {
				cur = int(r.Ops[0])
				m.fire("module.constants")
				switch m.types[cur].kind {
				case tVoid, tLabel, tMetadata, tFunction:
					m.find("module.constants", "%s CONSTANTS: SETTYPE to %s, which no constant can have", where, m.tyString(cur))
				}
			}
			haveType = true
			continue
		}
		id := len(vals)
		ci := &constInfo{code: r.Code, bitpos: r.BitPos}
		ct := m.ty(cur)
		m.fire("module.constants")
		if !haveType {
			// LLVM's implicit initial type is i32.
			cur = m.findOrMake(typ{kind: tInt, width: 32})
			ct = m.ty(cur)
			haveType = true
		}
		bad := func(f string, a ...any) {
			m.find("module.constants", "%s CONSTANTS value #%d (code %d, type %s): %s", where, id, r.Code, m.tyString(cur), fmt.Sprintf(f, a...))
		}
		need := func(n int) bool {
			if len(r.Ops) < n {
				bad("record has %d operands (<%d)", len(r.Ops), n)
				return false
			}
			return true
		}
		tyref := func(op uint64) {
			m.fire("module.type-ref")
			if !m.typeInRange(op) {
				m.find("module.type-ref", "%s CONSTANTS value #%d (code %d): type id %d out of range (%d types)", where, id, r.Code, op, m.numDeclared)
			}
		}
		switch r.Code {
		case 2, 3: // NULL, UNDEF
		case 4: // INTEGER
			if need(1) {
				if ct != nil && ct.kind != tInt {
					bad("CST_CODE_INTEGER with a non-integer current type")
				} else {
					ci.isInt = true
					ci.ival = decodeSignRotated(r.Ops[0])
					if ct != nil && ct.width < 63 {
						// the value must be representable in the type's width (as signed or unsigned)
						w := ct.width
						lo, hi := -(int64(1) << (w - 1)), int64(1)<<w-1
						m.fire("module.const-range")
						if ci.ival < lo || ci.ival > hi {
							m.find("module.const-range", "%s CONSTANTS value #%d: integer value %d does not fit the current type i%d (a reader truncates it silently)", where, id, ci.ival, w)
						}
					}
				}
			}
		case 5: // WIDE_INTEGER
			if need(1) && ct != nil && ct.kind != tInt {
				bad("CST_CODE_WIDE_INTEGER with a non-integer current type")
			}
		case 6: // FLOAT
			if need(1) && ct != nil {
				switch ct.kind {
				case tHalf:
					if r.Ops[0] > 0xFFFF {
						bad("half constant bits %#x exceed 16 bits", r.Ops[0])
					}
				case tFloat:
					if r.Ops[0] > 0xFFFFFFFF {
						bad("float constant bits %#x exceed 32 bits", r.Ops[0])
					}
				case tDouble, tOtherFP:
				default:
					bad("CST_CODE_FLOAT with a non-floating-point current type")
				}
			}
		case 7: // AGGREGATE
			if need(1) && ct != nil {
				ci.elems = append(ci.elems, r.Ops...)
				ci.refs = append(ci.refs, r.Ops...)
				switch ct.kind {
				case tStruct:
					if len(r.Ops) != len(ct.fields) {
						bad("aggregate has %d elements, struct type has %d fields", len(r.Ops), len(ct.fields))
					}
				case tArray, tVector:
					if uint64(len(r.Ops)) != ct.n {
						bad("aggregate has %d elements, type has %d", len(r.Ops), ct.n)
					}
				default:
					bad("CST_CODE_AGGREGATE with a non-aggregate current type")
				}
			}
		case 8, 9: // STRING, CSTRING
			if need(1) && ct != nil {
				n := uint64(len(r.Ops))
				if r.Code == 9 {
					n++
				}
				et := m.ty(ct.elem)
				if ct.kind != tArray || et == nil || et.kind != tInt || et.width != 8 || ct.n != n {
					bad("string of %d bytes with current type %s", n, m.tyString(cur))
				}
			}
		case 22: // DATA
			if need(1) && ct != nil {
				if (ct.kind != tArray && ct.kind != tVector) || ct.n != uint64(len(r.Ops)) {
					bad("CST_CODE_DATA with %d elements for type %s", len(r.Ops), m.tyString(cur))
				}
			}
		case 10: // CE_BINOP [opcode, lhs, rhs]
			if need(3) {
				ci.refs = append(ci.refs, r.Ops[1], r.Ops[2])
			}
		case 11: // CE_CAST [opcode, opty, opval]
			if need(3) {
				tyref(r.Ops[1])
				ci.refs = append(ci.refs, r.Ops[2])
				if r.Ops[0] > 12 {
					bad("cast opcode %d unknown", r.Ops[0])
				}
			}
		case 12, 20: // CE_GEP / CE_INBOUNDS_GEP [(pointee ty,) n x (ty, val)]
			ops := r.Ops
			if len(ops)%2 == 1 {
				tyref(ops[0])
				ops = ops[1:]
			}
			if len(ops) < 2 {
				bad("constant GEP without base operand")
			}
			for i := 0; i+1 < len(ops); i += 2 {
				tyref(ops[i])
				ci.refs = append(ci.refs, ops[i+1])
			}
		case 13: // CE_SELECT
			if need(3) {
				ci.refs = append(ci.refs, r.Ops[0], r.Ops[1], r.Ops[2])
			}
		case 14: // CE_EXTRACTELT [opty, opval, (idxty,) idx]
			if need(3) {
				tyref(r.Ops[0])
				ci.refs = append(ci.refs, r.Ops[1])
				if len(r.Ops) == 4 {
					tyref(r.Ops[2])
					ci.refs = append(ci.refs, r.Ops[3])
				} else {
					ci.refs = append(ci.refs, r.Ops[2])
				}
			}
		case 15: // CE_INSERTELT [vec, elt, (idxty,) idx]
			if need(3) {
				ci.refs = append(ci.refs, r.Ops[0], r.Ops[1])
				if len(r.Ops) == 4 {
					tyref(r.Ops[2])
					ci.refs = append(ci.refs, r.Ops[3])
				} else {
					ci.refs = append(ci.refs, r.Ops[2])
				}
			}
		case 16: // CE_SHUFFLEVEC
			if need(3) {
				ci.refs = append(ci.refs, r.Ops[0], r.Ops[1], r.Ops[2])
			}
		case 19: // CE_SHUFVEC_EX [opty, v1, v2, mask]
			if need(4) {
				tyref(r.Ops[0])
				ci.refs = append(ci.refs, r.Ops[1], r.Ops[2], r.Ops[3])
			}
		case 17: // CE_CMP [opty, lhs, rhs, pred]
			if need(4) {
				tyref(r.Ops[0])
				ci.refs = append(ci.refs, r.Ops[1], r.Ops[2])
			}
		case 21: // BLOCKADDRESS [fnty, fnval, bb#]
			if need(3) {
				tyref(r.Ops[0])
				ci.refs = append(ci.refs, r.Ops[1])
			}
		case 18, 23: // INLINEASM
			m.rep.unsupported("inline asm constant")
		default:
			bad("unknown CONSTANTS record code")
		}
		vals = append(vals, value{kind: vkConst, ty: cur, cst: ci})
	}
	return vals
}

// checkConstRefs: constant operands are absolute value ids; forward
// references are legal only to ids that exist once the block is complete.
func (m *moduleChecker) checkConstRefs(vals []value, from int, where string) {
	for id := from; id < len(vals); id++ {
		v := vals[id]
		if v.cst == nil {
			continue
		}
		for _, ref := range v.cst.refs {
			m.fire("module.constants")
			if ref >= uint64(len(vals)) {
				m.find("module.constants", "%s CONSTANTS value #%d (code %d): operand value id %d out of range (%d values defined)", where, id, v.cst.code, ref, len(vals))
			} else if ref == uint64(id) {
				m.find("module.constants", "%s CONSTANTS value #%d (code %d) refers to itself", where, id, v.cst.code)
			}
		}
		// aggregate element types
		if v.cst.code == 7 {
			ct := m.ty(v.ty)
			if ct == nil {
				continue
			}
			for k, ref := range v.cst.elems {
				if ref >= uint64(len(vals)) || vals[ref].ty < 0 {
					continue
				}
				want := -1
				switch ct.kind {
				case tStruct:
					if k < len(ct.fields) {
						want = ct.fields[k]
					}
				case tArray, tVector:
					want = ct.elem
				}
				if want >= 0 {
					m.fire("module.constants")
					if !m.sameType(want, vals[ref].ty) {
						m.find("module.constants", "%s CONSTANTS value #%d (%s): element %d is value #%d of type %s, want %s", where, id, m.tyString(v.ty), k, ref, m.tyString(vals[ref].ty), m.tyString(want))
					}
				}
			}
		}
	}
}

// ---- metadata ----

func (m *moduleChecker) parseMetadata(b *bsBlock, numValues uint64, where string) {
	recs := b.records()
	for i := 0; i < len(recs); i++ {
		r := recs[i]
		m.fire("module.metadata")
		switch r.Code {
		case 1: // STRING
			s := make([]byte, len(r.Ops))
			for k, c := range r.Ops {
				s[k] = byte(c)
			}
			m.md = append(m.md, mdEntry{kind: mdString, str: string(s), rec: r})
		case 2: // VALUE [ty, val]
			e := mdEntry{kind: mdValue, valTy: -1, rec: r}
			if len(r.Ops) != 2 {
				m.find("module.metadata", "%s METADATA_VALUE (md #%d) with %d operands (want 2)", where, len(m.md), len(r.Ops))
			} else {
				m.fire("module.type-ref")
				if !m.typeInRange(r.Ops[0]) {
					m.find("module.type-ref", "%s METADATA_VALUE (md #%d): type id %d out of range (%d types)", where, len(m.md), r.Ops[0], m.numDeclared)
				} else {
					e.valTy = int(r.Ops[0])
					if k := m.types[e.valTy].kind; k == tMetadata || k == tVoid {
						m.find("module.metadata", "%s METADATA_VALUE (md #%d): type %s not allowed", where, len(m.md), m.tyString(e.valTy))
					}
				}
				e.valID = r.Ops[1]
				e.ops = []uint64{r.Ops[1]}
			}
			m.md = append(m.md, e)
		case 3, 5: // NODE / DISTINCT_NODE
			m.md = append(m.md, mdEntry{kind: mdNode, ops: append([]uint64(nil), r.Ops...), rec: r})
		case 4: // NAME, must be followed by NAMED_NODE
			s := make([]byte, len(r.Ops))
			for k, c := range r.Ops {
				s[k] = byte(c)
			}
			if i+1 >= len(recs) || recs[i+1].Code != 10 {
				m.find("module.metadata", "%s METADATA_NAME %q is not followed by METADATA_NAMED_NODE", where, s)
				continue
			}
			i++
			m.named = append(m.named, namedMD{name: string(s), ops: append([]uint64(nil), recs[i].Ops...)})
		case 10:
			m.find("module.metadata", "%s METADATA_NAMED_NODE without a preceding METADATA_NAME", where)
		case 6: // KIND [id, name...]
			m.fire("module.metadata-kind")
			if len(r.Ops) < 2 {
				m.find("module.metadata-kind", "METADATA_KIND with %d operands (<2)", len(r.Ops))
				continue
			}
			s := make([]byte, len(r.Ops)-1)
			for k, c := range r.Ops[1:] {
				s[k] = byte(c)
			}
			if old, dup := m.mdKinds[r.Ops[0]]; dup && where == "module" {
				m.find("module.metadata-kind", "METADATA_KIND id %d defined twice (%q, %q)", r.Ops[0], old, s)
			}
			m.mdKinds[r.Ops[0]] = string(s)
		case 7: // LOCATION [distinct, line, col, scope, ia]
			e := mdEntry{kind: mdOther, rec: r}
			if len(r.Ops) != 5 {
				m.find("module.metadata", "%s METADATA_LOCATION with %d operands (want 5)", where, len(r.Ops))
			} else {
				e.kind = mdNode
				e.ops = []uint64{r.Ops[3] + 1, r.Ops[4]}
			}
			m.md = append(m.md, e)
		case 8, 9: // OLD_NODE / OLD_FN_NODE
			if len(r.Ops)%2 != 0 {
				m.find("module.metadata", "%s METADATA_OLD_NODE with odd operand count %d", where, len(r.Ops))
			}
			m.rep.unsupported("METADATA_OLD_NODE")
			m.md = append(m.md, mdEntry{kind: mdOther, rec: r})
		case 11: // ATTACHMENT belongs to METADATA_ATTACHMENT blocks
			m.find("module.metadata", "%s METADATA block contains a METADATA_ATTACHMENT record", where)
		default:
			if r.Code >= 12 && r.Code <= 32 {
				m.rep.unsupported("debug-info metadata record code %d (operands not checked)", r.Code)
				m.md = append(m.md, mdEntry{kind: mdOther, rec: r})
			} else {
				m.rep.unsupported("METADATA record code %d", r.Code)
			}
		}
	}
	_ = numValues
}

func (m *moduleChecker) checkMetadataRefs(from int, where string) {
	total := uint64(len(m.md))
	for id := from; id < len(m.md); id++ {
		e := m.md[id]
		switch e.kind {
		case mdNode:
			for k, op := range e.ops {
				m.fire("module.metadata")
				if op == 0 {
					continue
				}
				if op-1 >= total {
					m.find("module.metadata", "%s metadata node #%d operand %d refers to metadata id %d; only %d are defined", where, id, k, op-1, total)
				}
			}
		case mdValue:
			if len(e.ops) == 1 && where == "module" {
				m.fire("module.metadata")
				if e.valID >= uint64(len(m.values)) {
					m.find("module.metadata", "module METADATA_VALUE #%d refers to value id %d; only %d module-level values exist", id, e.valID, len(m.values))
				} else if vt := m.values[e.valID].ty; vt >= 0 && e.valTy >= 0 && !m.sameType(vt, e.valTy) {
					m.find("module.metadata", "module METADATA_VALUE #%d: declared type %s but value #%d has type %s", id, m.tyString(e.valTy), e.valID, m.tyString(vt))
				}
			}
		}
	}
	if where != "module" {
		return
	}
	for _, n := range m.named {
		for k, op := range n.ops {
			m.fire("module.metadata")
			if op >= total {
				m.find("module.metadata", "named metadata !%s operand %d refers to metadata id %d; only %d are defined", n.name, k, op, total)
			} else if m.md[op].kind != mdNode && m.md[op].kind != mdOther {
				m.find("module.metadata", "named metadata !%s operand %d (md #%d) is not a node", n.name, k, op)
			}
		}
	}
}

// ---- value symbol table ----

func (m *moduleChecker) parseVST(b *bsBlock, numValues, numBlocks int, where, rule string) {
	seen := map[uint64]bool{}
	for _, r := range b.records() {
		m.fire(rule)
		switch r.Code {
		case 1, 3: // ENTRY [valueid, namechar...] / FNENTRY [valueid, offset, namechar...]
			if len(r.Ops) < 1 {
				m.find(rule, "%s VST_ENTRY without value id", where)
				continue
			}
			if r.Ops[0] >= uint64(numValues) {
				m.find(rule, "%s VST_ENTRY names value id %d; only %d values exist", where, r.Ops[0], numValues)
				continue
			}
			if seen[r.Ops[0]] {
				m.find(rule, "%s value symbol table names value id %d twice", where, r.Ops[0])
			}
			seen[r.Ops[0]] = true
			if numBlocks < 0 && r.Code == 1 {
				s := make([]byte, len(r.Ops)-1)
				for k, c := range r.Ops[1:] {
					s[k] = byte(c)
				}
				m.vstNames[int(r.Ops[0])] = string(s)
			}
		case 2: // BBENTRY [bbid, namechar...]
			if len(r.Ops) < 1 {
				m.find(rule, "%s VST_BBENTRY without block id", where)
				continue
			}
			if numBlocks < 0 || r.Ops[0] >= uint64(numBlocks) {
				m.find(rule, "%s VST_BBENTRY names basic block %d; the function declares %d", where, r.Ops[0], numBlocks)
			}
		default:
			m.rep.unsupported("VALUE_SYMTAB record code %d", r.Code)
		}
	}
}
