package dxbc

import (
	"context"
	"fmt"
	"math/rand"
	"os"
	"os/exec"
	"path/filepath"
	"strings"
	"sync"
	"testing"
	"time"

	"github.com/gogpu/naga/dxil"
)

// TestDumpAllBitcode writes every corpus container's bitcode plus this
// checker's bitcode-level findings to DXBC_XCHECK_DIR (development aid for
// cross-checking against llvm-dis / opt -passes=verify).
func TestDumpAllBitcode(t *testing.T) {
	dir := os.Getenv("DXBC_XCHECK_DIR")
	if dir == "" {
		t.Skip()
	}
	compileCorpus(t, func(int, string) bool { return true }, []dxil.ShaderModel{dxil.SM6_0}, []bool{false}, func(c compiled) {
		rep := Check(c.blob, expectFor(c))
		base := filepath.Join(dir, c.shader+"__"+c.entry)
		_ = os.WriteFile(base+".dxbc", c.blob, 0o644)
		for _, p := range rep.Parts {
			if p.FourCC == "DXIL" {
				_ = os.WriteFile(base+".bc", c.blob[p.Offset+8+24:p.Offset+8+p.Size], 0o644)
			}
		}
		var sb strings.Builder
		for _, f := range rep.Findings {
			if strings.HasPrefix(f.Rule, "func.") || strings.HasPrefix(f.Rule, "module.") || strings.HasPrefix(f.Rule, "bitstream.") {
				fmt.Fprintf(&sb, "%s: %s\n", f.Rule, f.Detail)
			}
		}
		_ = os.WriteFile(base+".mine", []byte(sb.String()), 0o644)
	})
}

func bitcodeLevel(rule string) bool {
	if rule == "func.enum" {
		return false // LLVM's reader maps unknown enum encodings to a default
	}
	return strings.HasPrefix(rule, "func.") || strings.HasPrefix(rule, "module.") || strings.HasPrefix(rule, "bitstream.")
}

// TestCrossCheckLLVM compares this checker's bitcode-level verdict with LLVM's
// own reader + verifier (llvm-dis, opt -passes=verify; modern LLVM still reads
// 3.7 bitcode). Skipped when the tools are absent. Both directions must agree.
func TestCrossCheckLLVM(t *testing.T) {
	if os.Getenv("DXBC_XCHECK") == "" {
		t.Skip("set DXBC_XCHECK=1 (takes ~25 s)")
	}
	dis, err1 := exec.LookPath("llvm-dis")
	opt, err2 := exec.LookPath("opt")
	if err1 != nil || err2 != nil {
		t.Skip("llvm-dis / opt not installed")
	}
	dir := t.TempDir()
	type job struct {
		c    compiled
		mine []string
		path string
	}
	var jobs []*job
	compileCorpus(t, func(int, string) bool { return true }, []dxil.ShaderModel{dxil.SM6_0}, []bool{false}, func(c compiled) {
		rep := Check(c.blob, expectFor(c))
		j := &job{c: c, path: filepath.Join(dir, fmt.Sprintf("%d.bc", len(jobs)))}
		for _, p := range rep.Parts {
			if p.FourCC == "DXIL" && p.Size > 24 {
				_ = os.WriteFile(j.path, c.blob[p.Offset+8+24:p.Offset+8+p.Size], 0o644)
			}
		}
		for _, f := range rep.Findings {
			if bitcodeLevel(f.Rule) {
				j.mine = append(j.mine, f.Rule+": "+f.Detail)
			}
		}
		jobs = append(jobs, j)
	})
	llvm := make([]string, len(jobs))
	var wg sync.WaitGroup
	sem := make(chan struct{}, 8)
	for i, j := range jobs {
		wg.Add(1)
		go func(i int, j *job) {
			defer wg.Done()
			sem <- struct{}{}
			defer func() { <-sem }()
			o1, _ := exec.Command(dis, j.path, "-o", os.DevNull).CombinedOutput()
			o2, _ := exec.Command(opt, "-passes=verify", j.path, "-o", os.DevNull).CombinedOutput()
			var keep []string
			for _, ln := range strings.Split(string(o1)+string(o2), "\n") {
				if strings.TrimSpace(ln) == "" || strings.Contains(ln, "unrecognized architecture") {
					continue
				}
				keep = append(keep, ln)
			}
			llvm[i] = strings.Join(keep, " | ")
		}(i, j)
	}
	wg.Wait()
	both, onlyLLVM, onlyMine := 0, 0, 0
	for i, j := range jobs {
		switch {
		case llvm[i] != "" && len(j.mine) > 0:
			both++
		case llvm[i] != "":
			onlyLLVM++
			t.Errorf("%s:%s: LLVM rejects (%s) but the checker has no bitcode-level finding", j.c.shader, j.c.entry, llvm[i])
		case len(j.mine) > 0:
			onlyMine++
			t.Errorf("%s:%s: checker reports %d bitcode-level findings (first: %s) but LLVM accepts the module", j.c.shader, j.c.entry, len(j.mine), j.mine[0])
		}
	}
	t.Logf("%d modules: %d rejected by both, %d only LLVM, %d only checker", len(jobs), both, onlyLLVM, onlyMine)
}

// TestFuzzVsLLVM (DXBC_FUZZ=n): mutate single record operands of good modules
// and compare this checker's bitcode-level verdict with LLVM's reader+verifier.
func TestFuzzVsLLVM(t *testing.T) {
	if os.Getenv("DXBC_FUZZ") == "" {
		t.Skip("set DXBC_FUZZ=<mutants per shader>")
	}
	n := 200
	fmt.Sscanf(os.Getenv("DXBC_FUZZ"), "%d", &n)
	dis, err1 := exec.LookPath("llvm-dis")
	opt, err2 := exec.LookPath("opt")
	if err1 != nil || err2 != nil {
		t.Skip("llvm-dis / opt not installed")
	}
	dir := t.TempDir()
	if d := os.Getenv("DXBC_FUZZ_DIR"); d != "" {
		dir = d
	}
	srcs := []string{baseWGSL}
	if extra := os.Getenv("DXBC_FUZZ_WGSL"); extra != "" {
		b, err := os.ReadFile(extra)
		if err != nil {
			t.Fatal(err)
		}
		srcs = []string{string(b)}
	}
	rng := rand.New(rand.NewSource(1))
	type job struct {
		desc string
		mine []string
		path string
		llvm string
	}
	var jobs []*job
	for si, src := range srcs {
		epi := 0
		fmt.Sscanf(os.Getenv("DXBC_FUZZ_EP"), "%d", &epi)
		b, _ := compileWGSL(t, src, epi, dxil.DefaultOptions())
		bc := getBitcode(b)
		for _, f0 := range Check(b, Expect{}).Findings {
			if f0.Rule != "func.enum" {
				t.Fatalf("base shader not clean: %s: %s", f0.Rule, f0.Detail)
			}
		}
		for k := 0; k < n; k++ {
			top := parseTree(bc)
			mod := moduleOf(top)
			// collect candidate records
			type cand struct {
				blk *bsBlock
				rec *bsRecord
			}
			var cands []cand
			var walk func(bl *bsBlock)
			walk = func(bl *bsBlock) {
				for _, it := range bl.Items {
					if it.Blk != nil {
						if it.Blk.ID != blkBlockInfo && it.Blk.ID != blkParamAttr && it.Blk.ID != blkParamAttrGroup {
							walk(it.Blk)
						}
						continue
					}
					if len(it.Rec.Ops) > 0 && !(bl.ID == blkModule && it.Rec.Code < 7) && !(bl.ID == blkMetadata && (it.Rec.Code == 1 || it.Rec.Code == 4 || it.Rec.Code == 6)) && bl.ID != blkValueSymtab {
						cands = append(cands, cand{bl, it.Rec})
					}
				}
			}
			walk(mod)
			c := cands[rng.Intn(len(cands))]
			oi := rng.Intn(len(c.rec.Ops))
			old := c.rec.Ops[oi]
			var nv uint64
			switch rng.Intn(6) {
			case 0:
				nv = old + 1
			case 1:
				nv = old - 1
			case 2:
				nv = uint64(rng.Intn(60))
			case 3:
				nv = old + uint64(rng.Intn(40))
			case 4:
				nv = uint64(uint32(-int32(rng.Intn(30))))
			default:
				nv = old ^ 1
			}
			if nv == old {
				continue
			}
			c.rec.Ops[oi] = nv
			desc := fmt.Sprintf("src%d block %d code %d op%d: %d -> %d (ops now %v)", si, c.blk.ID, c.rec.Code, oi, old, nv, clip(c.rec.Ops))
			nb := withBitcode(b, writeBitcode(top))
			rep := Check(nb, Expect{})
			j := &job{desc: desc, path: filepath.Join(dir, fmt.Sprintf("%d.bc", len(jobs)))}
			_ = os.WriteFile(j.path, getBitcode(nb), 0o644)
			for _, f := range rep.Findings {
				if bitcodeLevel(f.Rule) {
					j.mine = append(j.mine, f.Rule+": "+f.Detail)
				}
			}
			jobs = append(jobs, j)
		}
	}
	var wg sync.WaitGroup
	sem := make(chan struct{}, 6)
	for _, j := range jobs {
		wg.Add(1)
		go func(j *job) {
			defer wg.Done()
			sem <- struct{}{}
			defer func() { <-sem }()
			ctx, cancel := context.WithTimeout(context.Background(), 120*time.Second)
			defer cancel()
			o1, e1 := exec.CommandContext(ctx, "/bin/sh", "-c", "ulimit -v 4000000; exec "+dis+" "+j.path+" -o /dev/null").CombinedOutput()
			o2, e2 := exec.CommandContext(ctx, "/bin/sh", "-c", "ulimit -v 4000000; exec "+opt+" -passes=verify "+j.path+" -o /dev/null").CombinedOutput()
			var keep []string
			if ctx.Err() != nil {
				keep = append(keep, "TIMEOUT")
			} else if (e1 != nil && len(o1) == 0) || (e2 != nil && len(o2) == 0) {
				keep = append(keep, fmt.Sprintf("tool failed: %v %v", e1, e2))
			}
			for _, ln := range strings.Split(string(o1)+string(o2), "\n") {
				if strings.TrimSpace(ln) == "" || strings.Contains(ln, "unrecognized architecture") {
					continue
				}
				keep = append(keep, ln)
			}
			if len(keep) > 3 {
				keep = keep[:3]
			}
			j.llvm = strings.Join(keep, " | ")
		}(j)
	}
	wg.Wait()
	both, none, onlyL, onlyM := 0, 0, 0, 0
	for _, j := range jobs {
		switch {
		case j.llvm != "" && len(j.mine) > 0:
			both++
		case j.llvm != "":
			onlyL++
			t.Logf("ONLY-LLVM %s\n     llvm: %s", j.desc, j.llvm)
		case len(j.mine) > 0:
			onlyM++
			t.Logf("ONLY-MINE %s\n     mine: %s", j.desc, j.mine[0])
		default:
			none++
		}
	}
	t.Logf("%d mutants: both reject %d, both accept %d, only LLVM %d, only checker %d", len(jobs), both, none, onlyL, onlyM)
}
