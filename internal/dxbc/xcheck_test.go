package dxbc

import (
	"fmt"
	"os"
	"os/exec"
	"path/filepath"
	"strings"
	"sync"
	"testing"

	"github.com/gogpu/naga/dxil"
)

// TestDumpAllBitcode writes every corpus container's bitcode plus this
// checker's bitcode-level findings to DXBC_XCHECK_DIR (development aid for
// cross-checking against llvm-dis / opt -passes=verify).
func TestDumpAllBitcode(t *testing.T) {
	dir := os.Getenv("DXBC_XCHECK_DIR")
	if dir == "" {
		t.Skip()
	}
	compileCorpus(t, func(int, string) bool { return true }, []dxil.ShaderModel{dxil.SM6_0}, []bool{false}, func(c compiled) {
		rep := Check(c.blob, expectFor(c))
		base := filepath.Join(dir, c.shader+"__"+c.entry)
		_ = os.WriteFile(base+".dxbc", c.blob, 0o644)
		for _, p := range rep.Parts {
			if p.FourCC == "DXIL" {
				_ = os.WriteFile(base+".bc", c.blob[p.Offset+8+24:p.Offset+8+p.Size], 0o644)
			}
		}
		var sb strings.Builder
		for _, f := range rep.Findings {
			if strings.HasPrefix(f.Rule, "func.") || strings.HasPrefix(f.Rule, "module.") || strings.HasPrefix(f.Rule, "bitstream.") {
				fmt.Fprintf(&sb, "%s: %s\n", f.Rule, f.Detail)
			}
		}
		_ = os.WriteFile(base+".mine", []byte(sb.String()), 0o644)
	})
}

func bitcodeLevel(rule string) bool {
	if rule == "func.enum" {
		return false // LLVM's reader maps unknown enum encodings to a default
	}
	return strings.HasPrefix(rule, "func.") || strings.HasPrefix(rule, "module.") || strings.HasPrefix(rule, "bitstream.")
}

// TestCrossCheckLLVM compares this checker's bitcode-level verdict with LLVM's
// own reader + verifier (llvm-dis, opt -passes=verify; modern LLVM still reads
// 3.7 bitcode). Skipped when the tools are absent. Both directions must agree.
func TestCrossCheckLLVM(t *testing.T) {
	dis, err1 := exec.LookPath("llvm-dis")
	opt, err2 := exec.LookPath("opt")
	if err1 != nil || err2 != nil {
		t.Skip("llvm-dis / opt not installed")
	}
	dir := t.TempDir()
	type job struct {
		c    compiled
		mine []string
		path string
	}
	var jobs []*job
	compileCorpus(t, func(int, string) bool { return true }, []dxil.ShaderModel{dxil.SM6_0}, []bool{false}, func(c compiled) {
		rep := Check(c.blob, expectFor(c))
		j := &job{c: c, path: filepath.Join(dir, fmt.Sprintf("%d.bc", len(jobs)))}
		for _, p := range rep.Parts {
			if p.FourCC == "DXIL" && p.Size > 24 {
				_ = os.WriteFile(j.path, c.blob[p.Offset+8+24:p.Offset+8+p.Size], 0o644)
			}
		}
		for _, f := range rep.Findings {
			if bitcodeLevel(f.Rule) {
				j.mine = append(j.mine, f.Rule+": "+f.Detail)
			}
		}
		jobs = append(jobs, j)
	})
	llvm := make([]string, len(jobs))
	var wg sync.WaitGroup
	sem := make(chan struct{}, 8)
	for i, j := range jobs {
		wg.Add(1)
		go func(i int, j *job) {
			defer wg.Done()
			sem <- struct{}{}
			defer func() { <-sem }()
			o1, _ := exec.Command(dis, j.path, "-o", os.DevNull).CombinedOutput()
			o2, _ := exec.Command(opt, "-passes=verify", j.path, "-o", os.DevNull).CombinedOutput()
			var keep []string
			for _, ln := range strings.Split(string(o1)+string(o2), "\n") {
				if strings.TrimSpace(ln) == "" || strings.Contains(ln, "unrecognized architecture") {
					continue
				}
				keep = append(keep, ln)
			}
			llvm[i] = strings.Join(keep, " | ")
		}(i, j)
	}
	wg.Wait()
	both, onlyLLVM, onlyMine := 0, 0, 0
	for i, j := range jobs {
		switch {
		case llvm[i] != "" && len(j.mine) > 0:
			both++
		case llvm[i] != "":
			onlyLLVM++
			t.Errorf("%s:%s: LLVM rejects (%s) but the checker has no bitcode-level finding", j.c.shader, j.c.entry, llvm[i])
		case len(j.mine) > 0:
			onlyMine++
			t.Errorf("%s:%s: checker reports %d bitcode-level findings (first: %s) but LLVM accepts the module", j.c.shader, j.c.entry, len(j.mine), j.mine[0])
		}
	}
	t.Logf("%d modules: %d rejected by both, %d only LLVM, %d only checker", len(jobs), both, onlyLLVM, onlyMine)
}
