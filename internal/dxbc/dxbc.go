// Package dxbc is an independent reader/checker for DXBC containers that carry
// DXIL (LLVM 3.7 bitcode). It is written from the format definitions
// (DxilContainer.h / DxilPipelineStateValidation.h of DirectXShaderCompiler,
// the LLVM 3.7 bitstream and bitcode documentation), not from any writer.
package dxbc

import (
	"encoding/binary"
	"fmt"
	"sort"
)

// Finding is one violated rule.
type Finding struct{ Rule, Detail string }

// Expect describes what the caller asked the compiler for.
type Expect struct {
	Stage            string // "compute","vertex","fragment" ("" = don't check)
	SMMajor, SMMinor int    // requested; 0 major = don't check
	AllowSMUpgrade   bool
	BypassHash       bool // true: digest must equal the BYPASS sentinel; false: digest must verify
	NumThreads       *[3]uint32
}

// PartInfo describes one container part.
type PartInfo struct {
	FourCC string
	Offset int // of the part header
	Size   int // of the part data (header excluded)
}

// BitcodeSummary is the census of the DXIL part's bitstream.
type BitcodeSummary struct {
	Blocks         map[uint32]int // block id -> count
	Records        int
	AbbrevRecords  int
	AbbrevsDefined int
	AbbrevsUsed    map[string]int // "blockid/abbrevid" -> uses
	Types          int
	GlobalValues   int // global variables + functions + aliases
	ModuleValues   int // global values + module-level constants
	Functions      int // FUNCTION records
	FunctionBodies int
	MetadataNodes  int // module-level metadata ids
	NamedMetadata  []string
	PerFunction    []FunctionSummary
}

// FunctionSummary is per function body.
type FunctionSummary struct {
	Name         string
	Blocks       int
	Instructions int
	Values       int // arguments + local constants + value-producing instructions
	ForwardRefs  int
}

// SigElement is one decoded ISG1/OSG1/PSG1 element.
type SigElement struct {
	Name          string
	Index         uint32
	Stream        uint32
	SystemValue   uint32
	CompType      uint32
	Register      uint32
	Mask          uint8
	RWMask        uint8
	MinPrecision  uint32
	NameOffsetRaw uint32
}

// Signatures holds the decoded signature parts (nil slice = part absent).
type Signatures struct {
	HasInput, HasOutput, HasPatch bool
	Input, Output, Patch          []SigElement
}

// PSVResource is one PSV0 resource binding.
type PSVResource struct {
	Type, Space, Lower, Upper uint32
	Kind, Flags               uint32 // bind-info v1 only
}

// PSVSigElement is one PSV0 signature element record.
type PSVSigElement struct {
	Name                       string
	Indexes                    []uint32
	Rows, StartRow, Cols       uint8
	StartCol                   uint8
	Allocated                  bool
	SemanticKind, ComponentTyp uint8
	InterpMode                 uint8
	DynMask, Stream            uint8
}

// PSVInfo is the decoded PSV0 part.
type PSVInfo struct {
	Present       bool
	Complete      bool // the whole part decoded consistently; cross-checks with metadata only run when set
	InfoSize      uint32
	Version       int // 0..3 as implied by InfoSize
	Stage         int // PSVShaderKind byte (-1 when version 0)
	UsesViewID    bool
	MinWave       uint32
	MaxWave       uint32
	SigIn         int
	SigOut        int
	SigPatch      int
	SigInVectors  uint8
	SigOutVectors [4]uint8
	HasNumThreads bool
	NumThreads    [3]uint32
	EntryName     string
	BindInfoSize  uint32
	Resources     []PSVResource
	InputElems    []PSVSigElement
	OutputElems   []PSVSigElement
	PatchElems    []PSVSigElement
}

// ResourceMD is one record of the dx.resources metadata.
type ResourceMD struct {
	Class      string // "srv","uav","cbuffer","sampler"
	ID         uint32
	Name       string
	Space      uint32
	LowerBound uint32
	RangeSize  uint32
}

// Report is the result of Check.
type Report struct {
	Findings             []Finding
	Fired                map[string]int
	Parts                []PartInfo
	Stage                string
	SMMajor              int
	SMMinor              int
	DxilMajor, DxilMinor int
	Bitcode              *BitcodeSummary
	Signature            Signatures
	PSV                  PSVInfo
	Resources            []ResourceMD
	FeatureInfo          uint64
	EntryName            string
	// Unsupported lists constructs the checker met but does not model; no
	// finding is raised for them (soundness first).
	Unsupported []string
}

func (r *Report) add(rule, detail string) {
	if len(r.Findings) < 200 {
		r.Findings = append(r.Findings, Finding{rule, detail})
	}
}

func (r *Report) addf(rule, f string, a ...any) { r.add(rule, fmt.Sprintf(f, a...)) }

func (r *Report) fire(rule string) { r.Fired[rule]++ }

func (r *Report) unsupported(f string, a ...any) {
	s := fmt.Sprintf(f, a...)
	for _, u := range r.Unsupported {
		if u == s {
			return
		}
	}
	if len(r.Unsupported) < 50 {
		r.Unsupported = append(r.Unsupported, s)
	}
}

var allRules = []string{
	"container.magic", "container.version", "container.size", "container.part-table",
	"container.part-order", "container.part-bounds", "container.part-contiguous", "container.part-align",
	"container.fourcc", "container.part-unique", "container.dxil-unique", "container.required-parts",
	"digest.container", "digest.hash-part",
	"program.header", "program.kind", "program.sm", "program.size-words", "program.magic",
	"program.dxil-version", "program.bitcode-offset", "program.bitcode-size",
	"bitstream.magic", "bitstream.abbrev-width", "bitstream.block-length", "bitstream.end-block",
	"bitstream.define-abbrev", "bitstream.abbrev-id", "bitstream.blockinfo", "bitstream.eof",
	"bitstream.trailing", "bitstream.nesting", "bitstream.record",
	"module.version", "module.type-table", "module.type-ref", "module.global", "module.function-decl",
	"module.paramattr", "module.constants", "module.const-range", "module.metadata", "module.metadata-kind", "module.vst",
	"module.function-count",
	"func.declareblocks", "func.record", "func.operand", "func.type-ref", "func.block-ref",
	"func.terminators", "func.type-check", "func.ssa", "func.enum", "func.vst", "func.md-attachment",
	"dxmeta.named", "dxmeta.shader-model", "dxmeta.entry", "dxmeta.resources", "dxmeta.resource-overlap", "dxmeta.numthreads", "dxmeta.signature",
	"sig.header", "sig.element", "sig.name", "sig.mask", "sig.duplicate",
	"psv.info-size", "psv.layout", "psv.stage", "psv.resources", "psv.string-table",
	"psv.sig-elements", "psv.sig-count", "psv.numthreads",
	"sfi0.size", "stat.program",
	"internal.panic",
}

// Rules returns the stable rule ids.
func Rules() []string {
	out := append([]string(nil), allRules...)
	sort.Strings(out)
	return out
}

var knownFourCC = map[string]bool{
	"RDEF": true, "ISG1": true, "OSG1": true, "PSG1": true, "STAT": true, "ILDB": true, "ILDN": true,
	"SFI0": true, "PRIV": true, "RTS0": true, "DXIL": true, "PSV0": true, "RDAT": true, "HASH": true,
	"SRCI": true, "PDBI": true, "VERS": true,
	// legacy DXBC (pre-DXIL) parts a container may legally carry
	"ISGN": true, "OSGN": true, "PCSG": true, "SHDR": true, "SHEX": true, "OSG5": true, "SDBG": true, "SPDB": true,
}

var kindNames = map[int]string{0: "fragment", 1: "vertex", 2: "geometry", 3: "hull", 4: "domain", 5: "compute", 6: "library",
	7: "raygeneration", 8: "intersection", 9: "anyhit", 10: "closesthit", 11: "miss", 12: "callable", 13: "mesh", 14: "amplification", 15: "node"}

// Check examines one container. It never panics.
func Check(b []byte, e Expect) (rep *Report) {
	rep = &Report{Fired: map[string]int{}}
	defer func() {
		if x := recover(); x != nil {
			rep.fire("internal.panic")
			rep.add("internal.panic", fmt.Sprintf("checker panicked: %v", x))
		}
	}()
	parts := checkContainer(rep, b)
	checkDigest(rep, b, e)
	if parts == nil {
		return rep
	}
	c := &checker{rep: rep, e: e, data: b, parts: parts}
	c.run()
	return rep
}

type rawPart struct {
	fourCC string
	off    int // header offset
	data   []byte
}

func le32(b []byte, off int) uint32 { return binary.LittleEndian.Uint32(b[off:]) }

func checkContainer(rep *Report, b []byte) []rawPart {
	rep.fire("container.magic")
	if len(b) < 32 {
		rep.addf("container.magic", "container is %d bytes, shorter than the 32-byte header", len(b))
		return nil
	}
	if string(b[0:4]) != "DXBC" {
		rep.addf("container.magic", "magic is %q, want \"DXBC\"", b[0:4])
		return nil
	}
	rep.fire("container.version")
	maj, min := binary.LittleEndian.Uint16(b[20:]), binary.LittleEndian.Uint16(b[22:])
	if maj != 1 || min != 0 {
		rep.addf("container.version", "container version %d.%d, want 1.0", maj, min)
	}
	rep.fire("container.size")
	total := le32(b, 24)
	if uint64(total) != uint64(len(b)) {
		rep.addf("container.size", "ContainerSizeInBytes=%d but the buffer has %d bytes", total, len(b))
	}
	n := le32(b, 28)
	rep.fire("container.part-table")
	if uint64(32)+4*uint64(n) > uint64(len(b)) {
		rep.addf("container.part-table", "part count %d: offset table (32+4*%d) exceeds the %d-byte file", n, n, len(b))
		return nil
	}
	tableEnd := 32 + 4*int(n)
	var parts []rawPart
	prevEnd := tableEnd
	ok := true
	for i := 0; i < int(n); i++ {
		off := int(le32(b, 32+4*i))
		rep.fire("container.part-bounds")
		if off < tableEnd {
			rep.addf("container.part-bounds", "part %d offset %d lies inside the header/offset table (ends at %d)", i, off, tableEnd)
			ok = false
			continue
		}
		if uint64(off)+8 > uint64(len(b)) {
			rep.addf("container.part-bounds", "part %d offset %d: 8-byte part header does not fit in %d bytes", i, off, len(b))
			ok = false
			continue
		}
		size := le32(b, off+4)
		if uint64(off)+8+uint64(size) > uint64(len(b)) {
			rep.addf("container.part-bounds", "part %d (%q) at %d with size %d runs past the end of the file (%d)", i, b[off:off+4], off, size, len(b))
			ok = false
			continue
		}
		rep.fire("container.part-order")
		if off < prevEnd {
			if i > 0 && len(parts) > 0 && off <= parts[len(parts)-1].off {
				rep.addf("container.part-order", "part %d offset %d is not greater than the previous part's offset %d", i, off, parts[len(parts)-1].off)
			} else {
				rep.addf("container.part-order", "part %d at offset %d overlaps the previous part, which ends at %d", i, off, prevEnd)
			}
			ok = false
		}
		rep.fire("container.part-contiguous")
		if off > prevEnd {
			rep.addf("container.part-contiguous", "gap of %d bytes before part %d (offset %d, previous data ends at %d)", off-prevEnd, i, off, prevEnd)
		}
		rep.fire("container.part-align")
		if off%4 != 0 || size%4 != 0 {
			rep.addf("container.part-align", "part %d (%q) offset %d / size %d not 4-byte aligned", i, b[off:off+4], off, size)
		}
		fc := string(b[off : off+4])
		rep.fire("container.fourcc")
		if !knownFourCC[fc] {
			rep.addf("container.fourcc", "part %d has unknown fourCC %q", i, fc)
		}
		parts = append(parts, rawPart{fourCC: fc, off: off, data: b[off+8 : off+8+int(size)]})
		rep.Parts = append(rep.Parts, PartInfo{FourCC: fc, Offset: off, Size: int(size)})
		if off+8+int(size) > prevEnd {
			prevEnd = off + 8 + int(size)
		}
	}
	rep.fire("container.part-contiguous")
	if ok && prevEnd != len(b) && int(n) > 0 {
		rep.addf("container.part-contiguous", "last part ends at %d but the file has %d bytes", prevEnd, len(b))
	}
	seen := map[string]int{}
	for _, p := range parts {
		seen[p.fourCC]++
	}
	rep.fire("container.part-unique")
	for fc, k := range seen {
		if k > 1 {
			rep.addf("container.part-unique", "part %q appears %d times", fc, k)
		}
	}
	rep.fire("container.dxil-unique")
	if seen["DXIL"] != 1 {
		rep.addf("container.dxil-unique", "%d DXIL parts (want exactly 1)", seen["DXIL"])
	}
	if !ok {
		// keep the parts that were in bounds; later checks use them
		return parts
	}
	return parts
}
