package dxbc

import (
	"crypto/md5"
	"encoding/binary"
)

// Test-only bitstream writer: re-serialises a parsed block tree with every
// record unabbreviated, so tests can mutate records structurally.

type bitWriter struct {
	buf  []byte
	cur  uint64
	nbit uint
}

func (w *bitWriter) fixed(v uint64, n int) {
	for i := 0; i < n; i++ {
		if v>>uint(i)&1 != 0 {
			w.cur |= 1 << w.nbit
		}
		w.nbit++
		if w.nbit == 8 {
			w.buf = append(w.buf, byte(w.cur))
			w.cur, w.nbit = 0, 0
		}
	}
}

func (w *bitWriter) vbr(v uint64, n int) {
	hi := uint64(1) << uint(n-1)
	for v >= hi {
		w.fixed(v&(hi-1)|hi, n)
		v >>= uint(n - 1)
	}
	w.fixed(v, n)
}

func (w *bitWriter) bitPos() uint64 { return uint64(len(w.buf))*8 + uint64(w.nbit) }

func (w *bitWriter) align32() {
	for w.bitPos()%32 != 0 {
		w.fixed(0, 1)
	}
}

func (w *bitWriter) block(b *bsBlock, parentWidth int) {
	w.fixed(1, parentWidth)
	w.vbr(uint64(b.ID), 8)
	w.vbr(uint64(b.AbbrevWidth), 4)
	w.align32()
	lenPos := len(w.buf)
	w.fixed(0, 32)
	for _, it := range b.Items {
		if it.Blk != nil {
			w.block(it.Blk, b.AbbrevWidth)
			continue
		}
		r := it.Rec
		w.fixed(3, b.AbbrevWidth)
		w.vbr(r.Code, 6)
		w.vbr(uint64(len(r.Ops)), 6)
		for _, o := range r.Ops {
			w.vbr(o, 6)
		}
	}
	w.fixed(0, b.AbbrevWidth)
	w.align32()
	binary.LittleEndian.PutUint32(w.buf[lenPos:], uint32((len(w.buf)-lenPos-4)/4))
}

func writeBitcode(top []*bsBlock) []byte {
	w := &bitWriter{buf: []byte{'B', 'C', 0xC0, 0xDE}}
	for _, b := range top {
		w.block(b, 2)
	}
	return w.buf
}

// parseTree parses bitcode into its block tree (must be clean).
func parseTree(bc []byte) []*bsBlock {
	rep := &Report{Fired: map[string]int{}}
	p := &bsParser{rep: rep}
	p.r.data = bc
	return p.parseStream()
}

// splitContainer returns the parts (fourCC, data) of a well-formed container.
func splitContainer(b []byte) (fcs []string, datas [][]byte) {
	n := int(le32(b, 28))
	for i := 0; i < n; i++ {
		off := int(le32(b, 32+4*i))
		sz := int(le32(b, off+4))
		fcs = append(fcs, string(b[off:off+4]))
		datas = append(datas, append([]byte(nil), b[off+8:off+8+sz]...))
	}
	return
}

// buildContainer assembles parts and signs the result (retail checksum).
func buildContainer(fcs []string, datas [][]byte) []byte {
	n := len(fcs)
	out := make([]byte, 32+4*n)
	copy(out, "DXBC")
	binary.LittleEndian.PutUint16(out[20:], 1)
	binary.LittleEndian.PutUint32(out[28:], uint32(n))
	for i := range fcs {
		binary.LittleEndian.PutUint32(out[32+4*i:], uint32(len(out)))
		var h [8]byte
		copy(h[:], fcs[i])
		binary.LittleEndian.PutUint32(h[4:], uint32(len(datas[i])))
		out = append(out, h[:]...)
		out = append(out, datas[i]...)
	}
	binary.LittleEndian.PutUint32(out[24:], uint32(len(out)))
	resign(out)
	return out
}

func resign(b []byte) {
	d := dxbcChecksum(b[20:])
	copy(b[4:20], d[:])
}

// withBitcode replaces the bitcode of the DXIL (and STAT) part, fixing the
// program header sizes, the HASH part and the container digest.
func withBitcode(orig []byte, bc []byte) []byte {
	fcs, datas := splitContainer(orig)
	for i, fc := range fcs {
		switch fc {
		case "DXIL", "STAT":
			hdr := append([]byte(nil), datas[i][:24]...)
			binary.LittleEndian.PutUint32(hdr[4:], uint32((24+len(bc))/4))
			binary.LittleEndian.PutUint32(hdr[20:], uint32(len(bc)))
			datas[i] = append(hdr, bc...)
		case "HASH":
			s := md5.Sum(bc)
			copy(datas[i][4:], s[:])
		}
	}
	return buildContainer(fcs, datas)
}

func getBitcode(b []byte) []byte {
	fcs, datas := splitContainer(b)
	for i, fc := range fcs {
		if fc == "DXIL" {
			return datas[i][24:]
		}
	}
	return nil
}

func moduleOf(top []*bsBlock) *bsBlock {
	for _, b := range top {
		if b.ID == blkModule {
			return b
		}
	}
	return nil
}
