package dxbc

import (
	"fmt"
	"os"
	"testing"

	"github.com/gogpu/naga/dxil"
	"github.com/gogpu/naga/ir"
)

// TestSnippet: DXBC_WGSL=<file> compiles every entry point, prints findings,
// and writes <file>.<entry>.bc / .dxbc next to it (triage aid).
func TestSnippet(t *testing.T) {
	path := os.Getenv("DXBC_WGSL")
	if path == "" {
		t.Skip()
	}
	src, err := os.ReadFile(path)
	if err != nil {
		t.Fatal(err)
	}
	m, err := lowerWGSL(string(src))
	if err != nil {
		t.Fatal(err)
	}
	if os.Getenv("DXBC_TRACE") != "" {
		debugTrace = func(s string) { fmt.Println(s) }
		defer func() { debugTrace = nil }()
	}
	for j := range m.EntryPoints {
		single := *m
		single.EntryPoints = []ir.EntryPoint{m.EntryPoints[j]}
		b, err := dxil.Compile(&single, dxil.DefaultOptions())
		if err != nil {
			fmt.Printf("%s: compile error: %v\n", m.EntryPoints[j].Name, err)
			continue
		}
		_ = os.WriteFile(path+"."+m.EntryPoints[j].Name+".dxbc", b, 0o644)
		_ = os.WriteFile(path+"."+m.EntryPoints[j].Name+".bc", getBitcode(b), 0o644)
		r := Check(b, Expect{})
		fmt.Printf("%s: %d findings\n", m.EntryPoints[j].Name, len(r.Findings))
		for _, f := range r.Findings {
			fmt.Printf("  %s: %s\n", f.Rule, f.Detail)
		}
	}
}
