package dxbc

import (
	"fmt"
	"os"
	"strings"
	"testing"
)

// dumpBitcode renders the block/record tree (debug aid for triage).
func dumpBitcode(bc []byte) string {
	rep := &Report{Fired: map[string]int{}}
	p := &bsParser{rep: rep}
	p.r.data = bc
	top := p.parseStream()
	var sb strings.Builder
	var walk func(b *bsBlock, ind string)
	walk = func(b *bsBlock, ind string) {
		fmt.Fprintf(&sb, "%sBLOCK %s(%d) width=%d len=%d\n", ind, blockNames[b.ID], b.ID, b.AbbrevWidth, b.LenWords)
		n := 0
		for _, it := range b.Items {
			if it.Blk != nil {
				walk(it.Blk, ind+"  ")
				continue
			}
			r := it.Rec
			s := ""
			if b.ID == blkMetadata && (r.Code == 1 || r.Code == 4) || b.ID == blkValueSymtab || (b.ID == blkTypeNew && r.Code == 19) {
				bs := make([]byte, 0, len(r.Ops))
				for _, c := range r.Ops {
					if c >= 32 && c < 127 {
						bs = append(bs, byte(c))
					}
				}
				s = " \"" + string(bs) + "\""
			}
			fmt.Fprintf(&sb, "%s  [%d] code=%d ops=%v%s\n", ind, n, r.Code, r.Ops, s)
			n++
		}
	}
	for _, b := range top {
		walk(b, "")
	}
	for _, f := range rep.Findings {
		fmt.Fprintf(&sb, "FINDING %s: %s\n", f.Rule, f.Detail)
	}
	return sb.String()
}

func TestDumpFile(t *testing.T) {
	path := os.Getenv("DXBC_DUMP_FILE")
	if path == "" {
		t.Skip()
	}
	b, err := os.ReadFile(path)
	if err != nil {
		t.Fatal(err)
	}
	if os.Getenv("DXBC_TRACE") != "" {
		debugTrace = func(s string) { fmt.Println(s) }
		defer func() { debugTrace = nil }()
	}
	rep := Check(b, Expect{})
	fmt.Printf("parts: %+v\nPSV: %+v\nSig: %+v\nRes: %+v\n", rep.Parts, rep.PSV, rep.Signature, rep.Resources)
	for _, p := range rep.Parts {
		if p.FourCC == "DXIL" {
			fmt.Print(dumpBitcode(b[p.Offset+8+24 : p.Offset+8+p.Size]))
		}
		if p.FourCC == "PSV0" {
			fmt.Printf("PSV0 raw: % x\n", b[p.Offset+8:p.Offset+8+p.Size])
		}
	}
	for _, f := range rep.Findings {
		fmt.Printf("FINDING %s: %s\n", f.Rule, f.Detail)
	}
}
