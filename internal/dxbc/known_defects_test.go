package dxbc

import (
	"testing"

	"github.com/gogpu/naga/dxil"
	"github.com/gogpu/naga/ir"
)

// Minimal WGSL reproducers for format violations seen in naga's DXIL output on
// the pinned tree (each confirmed independently with llvm-dis / opt -verify,
// except func.enum which LLVM tolerates). The test only logs: if naga is fixed
// the entry reports "no longer reproduces".
var knownDefects = []struct{ name, rule, wgsl string }{
	{"switch with grouped selectors: phi has an entry for a fall-through case block that is not a predecessor", "func.ssa", `
@group(0) @binding(0) var<storage, read_write> out: array<u32>;
@compute @workgroup_size(1) fn main(@builtin(global_invocation_id) gid: vec3<u32>) {
  var acc = 0u;
  switch gid.x { case 0u: { acc = 1u; } case 1u, 2u: { acc = gid.y; } default: { acc = gid.z; } }
  out[0] = acc;
}`},
	{"plain switch assigning loads from a struct value: phi incoming value ids point at the GEPs / itself, not the loads", "func.ssa", `
struct V { position: vec3<f32>, normal: vec3<f32> }
@group(0) @binding(0) var<storage, read_write> out: array<f32>;
fn tv(p: vec2<f32>) -> V { return V(vec3<f32>(p, 1.0), vec3<f32>(p.y, p.x, 2.0)); }
@compute @workgroup_size(1) fn main(@builtin(global_invocation_id) gid: vec3<u32>) {
  let v = tv(vec2<f32>(f32(gid.y), f32(gid.z)));
  var c: f32 = 0.;
  switch gid.x { case 0u: { c = v.position.x; } case 1u: { c = v.position.y; } case 2u: { c = v.normal.x; } default: {} }
  out[0] = c;
}`},
	{"nested struct local: struct flattened to {i32,i32} but member GEP still typed {i32}", "func.type-check", `
struct Inner { d: i32 }
struct Outer { i: Inner, t: u32 }
@group(0) @binding(0) var<storage, read_write> out: array<i32>;
@compute @workgroup_size(1) fn main() { var thing = Outer(); var inner = thing.i; out[0] = inner.d; }`},
	{"storage matrix element write m[i][j] = v: LLVM store through a dx.types.Handle", "func.type-check", `
struct G { m: mat3x4<f32> }
@group(0) @binding(0) var<storage, read_write> g: G;
@compute @workgroup_size(1) fn main(@builtin(global_invocation_id) gid: vec3<u32>) { g.m[gid.x][gid.y] = 1.0; }`},
	{"array member of a struct in a storage array: i32/float operand mix-up", "func.type-check", `
struct S { a: u32, b: vec3<f32>, c: array<i32, 3> }
@group(0) @binding(0) var<storage, read_write> out: array<i32>;
@group(0) @binding(1) var<storage, read> inp: array<S>;
@compute @workgroup_size(1) fn main(@builtin(global_invocation_id) gid: vec3<u32>) { out[0] = inp[gid.x].c[1] + 7; }`},
	{"dynamic component of a storage vec3 inside a loop: raw i32 used as float", "func.type-check", `
struct S { a: u32, b: vec3<f32> }
@group(0) @binding(0) var<storage, read_write> out: array<f32>;
@group(0) @binding(1) var<storage, read> inp: array<S>;
var<private> p: array<f32, 4>;
@compute @workgroup_size(1) fn main(@builtin(global_invocation_id) gid: vec3<u32>) {
  for (var i = 0u; i < 4u; i++) { p[i] = 1.0 + inp[gid.x].b[i % 3u]; }
  out[0] = p[1];
}`},
	{"uniform mat2x2 column by dynamic index: LLVM load through a dx.types.Handle", "func.type-check", `
struct U { m: mat2x2<f32> }
@group(0) @binding(0) var<uniform> u: U;
@group(0) @binding(1) var<storage, read_write> out: array<f32>;
@compute @workgroup_size(1) fn main(@builtin(global_invocation_id) gid: vec3<u32>) { out[0] = u.m[gid.x].y; }`},
	{"workgroup atomicrmw: ordering operand 7 (in-memory enum) instead of bitcode code 6 (SEQCST)", "func.enum", `
var<workgroup> w: atomic<u32>;
@group(0) @binding(0) var<storage, read_write> out: array<u32>;
@compute @workgroup_size(1) fn main() { out[0] = atomicAdd(&w, 1u); }`},
	{"barycentric builtin input: PSV0 counts 2 signature elements but stores 1", "psv.layout", `
@fragment fn main(@builtin(barycentric) bary: vec3<f32>) -> @location(0) vec4<f32> { return vec4(bary, 1.0); }`},
}

func TestKnownNagaDefects(t *testing.T) {
	for _, d := range knownDefects {
		m, err := lowerWGSL(d.wgsl)
		if err != nil {
			t.Logf("%s: front end rejects the reproducer: %v", d.name, err)
			continue
		}
		single := *m
		single.EntryPoints = []ir.EntryPoint{m.EntryPoints[0]}
		b, cerr, p := safeCompile(&single, dxil.DefaultOptions())
		if p != nil || cerr != nil {
			t.Logf("%s: no container (err=%v panic=%v)", d.name, cerr, p)
			continue
		}
		r := Check(b, Expect{})
		hit := false
		for _, f := range r.Findings {
			if f.Rule == d.rule {
				if !hit {
					t.Logf("REPRODUCES %s\n      %s: %s", d.name, f.Rule, f.Detail)
				}
				hit = true
			}
		}
		if !hit {
			t.Logf("no longer reproduces: %s (findings: %s)", d.name, rulesOf(r))
		}
		if r.Fired["internal.panic"] != 0 {
			t.Errorf("%s: checker panicked", d.name)
		}
	}
}
