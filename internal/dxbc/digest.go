package dxbc

import (
	"bytes"
	"crypto/md5"
	"encoding/binary"
	"math"
	"math/bits"
)

// RFC 1321 block transform (own implementation: the DXBC checksum needs the raw
// state without MD5's finalisation).
var md5K [64]uint32
var md5S = [64]uint{7, 12, 17, 22, 7, 12, 17, 22, 7, 12, 17, 22, 7, 12, 17, 22,
	5, 9, 14, 20, 5, 9, 14, 20, 5, 9, 14, 20, 5, 9, 14, 20,
	4, 11, 16, 23, 4, 11, 16, 23, 4, 11, 16, 23, 4, 11, 16, 23,
	6, 10, 15, 21, 6, 10, 15, 21, 6, 10, 15, 21, 6, 10, 15, 21}

func init() {
	for i := range md5K {
		md5K[i] = uint32(math.Floor(math.Abs(math.Sin(float64(i+1))) * 4294967296.0))
	}
}

func md5Block(st *[4]uint32, blk []byte) {
	var m [16]uint32
	for i := range m {
		m[i] = binary.LittleEndian.Uint32(blk[4*i:])
	}
	a, b, c, d := st[0], st[1], st[2], st[3]
	for i := 0; i < 64; i++ {
		var f uint32
		var g int
		switch {
		case i < 16:
			f = (b & c) | (^b & d)
			g = i
		case i < 32:
			f = (d & b) | (^d & c)
			g = (5*i + 1) % 16
		case i < 48:
			f = b ^ c ^ d
			g = (3*i + 5) % 16
		default:
			f = c ^ (b | ^d)
			g = (7 * i) % 16
		}
		f = f + a + md5K[i] + m[g]
		a = d
		d = c
		c = b
		b = b + bits.RotateLeft32(f, int(md5S[i]))
	}
	st[0] += a
	st[1] += b
	st[2] += c
	st[3] += d
}

// dxbcChecksum is the container checksum: MD5 state over data in 64-byte
// blocks, finished with the DXBC-specific tail instead of MD5 padding.
func dxbcChecksum(data []byte) [16]byte {
	st := [4]uint32{0x67452301, 0xefcdab89, 0x98badcfe, 0x10325476}
	n := len(data)
	numBits := uint32(n) * 8
	full := n / 64
	for i := 0; i < full; i++ {
		md5Block(&st, data[64*i:])
	}
	rem := data[64*full:]
	var blk [64]byte
	if len(rem) >= 56 {
		copy(blk[:], rem)
		blk[len(rem)] = 0x80
		md5Block(&st, blk[:])
		var last [64]byte
		binary.LittleEndian.PutUint32(last[0:], numBits)
		binary.LittleEndian.PutUint32(last[60:], (numBits>>2)|1)
		md5Block(&st, last[:])
	} else {
		binary.LittleEndian.PutUint32(blk[0:], numBits)
		copy(blk[4:], rem)
		blk[4+len(rem)] = 0x80
		binary.LittleEndian.PutUint32(blk[60:], (numBits>>2)|1)
		md5Block(&st, blk[:])
	}
	var out [16]byte
	for i := 0; i < 4; i++ {
		binary.LittleEndian.PutUint32(out[4*i:], st[i])
	}
	return out
}

func checkDigest(rep *Report, b []byte, e Expect) {
	if len(b) < 32 || string(b[0:4]) != "DXBC" {
		return
	}
	rep.fire("digest.container")
	got := b[4:20]
	if e.BypassHash {
		want := bytes.Repeat([]byte{1}, 16)
		if !bytes.Equal(got, want) {
			rep.addf("digest.container", "bypass hash requested: digest is %x, want the BYPASS sentinel %x", got, want)
		}
		return
	}
	want := dxbcChecksum(b[20:])
	if !bytes.Equal(got, want[:]) {
		rep.addf("digest.container", "digest %x does not verify; checksum over bytes [20:%d) is %x", got, len(b), want)
	}
}

// checkHashPart: DxilShaderHash { uint32 Flags; uint8 Digest[16] }. With
// Flags==0 the digest is the plain MD5 of the bitcode stored in the DXIL part.
func (c *checker) checkHashPart(p rawPart, bitcode []byte) {
	c.rep.fire("digest.hash-part")
	if len(p.data) != 20 {
		c.rep.addf("digest.hash-part", "HASH part is %d bytes, want 20", len(p.data))
		return
	}
	flags := le32(p.data, 0)
	if flags > 1 {
		c.rep.addf("digest.hash-part", "HASH flags %#x (only 0 and 1=IncludesSource are defined)", flags)
		return
	}
	if flags == 0 && bitcode != nil {
		sum := md5.Sum(bitcode)
		if !bytes.Equal(sum[:], p.data[4:20]) {
			c.rep.addf("digest.hash-part", "HASH digest %x is not the MD5 of the DXIL part's bitcode (%x)", p.data[4:20], sum)
		}
	}
}
