package dxbc

import "fmt"

// LLVM bitstream container format (LLVM 3.7 "BitCodeFormat"): reader that
// materialises the block/record tree and checks the structural rules.

// Standard block ids (LLVMBitCodes.h, 3.7).
const (
	blkBlockInfo      = 0
	blkModule         = 8
	blkParamAttr      = 9
	blkParamAttrGroup = 10
	blkConstants      = 11
	blkFunction       = 12
	blkValueSymtab    = 14
	blkMetadata       = 15
	blkMetadataAttach = 16
	blkTypeNew        = 17
	blkUseList        = 18
)

var blockNames = map[uint32]string{
	blkBlockInfo: "BLOCKINFO", blkModule: "MODULE", blkParamAttr: "PARAMATTR",
	blkParamAttrGroup: "PARAMATTR_GROUP", blkConstants: "CONSTANTS", blkFunction: "FUNCTION",
	blkValueSymtab: "VALUE_SYMTAB", blkMetadata: "METADATA", blkMetadataAttach: "METADATA_ATTACHMENT",
	blkTypeNew: "TYPE_NEW", blkUseList: "USELIST",
}

// abbreviation operand encodings
const (
	encFixed = 1
	encVBR   = 2
	encArray = 3
	encChar6 = 4
	encBlob  = 5
)

type abbrevOp struct {
	literal bool
	value   uint64 // literal value, or width for fixed/vbr
	enc     int
}

type abbrev struct{ ops []abbrevOp }

type bsRecord struct {
	Code    uint64
	Ops     []uint64
	Abbrev  int // abbreviation id used (3 = unabbreviated)
	BitPos  uint64
	BlobLen int // trailing BlobLen entries of Ops are blob bytes
}

// bsItem is either a record or a nested block (in stream order).
type bsItem struct {
	Rec *bsRecord
	Blk *bsBlock
}

type bsBlock struct {
	ID          uint32
	AbbrevWidth int
	Items       []bsItem
	StartBit    uint64 // bit position of the ENTER_SUBBLOCK abbrev id
	BodyBit     uint64 // first bit after the length word
	LenWords    uint32
	Closed      bool
}

func (b *bsBlock) records() []*bsRecord {
	var r []*bsRecord
	for _, it := range b.Items {
		if it.Rec != nil {
			r = append(r, it.Rec)
		}
	}
	return r
}

func (b *bsBlock) blocks(id uint32) []*bsBlock {
	var r []*bsBlock
	for _, it := range b.Items {
		if it.Blk != nil && it.Blk.ID == id {
			r = append(r, it.Blk)
		}
	}
	return r
}

type bitReader struct {
	data []byte
	pos  uint64 // in bits
	err  bool   // ran off the end
}

func (r *bitReader) size() uint64 { return uint64(len(r.data)) * 8 }

func (r *bitReader) fixed(n int) uint64 {
	if n == 0 {
		return 0
	}
	if n > 64 || r.pos+uint64(n) > r.size() {
		r.err = true
		r.pos = r.size()
		return 0
	}
	var v uint64
	got := 0
	for got < n {
		byteIx := r.pos >> 3
		bitOff := int(r.pos & 7)
		take := 8 - bitOff
		if take > n-got {
			take = n - got
		}
		bits := (uint64(r.data[byteIx]) >> uint(bitOff)) & ((1 << uint(take)) - 1)
		v |= bits << uint(got)
		got += take
		r.pos += uint64(take)
	}
	return v
}

func (r *bitReader) vbr(n int) uint64 {
	if n < 2 || n > 64 {
		// vbr(1) can never terminate with payload; treat as error.
		r.err = true
		return 0
	}
	hi := uint64(1) << uint(n-1)
	var v uint64
	shift := uint(0)
	for {
		c := r.fixed(n)
		if r.err {
			return 0
		}
		if shift < 64 {
			v |= (c & (hi - 1)) << shift
		}
		if c&hi == 0 {
			return v
		}
		shift += uint(n - 1)
		if shift > 128 {
			r.err = true
			return 0
		}
	}
}

func (r *bitReader) align32() {
	r.pos = (r.pos + 31) &^ 31
	if r.pos > r.size() {
		r.err = true
		r.pos = r.size()
	}
}

type bsStats struct {
	Blocks         map[uint32]int
	Records        int
	AbbrevRecords  int
	AbbrevsDefined int
	AbbrevsUsed    map[string]int // "blockid/abbrevid" -> uses
}

type bsParser struct {
	r         bitReader
	rep       *Report
	blockInfo map[uint32][]*abbrev
	stats     bsStats
	fatal     bool
	depth     int
	prefix    string // rule prefix detail, e.g. part name
}

func (p *bsParser) find(rule, f string, a ...any) {
	p.rep.add(rule, p.prefix+fmt.Sprintf(f, a...))
}

func (p *bsParser) fire(rule string) { p.rep.fire(rule) }

// parseStream parses a whole bitstream (after checking the magic) and returns
// top-level blocks.
func (p *bsParser) parseStream() []*bsBlock {
	p.fire("bitstream.magic")
	if len(p.r.data) < 4 || p.r.data[0] != 'B' || p.r.data[1] != 'C' || p.r.data[2] != 0xC0 || p.r.data[3] != 0xDE {
		p.find("bitstream.magic", "bitcode does not start with 'B','C',0xC0,0xDE")
		return nil
	}
	p.fire("bitstream.trailing")
	if len(p.r.data)%4 != 0 {
		p.find("bitstream.trailing", "bitcode size %d is not a multiple of 4", len(p.r.data))
	}
	p.r.pos = 32
	var top []*bsBlock
	for !p.fatal {
		if p.r.pos >= p.r.size() {
			break
		}
		// Anything after the last complete top-level block must be padding
		// to a 32-bit boundary only; since blocks end 32-bit aligned, any
		// further bytes are either another block or garbage.
		start := p.r.pos
		id := p.r.fixed(2)
		if p.r.err {
			p.find("bitstream.eof", "stream ends inside a top-level abbrev id at bit %d", start)
			break
		}
		p.fire("bitstream.nesting")
		if id != 1 {
			p.find("bitstream.trailing", "top-level abbrev id %d at bit %d (only ENTER_SUBBLOCK is legal at top level)", id, start)
			break
		}
		b := p.parseBlock(start, 2, nil)
		if b != nil {
			top = append(top, b)
		}
	}
	return top
}

// parseBlock is called with the ENTER_SUBBLOCK abbrev id already consumed.
func (p *bsParser) parseBlock(startBit uint64, parentWidth int, parent *bsBlock) *bsBlock {
	_ = parentWidth
	r := &p.r
	blockID := r.vbr(8)
	newWidth := r.vbr(4)
	r.align32()
	lenWords := r.fixed(32)
	if r.err {
		p.find("bitstream.eof", "stream ends inside ENTER_SUBBLOCK header at bit %d", startBit)
		p.fatal = true
		return nil
	}
	b := &bsBlock{ID: uint32(blockID), AbbrevWidth: int(newWidth), StartBit: startBit, BodyBit: r.pos, LenWords: uint32(lenWords)}
	if p.stats.Blocks == nil {
		p.stats.Blocks = map[uint32]int{}
		p.stats.AbbrevsUsed = map[string]int{}
	}
	p.stats.Blocks[b.ID]++
	p.fire("bitstream.abbrev-width")
	if newWidth == 0 || newWidth > 32 {
		p.find("bitstream.abbrev-width", "block %d at bit %d declares abbrev id width %d", blockID, startBit, newWidth)
		p.fatal = true
		return b
	}
	p.depth++
	defer func() { p.depth-- }()
	if p.depth > 64 {
		p.find("bitstream.nesting", "block nesting deeper than 64")
		p.fatal = true
		return b
	}
	// Abbreviations: those registered through BLOCKINFO first, then local.
	var abbrevs []*abbrev
	abbrevs = append(abbrevs, p.blockInfo[b.ID]...)
	var curBID int64 = -1 // BLOCKINFO: current SETBID target

	for {
		itemBit := r.pos
		id := r.fixed(b.AbbrevWidth)
		if r.err {
			p.find("bitstream.eof", "stream ends inside block %d (opened at bit %d) without END_BLOCK", b.ID, startBit)
			p.fatal = true
			return b
		}
		switch id {
		case 0: // END_BLOCK
			r.align32()
			if r.err {
				p.find("bitstream.end-block", "END_BLOCK of block %d at bit %d cannot be aligned to 32 bits inside the stream", b.ID, itemBit)
				p.fatal = true
				return b
			}
			b.Closed = true
			p.fire("bitstream.end-block")
			// the alignment bits must be zero (writer FlushToWord emits zeros)
			p.fire("bitstream.block-length")
			real := (r.pos - b.BodyBit) / 32
			if uint64(b.LenWords) != real {
				p.find("bitstream.block-length", "block %d opened at bit %d: length word says %d words, END_BLOCK closes it after %d words", b.ID, startBit, b.LenWords, real)
			}
			return b
		case 1: // ENTER_SUBBLOCK
			sub := p.parseBlock(itemBit, b.AbbrevWidth, b)
			if sub != nil {
				b.Items = append(b.Items, bsItem{Blk: sub})
			}
			if p.fatal {
				return b
			}
		case 2: // DEFINE_ABBREV
			a := p.parseDefineAbbrev(b, itemBit)
			if p.fatal {
				return b
			}
			p.stats.AbbrevsDefined++
			if b.ID == blkBlockInfo {
				p.fire("bitstream.blockinfo")
				if curBID < 0 {
					p.find("bitstream.blockinfo", "DEFINE_ABBREV in BLOCKINFO at bit %d before any SETBID", itemBit)
				} else {
					if p.blockInfo == nil {
						p.blockInfo = map[uint32][]*abbrev{}
					}
					p.blockInfo[uint32(curBID)] = append(p.blockInfo[uint32(curBID)], a)
				}
			} else {
				abbrevs = append(abbrevs, a)
			}
		case 3: // UNABBREV_RECORD
			code := r.vbr(6)
			n := r.vbr(6)
			if r.err {
				p.find("bitstream.eof", "stream ends inside an unabbreviated record at bit %d", itemBit)
				p.fatal = true
				return b
			}
			if n > (r.size()-r.pos)/6+1 {
				p.find("bitstream.record", "unabbreviated record at bit %d claims %d operands, more than the stream can hold", itemBit, n)
				p.fatal = true
				return b
			}
			rec := &bsRecord{Code: code, Abbrev: 3, BitPos: itemBit, Ops: make([]uint64, 0, n)}
			for i := uint64(0); i < n; i++ {
				rec.Ops = append(rec.Ops, r.vbr(6))
			}
			if r.err {
				p.find("bitstream.eof", "stream ends inside an unabbreviated record at bit %d", itemBit)
				p.fatal = true
				return b
			}
			p.stats.Records++
			b.Items = append(b.Items, bsItem{Rec: rec})
			if b.ID == blkBlockInfo {
				p.blockInfoRecord(rec, &curBID)
			}
		default:
			p.fire("bitstream.abbrev-id")
			ix := int(id) - 4
			if ix >= len(abbrevs) {
				p.find("bitstream.abbrev-id", "block %d: record at bit %d uses abbrev id %d but only %d abbreviations are defined (ids 4..%d)", b.ID, itemBit, id, len(abbrevs), 3+len(abbrevs))
				p.fatal = true
				return b
			}
			rec := p.parseAbbrevRecord(abbrevs[ix], itemBit)
			if p.fatal {
				return b
			}
			rec.Abbrev = int(id)
			p.stats.Records++
			p.stats.AbbrevRecords++
			p.stats.AbbrevsUsed[fmt.Sprintf("%d/%d", b.ID, id)]++
			b.Items = append(b.Items, bsItem{Rec: rec})
			if b.ID == blkBlockInfo {
				p.blockInfoRecord(rec, &curBID)
			}
		}
	}
}

func (p *bsParser) blockInfoRecord(rec *bsRecord, curBID *int64) {
	switch rec.Code {
	case 1: // SETBID
		p.fire("bitstream.blockinfo")
		if len(rec.Ops) < 1 {
			p.find("bitstream.blockinfo", "SETBID record at bit %d without operand", rec.BitPos)
			return
		}
		*curBID = int64(uint32(rec.Ops[0]))
	case 2, 3: // BLOCKNAME, SETRECORDNAME
		p.fire("bitstream.blockinfo")
		if *curBID < 0 {
			p.find("bitstream.blockinfo", "BLOCKINFO record code %d at bit %d before any SETBID", rec.Code, rec.BitPos)
		}
	}
}

func (p *bsParser) parseDefineAbbrev(b *bsBlock, itemBit uint64) *abbrev {
	r := &p.r
	n := r.vbr(5)
	if r.err {
		p.find("bitstream.eof", "stream ends inside DEFINE_ABBREV at bit %d", itemBit)
		p.fatal = true
		return nil
	}
	p.fire("bitstream.define-abbrev")
	a := &abbrev{}
	if n == 0 {
		p.find("bitstream.define-abbrev", "DEFINE_ABBREV at bit %d has no operands", itemBit)
	}
	if n > 4096 {
		p.find("bitstream.define-abbrev", "DEFINE_ABBREV at bit %d claims %d operands", itemBit, n)
		p.fatal = true
		return nil
	}
	for i := uint64(0); i < n; i++ {
		lit := r.fixed(1)
		if lit == 1 {
			v := r.vbr(8)
			a.ops = append(a.ops, abbrevOp{literal: true, value: v})
			continue
		}
		enc := int(r.fixed(3))
		op := abbrevOp{enc: enc}
		switch enc {
		case encFixed, encVBR:
			op.value = r.vbr(5)
			if op.value == 0 {
				// LLVM reads fixed(0)/vbr(0) as a literal zero.
				op = abbrevOp{literal: true, value: 0}
			} else if op.value > 64 || (enc == encVBR && op.value < 2) {
				p.find("bitstream.define-abbrev", "DEFINE_ABBREV at bit %d operand %d: encoding %d with width %d", itemBit, i, enc, op.value)
				p.fatal = true
				return nil
			}
		case encArray, encChar6, encBlob:
		default:
			p.find("bitstream.define-abbrev", "DEFINE_ABBREV at bit %d operand %d: unknown encoding %d", itemBit, i, enc)
			p.fatal = true
			return nil
		}
		a.ops = append(a.ops, op)
	}
	if r.err {
		p.find("bitstream.eof", "stream ends inside DEFINE_ABBREV at bit %d", itemBit)
		p.fatal = true
		return nil
	}
	// well-formedness
	bad := false
	for i, op := range a.ops {
		if op.literal {
			continue
		}
		switch op.enc {
		case encArray:
			if i != len(a.ops)-2 {
				p.find("bitstream.define-abbrev", "DEFINE_ABBREV at bit %d: Array operand at position %d of %d (must be second to last)", itemBit, i, len(a.ops))
				bad = true
			} else {
				e := a.ops[i+1]
				if e.literal || e.enc == encArray || e.enc == encBlob {
					p.find("bitstream.define-abbrev", "DEFINE_ABBREV at bit %d: Array element type must be Fixed, VBR or Char6", itemBit)
					bad = true
				}
			}
		case encBlob:
			if i != len(a.ops)-1 {
				p.find("bitstream.define-abbrev", "DEFINE_ABBREV at bit %d: Blob operand at position %d of %d (must be last)", itemBit, i, len(a.ops))
				bad = true
			}
		}
	}
	if len(a.ops) > 0 && !a.ops[0].literal && (a.ops[0].enc == encArray || a.ops[0].enc == encBlob) {
		p.find("bitstream.define-abbrev", "DEFINE_ABBREV at bit %d: abbreviation starts with an Array or Blob (no record code)", itemBit)
		bad = true
	}
	if bad || len(a.ops) == 0 {
		p.fatal = true
		return nil
	}
	_ = b
	return a
}

func (p *bsParser) readScalar(op abbrevOp) uint64 {
	r := &p.r
	switch op.enc {
	case encFixed:
		return r.fixed(int(op.value))
	case encVBR:
		return r.vbr(int(op.value))
	case encChar6:
		c := r.fixed(6)
		switch {
		case c < 26:
			return uint64('a') + c
		case c < 52:
			return uint64('A') + c - 26
		case c < 62:
			return uint64('0') + c - 52
		case c == 62:
			return '.'
		default:
			return '_'
		}
	}
	return 0
}

func (p *bsParser) parseAbbrevRecord(a *abbrev, itemBit uint64) *bsRecord {
	r := &p.r
	rec := &bsRecord{BitPos: itemBit}
	var vals []uint64
	for i := 0; i < len(a.ops); i++ {
		op := a.ops[i]
		switch {
		case op.literal:
			vals = append(vals, op.value)
		case op.enc == encArray:
			n := r.vbr(6)
			if r.err || n > r.size()-r.pos+1 {
				p.find("bitstream.record", "abbreviated record at bit %d: array length %d exceeds the stream", itemBit, n)
				p.fatal = true
				return rec
			}
			elt := a.ops[i+1]
			i++
			for k := uint64(0); k < n; k++ {
				vals = append(vals, p.readScalar(elt))
				if r.err {
					break
				}
			}
		case op.enc == encBlob:
			n := r.vbr(6)
			r.align32()
			if r.err || n > (r.size()-r.pos)/8 {
				p.find("bitstream.record", "abbreviated record at bit %d: blob length %d exceeds the stream", itemBit, n)
				p.fatal = true
				return rec
			}
			for k := uint64(0); k < n; k++ {
				vals = append(vals, r.fixed(8))
			}
			rec.BlobLen = int(n)
			r.align32()
		default:
			vals = append(vals, p.readScalar(op))
		}
		if r.err {
			p.find("bitstream.eof", "stream ends inside an abbreviated record at bit %d", itemBit)
			p.fatal = true
			return rec
		}
	}
	if len(vals) == 0 {
		p.find("bitstream.record", "abbreviated record at bit %d has no code", itemBit)
		p.fatal = true
		return rec
	}
	rec.Code = vals[0]
	rec.Ops = vals[1:]
	return rec
}

// legal parents per block id (LLVM 3.7 writer/reader structure).
func (p *bsParser) checkNesting(top []*bsBlock) {
	nMod := 0
	for _, b := range top {
		p.fire("bitstream.nesting")
		switch b.ID {
		case blkModule:
			nMod++
		case blkBlockInfo:
		default:
			p.find("bitstream.nesting", "block %s(%d) at top level", blockNames[b.ID], b.ID)
		}
		p.nest(b)
	}
	p.fire("bitstream.nesting")
	if nMod != 1 {
		p.find("bitstream.nesting", "%d MODULE blocks at top level (want exactly 1)", nMod)
	}
}

func (p *bsParser) nest(b *bsBlock) {
	for _, it := range b.Items {
		if it.Blk == nil {
			continue
		}
		c := it.Blk
		p.fire("bitstream.nesting")
		ok := false
		switch b.ID {
		case blkModule:
			switch c.ID {
			case blkBlockInfo, blkParamAttr, blkParamAttrGroup, blkTypeNew, blkConstants, blkMetadata, blkFunction, blkValueSymtab, blkUseList:
				ok = true
			}
		case blkFunction:
			switch c.ID {
			case blkConstants, blkMetadata, blkValueSymtab, blkMetadataAttach, blkUseList:
				ok = true
			}
		}
		if !ok {
			p.find("bitstream.nesting", "block %s(%d) nested inside block %s(%d)", blockNames[c.ID], c.ID, blockNames[b.ID], b.ID)
		}
		p.nest(c)
	}
}
