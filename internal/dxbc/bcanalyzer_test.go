package dxbc

import (
	"fmt"
	"os"
	"os/exec"
	"path/filepath"
	"regexp"
	"strings"
	"testing"
)

const xcheckC = `
#include <stdio.h>
struct S { int a; float b[4]; const char *name; };
static struct S g = {1, {1,2,3,4}, "hello_world.string"};
int fib(int n){ return n<2?n:fib(n-1)+fib(n-2);}
double f(struct S*s,int i){ switch(i){case 0: return s->a; case 1: return s->b[i&3]; default: return fib(i);} }
int main(int c,char**v){ printf("%s %f\n", g.name, f(&g,c)); return 0; }
`

// TestBitstreamVsBcanalyzer cross-checks the bitstream layer (abbreviations,
// BLOCKINFO, arrays, char6, blobs, block lengths) against llvm-bcanalyzer on
// clang-produced bitcode. Skipped when the tools are not installed.
func TestBitstreamVsBcanalyzer(t *testing.T) {
	clang, err1 := exec.LookPath("clang")
	bca, err2 := exec.LookPath("llvm-bcanalyzer")
	if err1 != nil || err2 != nil {
		t.Skip("clang / llvm-bcanalyzer not installed")
	}
	dir := t.TempDir()
	src := filepath.Join(dir, "t.c")
	if err := os.WriteFile(src, []byte(xcheckC), 0o644); err != nil {
		t.Fatal(err)
	}
	for _, flags := range [][]string{{"-O1", "-g"}} {
		bc := filepath.Join(dir, "t.bc")
		args := append(append([]string{}, flags...), "-emit-llvm", "-c", src, "-o", bc)
		if out, err := exec.Command(clang, args...).CombinedOutput(); err != nil {
			t.Skipf("clang failed: %v %s", err, out)
		}
		dump, err := exec.Command(bca, "-dump", bc).Output()
		if err != nil {
			t.Skipf("llvm-bcanalyzer failed: %v", err)
		}
		data, _ := os.ReadFile(bc)
		rep := &Report{Fired: map[string]int{}}
		p := &bsParser{rep: rep}
		p.r.data = data
		top := p.parseStream()
		if len(rep.Findings) > 0 {
			t.Fatalf("%v: findings on clang output: %v", flags, rep.Findings)
		}
		var mine []string
		var walk func(b *bsBlock)
		walk = func(b *bsBlock) {
			if b.ID == blkBlockInfo {
				return
			}
			mine = append(mine, fmt.Sprintf("B words=%d width=%d", b.LenWords, b.AbbrevWidth))
			for _, it := range b.Items {
				if it.Blk != nil {
					walk(it.Blk)
					continue
				}
				r := it.Rec
				ops := r.Ops[:len(r.Ops)-r.BlobLen]
				ab := ""
				if r.Abbrev != 3 {
					ab = fmt.Sprintf(" abbrev=%d", r.Abbrev)
				}
				mine = append(mine, fmt.Sprintf("R%s %v", ab, ops))
			}
			mine = append(mine, "E")
		}
		for _, b := range top {
			walk(b)
		}
		var theirs []string
		reOpen := regexp.MustCompile(`^\s*<\w+ NumWords=(\d+) BlockCodeSize=(\d+)>`)
		reClose := regexp.MustCompile(`^\s*</\w+>`)
		reRec := regexp.MustCompile(`^\s*<\w+((?: \w+=-?\d+)*)(?: \([a-z ]+\))?/>`)
		inBody := false
		for _, ln := range strings.Split(string(dump), "\n") {
			if strings.HasPrefix(ln, "Summary") {
				break
			}
			if m := reOpen.FindStringSubmatch(ln); m != nil {
				theirs = append(theirs, fmt.Sprintf("B words=%s width=%s", m[1], m[2]))
				inBody = true
				continue
			}
			if !inBody {
				continue
			}
			if reClose.MatchString(ln) {
				theirs = append(theirs, "E")
				continue
			}
			if strings.Contains(ln, "<BLOCKINFO_BLOCK/>") {
				continue
			}
			if m := reRec.FindStringSubmatch(ln); m != nil {
				ab := ""
				var ops []string
				for _, kv := range strings.Fields(m[1]) {
					k, v, _ := strings.Cut(kv, "=")
					if k == "abbrevid" {
						ab = " abbrev=" + v
					} else {
						ops = append(ops, v)
					}
				}
				theirs = append(theirs, fmt.Sprintf("R%s [%s]", ab, strings.Join(ops, " ")))
			}
		}
		if len(mine) != len(theirs) {
			t.Errorf("%v: %d items vs bcanalyzer %d", flags, len(mine), len(theirs))
		}
		for i := 0; i < len(mine) && i < len(theirs); i++ {
			if mine[i] != theirs[i] {
				t.Fatalf("%v: item %d differs:\n mine   %s\n theirs %s", flags, i, mine[i], theirs[i])
			}
		}
		t.Logf("%v: %d items agree (%d abbreviated records, %d abbrevs defined)", flags, len(mine), p.stats.AbbrevRecords, p.stats.AbbrevsDefined)
	}
}
