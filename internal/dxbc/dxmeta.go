package dxbc

import (
	"fmt"
	"sort"
)

// DXIL metadata (DXIL.rst): dx.version, dx.valver, dx.shaderModel,
// dx.resources, dx.entryPoints.

var smStageKinds = map[string]int{"ps": 0, "vs": 1, "gs": 2, "hs": 3, "ds": 4, "cs": 5, "lib": 6, "ms": 13, "as": 14}

func (m *moduleChecker) namedMD(name string) *namedMD {
	for i := range m.named {
		if m.named[i].name == name {
			return &m.named[i]
		}
	}
	return nil
}

// node returns the operand list (id+1 encoding) of metadata id if it is a node.
func (m *moduleChecker) node(id uint64) ([]uint64, bool) {
	if id >= uint64(len(m.md)) || m.md[id].kind != mdNode {
		return nil, false
	}
	return m.md[id].ops, true
}

// opNode resolves a node operand (id+1, 0=null).
func (m *moduleChecker) opNode(op uint64) ([]uint64, bool) {
	if op == 0 {
		return nil, false
	}
	return m.node(op - 1)
}

func (m *moduleChecker) opInt(op uint64) (int64, bool) {
	if op == 0 || op-1 >= uint64(len(m.md)) {
		return 0, false
	}
	e := m.md[op-1]
	if e.kind != mdValue || e.valID >= uint64(len(m.values)) {
		return 0, false
	}
	c := m.values[e.valID].cst
	if c == nil {
		return 0, false
	}
	if c.isInt {
		return c.ival, true
	}
	if c.code == 2 { // null of an integer type = 0
		if t := m.ty(m.values[e.valID].ty); t != nil && t.kind == tInt {
			return 0, true
		}
	}
	return 0, false
}

func (m *moduleChecker) opString(op uint64) (string, bool) {
	if op == 0 || op-1 >= uint64(len(m.md)) || m.md[op-1].kind != mdString {
		return "", false
	}
	return m.md[op-1].str, true
}

func (m *moduleChecker) checkDxMetadata() {
	rep := m.rep
	c := m.c
	// single-node named metadata of ints
	pairOf := func(name string, required bool) ([]int64, bool) {
		m.fire("dxmeta.named")
		n := m.namedMD(name)
		if n == nil {
			if required {
				m.find("dxmeta.named", "named metadata !%s missing", name)
			}
			return nil, false
		}
		if len(n.ops) != 1 {
			m.find("dxmeta.named", "!%s has %d operands, want 1", name, len(n.ops))
			return nil, false
		}
		ops, ok := m.node(n.ops[0])
		if !ok {
			return nil, false
		}
		var out []int64
		for _, op := range ops {
			v, ok := m.opInt(op)
			if !ok {
				m.find("dxmeta.named", "!%s operand is not an integer constant", name)
				return nil, false
			}
			out = append(out, v)
		}
		return out, true
	}
	if v, ok := pairOf("dx.version", true); ok {
		m.fire("dxmeta.named")
		if len(v) != 2 {
			m.find("dxmeta.named", "!dx.version = %v, want {major, minor}", v)
		} else if c.haveHeader && (int(v[0]) != c.dxilMajor || int(v[1]) != c.dxilMinor) {
			m.find("dxmeta.named", "!dx.version says DXIL %d.%d but the program header says %d.%d", v[0], v[1], c.dxilMajor, c.dxilMinor)
		}
	}
	if v, ok := pairOf("dx.valver", false); ok {
		m.fire("dxmeta.named")
		if len(v) != 2 {
			m.find("dxmeta.named", "!dx.valver = %v, want {major, minor}", v)
		}
	}
	// llvm.ident entries: one-operand nodes holding a string (LLVM verifier)
	if n := m.namedMD("llvm.ident"); n != nil {
		for _, id := range n.ops {
			m.fire("dxmeta.named")
			ops, ok := m.node(id)
			if !ok {
				continue
			}
			if len(ops) != 1 {
				m.find("dxmeta.named", "!llvm.ident entry has %d operands, want 1", len(ops))
			} else if _, isStr := m.opString(ops[0]); !isStr {
				m.find("dxmeta.named", "!llvm.ident entry operand is not a string")
			}
		}
	}
	// dx.shaderModel
	m.fire("dxmeta.shader-model")
	if n := m.namedMD("dx.shaderModel"); n == nil {
		m.find("dxmeta.named", "named metadata !dx.shaderModel missing")
	} else if len(n.ops) != 1 {
		m.find("dxmeta.shader-model", "!dx.shaderModel has %d operands, want 1", len(n.ops))
	} else if ops, ok := m.node(n.ops[0]); ok {
		if len(ops) != 3 {
			m.find("dxmeta.shader-model", "!dx.shaderModel node has %d operands, want {stage, major, minor}", len(ops))
		} else {
			s, ok1 := m.opString(ops[0])
			maj, ok2 := m.opInt(ops[1])
			min, ok3 := m.opInt(ops[2])
			if !ok1 || !ok2 || !ok3 {
				m.find("dxmeta.shader-model", "!dx.shaderModel operands are not {string, int, int}")
			} else if c.haveHeader {
				k, known := smStageKinds[s]
				if !known || k != c.kind || int(maj) != c.smMajor || int(min) != c.smMinor {
					m.find("dxmeta.shader-model", "!dx.shaderModel = {%q, %d, %d} but the program header says kind %d (%s) SM %d.%d", s, maj, min, c.kind, kindNames[c.kind], c.smMajor, c.smMinor)
				}
			}
		}
	}
	// dx.entryPoints
	m.fire("dxmeta.entry")
	ep := m.namedMD("dx.entryPoints")
	if ep == nil {
		m.find("dxmeta.named", "named metadata !dx.entryPoints missing")
		return
	}
	if c.kind != 6 && len(ep.ops) != 1 {
		m.find("dxmeta.entry", "!dx.entryPoints has %d entries, want 1 for a non-library shader", len(ep.ops))
	}
	if len(ep.ops) == 0 {
		return
	}
	ent, ok := m.node(ep.ops[0])
	if !ok {
		return
	}
	if len(ent) != 5 {
		m.find("dxmeta.entry", "entry point node has %d operands, want 5 {function, name, signatures, resources, properties}", len(ent))
		return
	}
	name, okName := m.opString(ent[1])
	if !okName {
		m.find("dxmeta.entry", "entry point name operand is not a string")
	}
	rep.EntryName = name
	if ent[0] == 0 {
		if c.kind != 6 {
			m.find("dxmeta.entry", "entry point function operand is null")
		}
	} else if ent[0]-1 < uint64(len(m.md)) {
		e := m.md[ent[0]-1]
		if e.kind != mdValue || e.valID >= uint64(len(m.values)) || m.values[e.valID].kind != vkFunction {
			m.find("dxmeta.entry", "entry point function operand does not refer to a function value")
		} else {
			fd := m.values[e.valID].fn
			if fd.isProto {
				m.find("dxmeta.entry", "entry point function %q is only declared (isproto=1), not defined in the module", fd.name)
			}
			if okName && fd.name != "" && fd.name != name {
				m.find("dxmeta.entry", "entry point name %q differs from the function's symbol name %q", name, fd.name)
			}
			if ft := m.ty(fd.fty); ft != nil && c.kind != 6 {
				if len(ft.fields) != 0 || m.ty(ft.elem) == nil || m.ty(ft.elem).kind != tVoid {
					m.find("dxmeta.entry", "entry point function has type %s, want void ()", m.tyString(fd.fty))
				}
			}
		}
	}
	if psvName := rep.PSV.EntryName; rep.PSV.Complete && rep.PSV.Version >= 3 && okName {
		m.fire("dxmeta.entry")
		if psvName != name {
			m.find("dxmeta.entry", "PSV0 EntryFunctionName %q differs from the entry point name %q", psvName, name)
		}
	}
	m.checkDxSignatures(ent[2])
	m.checkDxResources(ent[3])
	m.checkDxProperties(ent[4])
}

func (m *moduleChecker) checkDxSignatures(op uint64) {
	rep := m.rep
	var lists [3][]uint64
	if op != 0 {
		sig, ok := m.opNode(op)
		if !ok {
			return
		}
		m.fire("dxmeta.signature")
		if len(sig) != 3 {
			m.find("dxmeta.signature", "signatures node has %d operands, want 3 {input, output, patch-constant}", len(sig))
			return
		}
		for i := 0; i < 3; i++ {
			if sig[i] != 0 {
				l, ok := m.opNode(sig[i])
				if !ok {
					return
				}
				lists[i] = l
			}
		}
	}
	if !rep.PSV.Complete || rep.PSV.Version < 1 {
		return
	}
	names := [3]string{"input", "output", "patch-constant/primitive"}
	psvEls := [3][]PSVSigElement{rep.PSV.InputElems, rep.PSV.OutputElems, rep.PSV.PatchElems}
	counts := [3]int{rep.PSV.SigIn, rep.PSV.SigOut, rep.PSV.SigPatch}
	for i := 0; i < 3; i++ {
		m.fire("dxmeta.signature")
		if len(lists[i]) != counts[i] {
			m.find("dxmeta.signature", "entry point metadata has %d %s signature elements but PSV0 records %d", len(lists[i]), names[i], counts[i])
			continue
		}
		if len(psvEls[i]) != counts[i] {
			continue
		}
		for k, eop := range lists[i] {
			el, ok := m.opNode(eop)
			if !ok || len(el) < 10 {
				m.find("dxmeta.signature", "%s signature element %d is not a node of >= 10 operands", names[i], k)
				continue
			}
			kind, ok1 := m.opInt(el[3])
			rows, ok2 := m.opInt(el[6])
			cols, ok3 := m.opInt(el[7])
			srow, ok4 := m.opInt(el[8])
			scol, ok5 := m.opInt(el[9])
			if !(ok1 && ok2 && ok3 && ok4 && ok5) {
				continue
			}
			p := psvEls[i][k]
			semName, _ := m.opString(el[1])
			m.fire("dxmeta.signature")
			if int64(p.SemanticKind) != kind || int64(p.Rows) != rows || int64(p.Cols) != cols {
				m.find("dxmeta.signature", "%s signature element %d (%s): metadata kind/rows/cols = %d/%d/%d, PSV0 = %d/%d/%d", names[i], k, semName, kind, rows, cols, p.SemanticKind, p.Rows, p.Cols)
			}
			// i32 -1 start row / i8 -1 start col = not allocated
			alloc := int32(srow) >= 0
			if alloc != p.Allocated {
				m.find("dxmeta.signature", "%s signature element %d (%s): metadata start row %d but PSV0 allocated=%v", names[i], k, semName, int32(srow), p.Allocated)
			} else if alloc && (int64(p.StartRow) != srow || int64(p.StartCol) != int64(int8(scol))) {
				m.find("dxmeta.signature", "%s signature element %d (%s): metadata start row/col %d/%d, PSV0 %d/%d", names[i], k, semName, srow, scol, p.StartRow, p.StartCol)
			}
		}
	}
}

func (m *moduleChecker) checkDxResources(op uint64) {
	rep := m.rep
	classes := []string{"srv", "uav", "cbuffer", "sampler"}
	if op != 0 {
		res, ok := m.opNode(op)
		if !ok {
			return
		}
		m.fire("dxmeta.resources")
		if len(res) != 4 {
			m.find("dxmeta.resources", "resources node has %d operands, want 4 {SRVs, UAVs, CBuffers, Samplers}", len(res))
			return
		}
		for ci, lop := range res {
			if lop == 0 {
				continue
			}
			list, ok := m.opNode(lop)
			if !ok {
				continue
			}
			for k, rop := range list {
				r, ok := m.opNode(rop)
				m.fire("dxmeta.resources")
				if !ok || len(r) < 6 {
					m.find("dxmeta.resources", "%s record %d is not a node of >= 6 operands", classes[ci], k)
					continue
				}
				id, ok0 := m.opInt(r[0])
				nm, _ := m.opString(r[2])
				sp, ok1 := m.opInt(r[3])
				lb, ok2 := m.opInt(r[4])
				rs, ok3 := m.opInt(r[5])
				if !(ok0 && ok1 && ok2 && ok3) {
					m.find("dxmeta.resources", "%s record %d: id/space/lower-bound/range-size are not integer constants", classes[ci], k)
					continue
				}
				if id != int64(k) {
					m.find("dxmeta.resources", "%s record %d has resource id %d (ids are the zero-based index in the class list)", classes[ci], k, id)
				}
				if uint32(rs) == 0 {
					m.find("dxmeta.resources", "%s record %d (%s): range size 0", classes[ci], k, nm)
				}
				// symbol operand: a global value / constant of pointer type
				if r[1] != 0 && r[1]-1 < uint64(len(m.md)) {
					e := m.md[r[1]-1]
					if e.kind == mdValue && e.valTy >= 0 {
						if t := m.ty(e.valTy); t != nil && t.kind != tPointer {
							m.find("dxmeta.resources", "%s record %d (%s): global symbol operand has non-pointer type %s", classes[ci], k, nm, m.tyString(e.valTy))
						}
					}
				}
				rep.Resources = append(rep.Resources, ResourceMD{Class: classes[ci], ID: uint32(id), Name: nm, Space: uint32(sp), LowerBound: uint32(lb), RangeSize: uint32(rs)})
			}
		}
	}
	// overlap inside one class+space is a validator error
	for i := range rep.Resources {
		for j := i + 1; j < len(rep.Resources); j++ {
			a, b := rep.Resources[i], rep.Resources[j]
			if a.Class != b.Class || a.Space != b.Space {
				continue
			}
			m.fire("dxmeta.resource-overlap")
			ae, be := resUpper(a), resUpper(b)
			if a.LowerBound <= be && b.LowerBound <= ae {
				m.find("dxmeta.resource-overlap", "%s resources %q [%d,%d] and %q [%d,%d] overlap in space %d", a.Class, a.Name, a.LowerBound, ae, b.Name, b.LowerBound, be, a.Space)
			}
		}
	}
	if !rep.PSV.Complete {
		return
	}
	// agreement with PSV0
	key := func(class string, space, lo, hi uint32) string {
		return fmt.Sprintf("%s space=%d [%d,%d]", class, space, lo, hi)
	}
	var a, b []string
	for _, r := range rep.Resources {
		a = append(a, key(r.Class, r.Space, r.LowerBound, resUpper(r)))
	}
	for _, r := range rep.PSV.Resources {
		cl := "?"
		switch r.Type {
		case 1:
			cl = "sampler"
		case 2:
			cl = "cbuffer"
		case 3, 4, 5:
			cl = "srv"
		case 6, 7, 8, 9:
			cl = "uav"
		}
		b = append(b, key(cl, r.Space, r.Lower, r.Upper))
	}
	sort.Strings(a)
	sort.Strings(b)
	m.fire("dxmeta.resources")
	same := len(a) == len(b)
	for i := 0; same && i < len(a); i++ {
		same = a[i] == b[i]
	}
	if !same {
		m.find("dxmeta.resources", "resource bindings differ: metadata %v, PSV0 %v", a, b)
	}
}

func resUpper(r ResourceMD) uint32 {
	if r.RangeSize == 0xFFFFFFFF {
		return 0xFFFFFFFF
	}
	return r.LowerBound + r.RangeSize - 1
}

func (m *moduleChecker) checkDxProperties(op uint64) {
	rep := m.rep
	c := m.c
	var nt *[3]uint32
	if op != 0 {
		props, ok := m.opNode(op)
		if !ok {
			return
		}
		m.fire("dxmeta.entry")
		if len(props)%2 != 0 {
			m.find("dxmeta.entry", "entry point properties list has odd length %d (tag/value pairs)", len(props))
			return
		}
		for i := 0; i+1 < len(props); i += 2 {
			tag, ok := m.opInt(props[i])
			if !ok {
				m.find("dxmeta.entry", "entry point property tag %d is not an integer constant", i/2)
				continue
			}
			if tag == 4 { // kDxilNumThreadsTag
				m.fire("dxmeta.numthreads")
				v, ok := m.opNode(props[i+1])
				if !ok || len(v) != 3 {
					m.find("dxmeta.numthreads", "numthreads property is not a 3-operand node")
					continue
				}
				var t [3]uint32
				good := true
				for k := 0; k < 3; k++ {
					x, ok := m.opInt(v[k])
					if !ok {
						good = false
					}
					t[k] = uint32(x)
				}
				if !good {
					m.find("dxmeta.numthreads", "numthreads operands are not integer constants")
					continue
				}
				nt = &t
			}
		}
	}
	if c.kind == 5 {
		m.fire("dxmeta.numthreads")
		if nt == nil {
			m.find("dxmeta.numthreads", "compute shader entry point without numthreads property (tag 4)")
			return
		}
		if nt[0] == 0 || nt[1] == 0 || nt[2] == 0 || nt[0] > 1024 || nt[1] > 1024 || nt[2] > 64 || uint64(nt[0])*uint64(nt[1])*uint64(nt[2]) > 1024 {
			m.find("dxmeta.numthreads", "numthreads %v outside the D3D limits (x,y<=1024, z<=64, product<=1024)", *nt)
		}
		if rep.PSV.Complete && rep.PSV.HasNumThreads && rep.PSV.NumThreads != *nt {
			m.find("dxmeta.numthreads", "metadata numthreads %v but PSV0 numthreads %v", *nt, rep.PSV.NumThreads)
		}
		if c.e.NumThreads != nil && *c.e.NumThreads != *nt {
			m.find("dxmeta.numthreads", "metadata numthreads %v, expected %v", *nt, *c.e.NumThreads)
		}
	}
}
