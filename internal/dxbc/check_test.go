package dxbc

import (
	"encoding/binary"
	"strings"
	"testing"

	"github.com/gogpu/naga/dxil"
	"github.com/gogpu/naga/ir"
)

const baseWGSL = `
@group(0) @binding(0) var<storage, read_write> out: array<u32>;
@group(0) @binding(1) var<uniform> u: vec4<u32>;
var<workgroup> w: array<u32, 4>;
fn helper(x: u32, y: u32) -> u32 {
  var r = x;
  for (var i = 0u; i < y; i++) { if (r > 100u) { break; } r = r * 3u + i; }
  return r;
}
@compute @workgroup_size(4, 2, 1)
fn main(@builtin(local_invocation_index) li: u32, @builtin(global_invocation_id) gid: vec3<u32>) {
  var acc = 0u;
  switch gid.x { case 0u: { acc = 1u; } case 1u: { acc = helper(gid.y, u.x); } case 2u: { acc = 7u; } default: { acc = u.y; } }
  w[li & 3u] = acc;
  workgroupBarrier();
  out[gid.x] = w[(li + 1u) & 3u] + acc;
}
`

const vsfsWGSL = `
struct VOut { @builtin(position) pos: vec4<f32>, @location(0) uv: vec2<f32>, @location(1) @interpolate(flat) id: u32 }
@vertex fn vs(@location(0) p: vec3<f32>, @location(1) uv: vec2<f32>, @builtin(vertex_index) vi: u32) -> VOut {
  return VOut(vec4<f32>(p, 1.0), uv, vi);
}
@fragment fn fs(v: VOut) -> @location(0) vec4<f32> { return vec4<f32>(v.uv, f32(v.id), 1.0); }
`

func compileWGSL(t testing.TB, src string, epIndex int, o dxil.Options) ([]byte, ir.EntryPoint) {
	t.Helper()
	m, err := lowerWGSL(src)
	if err != nil {
		t.Fatalf("lower: %v", err)
	}
	single := *m
	single.EntryPoints = []ir.EntryPoint{m.EntryPoints[epIndex]}
	b, err := dxil.Compile(&single, o)
	if err != nil {
		t.Fatalf("dxil.Compile: %v", err)
	}
	return b, m.EntryPoints[epIndex]
}

func baseContainer(t testing.TB) []byte {
	b, _ := compileWGSL(t, baseWGSL, 0, dxil.DefaultOptions())
	return b
}

var baseExpect = Expect{Stage: "compute", SMMajor: 6, SMMinor: 0, AllowSMUpgrade: true, NumThreads: &[3]uint32{4, 2, 1}}

func rulesOf(r *Report) string {
	var s []string
	for _, f := range r.Findings {
		s = append(s, f.Rule+": "+f.Detail)
	}
	return strings.Join(s, "\n  ")
}

func wantRule(t *testing.T, r *Report, rule string) {
	t.Helper()
	for _, f := range r.Findings {
		if f.Rule == rule {
			return
		}
	}
	t.Errorf("rule %s did not fire; findings:\n  %s", rule, rulesOf(r))
}

func wantClean(t *testing.T, r *Report) {
	t.Helper()
	if len(r.Findings) != 0 {
		t.Errorf("unexpected findings:\n  %s", rulesOf(r))
	}
}

func TestBaseClean(t *testing.T) {
	b := baseContainer(t)
	r := Check(b, baseExpect)
	wantClean(t, r)
	if r.Stage != "compute" || r.SMMajor != 6 || r.Bitcode == nil || r.Bitcode.FunctionBodies < 1 || !r.PSV.Present {
		t.Errorf("report incomplete: %+v", r)
	}
	if len(r.Resources) != 2 || len(r.PSV.Resources) != 2 {
		t.Errorf("resources: md %v psv %v", r.Resources, r.PSV.Resources)
	}
	t.Logf("parts %v; bitcode %+v", r.Parts, *r.Bitcode)
	// the test writer round-trips
	bc := getBitcode(b)
	b2 := withBitcode(b, writeBitcode(parseTree(bc)))
	wantClean(t, Check(b2, baseExpect))
	// bypass mode
	bb, _ := compileWGSL(t, baseWGSL, 0, dxil.Options{ShaderModel: dxil.SM6_2, UseBypassHash: true})
	e := baseExpect
	e.BypassHash = true
	e.SMMinor = 2
	wantClean(t, Check(bb, e))
	wantRule(t, Check(b, e), "digest.container")
	wantRule(t, Check(b, e), "program.sm")
	// graphics
	for i, st := range []string{"vertex", "fragment"} {
		g, _ := compileWGSL(t, vsfsWGSL, i, dxil.DefaultOptions())
		r := Check(g, Expect{Stage: st, SMMajor: 6})
		wantClean(t, r)
		if len(r.Signature.Input) == 0 || len(r.Signature.Output) == 0 {
			t.Errorf("%s: signatures not decoded: %+v", st, r.Signature)
		}
		t.Logf("%s: in %+v out %+v", st, r.Signature.Input, r.Signature.Output)
	}
}

func TestNeverPanics(t *testing.T) {
	b := baseContainer(t)
	for n := 0; n <= len(b); n += 7 {
		Check(b[:n], baseExpect)
	}
	for i := 0; i < len(b); i += 3 {
		c := append([]byte(nil), b...)
		c[i] ^= 0xA5
		r := Check(c, baseExpect)
		if r.Fired["internal.panic"] != 0 {
			t.Fatalf("panic with byte %d flipped: %s", i, rulesOf(r))
		}
		if len(r.Findings) == 0 {
			t.Fatalf("byte %d flipped but no finding (digest must at least fail)", i)
		}
	}
	Check(nil, Expect{})
	// cyclic type tables must not send the structural comparisons into unbounded recursion
	top := parseTree(getBitcode(b))
	mod := moduleOf(top)
	tb := mod.blocks(blkTypeNew)[0]
	n := 0
	for _, r := range tb.records() {
		if r.Code != 1 && r.Code != 19 {
			n++
		}
	}
	k := 0
	for _, r := range tb.records() {
		switch r.Code {
		case 8:
			r.Ops[0] = uint64((k + 1) % n)
		case 12, 11:
			r.Ops[1] = uint64((k + 1) % n)
		case 18, 20:
			for i := 1; i < len(r.Ops); i++ {
				r.Ops[i] = uint64((k + i) % n)
			}
		}
		if r.Code != 1 && r.Code != 19 {
			k++
		}
	}
	r := Check(withBitcode(b, writeBitcode(top)), baseExpect)
	if len(r.Findings) == 0 || r.Fired["internal.panic"] != 0 {
		t.Errorf("cyclic types: %s", rulesOf(r))
	}
	// DECLAREBLOCKS far larger than the body
	top = parseTree(getBitcode(b))
	fb := moduleOf(top).blocks(blkFunction)[0]
	fb.records()[0].Ops[0] = 1 << 40
	wantRule(t, Check(withBitcode(b, writeBitcode(top)), baseExpect), "func.terminators")
}

var _ = binary.LittleEndian

// ---- container / digest / program header mutations ----

func patched(b []byte, f func(c []byte)) []byte {
	c := append([]byte(nil), b...)
	f(c)
	return c
}

func partOffset(b []byte, fc string) int {
	n := int(le32(b, 28))
	for i := 0; i < n; i++ {
		off := int(le32(b, 32+4*i))
		if string(b[off:off+4]) == fc {
			return off
		}
	}
	return -1
}

func put32(b []byte, off int, v uint32) { binary.LittleEndian.PutUint32(b[off:], v) }

func TestContainerMutations(t *testing.T) {
	b := baseContainer(t)
	cases := []struct {
		name, rule string
		mut        func(c []byte)
	}{
		{"magic", "container.magic", func(c []byte) { c[0] = 'X' }},
		{"version", "container.version", func(c []byte) { c[20] = 2; resign(c) }},
		{"size field +4", "container.size", func(c []byte) { put32(c, 24, le32(c, 24)+4); resign(c) }},
		{"size field -4", "container.size", func(c []byte) { put32(c, 24, le32(c, 24)-4); resign(c) }},
		{"part count", "container.part-table", func(c []byte) { put32(c, 28, 0x10000000); resign(c) }},
		{"swap offsets", "container.part-order", func(c []byte) {
			a, d := le32(c, 32), le32(c, 36)
			put32(c, 32, d)
			put32(c, 36, a)
			resign(c)
		}},
		{"offset into table", "container.part-bounds", func(c []byte) { put32(c, 32, 36); resign(c) }},
		{"offset past end", "container.part-bounds", func(c []byte) { put32(c, 32, uint32(len(c)-4)); resign(c) }},
		{"part size past end", "container.part-bounds", func(c []byte) { o := partOffset(c, "DXIL"); put32(c, o+4, le32(c, o+4)+8); resign(c) }},
		{"part size short (gap)", "container.part-contiguous", func(c []byte) { o := partOffset(c, "SFI0"); put32(c, o+4, 4); resign(c) }},
		{"unaligned part", "container.part-align", func(c []byte) { o := partOffset(c, "DXIL"); put32(c, o+4, le32(c, o+4)-1); resign(c) }},
		{"unknown fourCC", "container.fourcc", func(c []byte) { o := partOffset(c, "SFI0"); copy(c[o:], "ZZZZ"); resign(c) }},
		{"duplicate part", "container.part-unique", func(c []byte) { o := partOffset(c, "OSG1"); copy(c[o:], "ISG1"); resign(c) }},
		{"no DXIL", "container.dxil-unique", func(c []byte) { o := partOffset(c, "DXIL"); copy(c[o:], "PRIV"); resign(c) }},
		{"no PSV0", "container.required-parts", func(c []byte) { o := partOffset(c, "PSV0"); copy(c[o:], "PRIV"); resign(c) }},
		{"digest bit", "digest.container", func(c []byte) { c[7] ^= 0x10 }},
		{"payload bit, digest stale", "digest.container", func(c []byte) { c[len(c)-1] ^= 1 }},
		{"HASH digest", "digest.hash-part", func(c []byte) { o := partOffset(c, "HASH"); c[o+8+6] ^= 1; resign(c) }},
		{"HASH flags", "digest.hash-part", func(c []byte) { o := partOffset(c, "HASH"); c[o+8] = 4; resign(c) }},
		{"SFI0 size", "sfi0.size", func(c []byte) {}},
		{"program kind", "program.kind", func(c []byte) { o := partOffset(c, "DXIL") + 8; put32(c, o, le32(c, o)&0xFFFF|1<<16); resign(c) }},
		{"program kind unknown", "program.kind", func(c []byte) { o := partOffset(c, "DXIL") + 8; put32(c, o, le32(c, o)&0xFFFF|77<<16); resign(c) }},
		{"program SM major", "program.sm", func(c []byte) { o := partOffset(c, "DXIL") + 8; put32(c, o, le32(c, o)&^0xF0|0x50); resign(c) }},
		{"program size words", "program.size-words", func(c []byte) { o := partOffset(c, "DXIL") + 8; put32(c, o+4, le32(c, o+4)-1); resign(c) }},
		{"program magic", "program.magic", func(c []byte) { o := partOffset(c, "DXIL") + 8; c[o+8] = 'd'; resign(c) }},
		{"dxil version", "program.dxil-version", func(c []byte) { o := partOffset(c, "DXIL") + 8; put32(c, o+12, 0x103); resign(c) }},
		{"bitcode offset", "program.bitcode-offset", func(c []byte) { o := partOffset(c, "DXIL") + 8; put32(c, o+16, 20); resign(c) }},
		{"bitcode size", "program.bitcode-size", func(c []byte) { o := partOffset(c, "DXIL") + 8; put32(c, o+20, le32(c, o+20)+4); resign(c) }},
		{"STAT differs", "program.kind", func(c []byte) { o := partOffset(c, "STAT") + 8; put32(c, o, le32(c, o)&0xFFFF|1<<16); resign(c) }},
		{"bitcode magic", "bitstream.magic", func(c []byte) { o := partOffset(c, "DXIL") + 8 + 24; c[o+2] = 0xC1; resign(c) }},
	}
	for _, tc := range cases {
		if tc.name == "SFI0 size" {
			fcs, datas := splitContainer(b)
			for i := range fcs {
				if fcs[i] == "SFI0" {
					datas[i] = datas[i][:4]
				}
			}
			wantRuleT(t, tc.name, Check(buildContainer(fcs, datas), baseExpect), tc.rule)
			continue
		}
		wantRuleT(t, tc.name, Check(patched(b, tc.mut), baseExpect), tc.rule)
	}
	// requested SM / stage mismatches
	e := baseExpect
	e.Stage = "vertex"
	wantRuleT(t, "expect stage", Check(b, e), "program.kind")
	e = baseExpect
	e.SMMinor = 5
	wantRuleT(t, "expect SM higher than emitted", Check(b, e), "program.sm")
	e = baseExpect
	e.NumThreads = &[3]uint32{1, 1, 1}
	wantRuleT(t, "expect numthreads", Check(b, e), "dxmeta.numthreads")
	wantRuleT(t, "expect numthreads", Check(b, e), "psv.numthreads")
}

func wantRuleT(t *testing.T, name string, r *Report, rule string) {
	t.Helper()
	for _, f := range r.Findings {
		if f.Rule == rule {
			return
		}
	}
	t.Errorf("%s: rule %s did not fire; findings:\n  %s", name, rule, rulesOf(r))
}

// ---- bitstream mutations ----

func setBits(bc []byte, pos uint64, n int, v uint64) {
	for i := 0; i < n; i++ {
		byteIx, bit := (pos+uint64(i))>>3, (pos+uint64(i))&7
		bc[byteIx] &^= 1 << bit
		if v>>uint(i)&1 != 0 {
			bc[byteIx] |= 1 << bit
		}
	}
}

func TestBitstreamMutations(t *testing.T) {
	b := baseContainer(t)
	bc := getBitcode(b)
	top := parseTree(bc)
	mod := moduleOf(top)
	if mod == nil {
		t.Fatal("no module")
	}
	check := func(name, rule string, nbc []byte) {
		t.Helper()
		wantRuleT(t, name, Check(withBitcode(b, nbc), baseExpect), rule)
	}
	// truncate the bitcode by 4 bytes
	check("truncate 4", "bitstream.eof", bc[:len(bc)-4])
	check("truncate to 2 mod 4", "bitstream.trailing", bc[:len(bc)-2])
	// append garbage
	check("trailing word", "bitstream.trailing", append(append([]byte(nil), bc...), 0xFF, 0xFF, 0xFF, 0xFF))
	// shorten / lengthen the module block length word (at byte 8: magic, then 2+8+4 bits header, aligned)
	if le32(bc, 8) != mod.LenWords {
		t.Fatalf("length word not where expected")
	}
	check("module length -1", "bitstream.block-length", patched(bc, func(c []byte) { put32(c, 8, le32(c, 8)-1) }))
	check("module length +1", "bitstream.block-length", patched(bc, func(c []byte) { put32(c, 8, le32(c, 8)+1) }))
	// nested block length word
	var fn *bsBlock
	for _, x := range mod.blocks(blkFunction) {
		fn = x
	}
	lenPos := int(fn.BodyBit/8) - 4
	if le32(bc, lenPos) != fn.LenWords {
		t.Fatalf("function length word not where expected")
	}
	check("function length -1", "bitstream.block-length", patched(bc, func(c []byte) { put32(c, lenPos, le32(c, lenPos)-1) }))
	// an undefined abbreviation id on the first record of the function block
	rec := fn.records()[0]
	check("undefined abbrev id", "bitstream.abbrev-id", patched(bc, func(c []byte) { setBits(c, rec.BitPos, fn.AbbrevWidth, 5) }))
	// abbrev width 0 in ENTER_SUBBLOCK of the function block: header = id(parent width) + vbr8 blockid + vbr4 width
	check("abbrev width 0", "bitstream.abbrev-width", patched(bc, func(c []byte) { setBits(c, fn.StartBit+uint64(mod.AbbrevWidth)+8, 4, 0) }))
	// END_BLOCK replaced by a record start: stream no longer closes
	check("missing END_BLOCK", "bitstream.eof", func() []byte {
		w := &bitWriter{buf: []byte{'B', 'C', 0xC0, 0xDE}}
		w.fixed(1, 2)
		w.vbr(8, 8)
		w.vbr(3, 4)
		w.align32()
		w.fixed(1, 32)
		w.fixed(3, 3)
		w.vbr(1, 6)
		w.vbr(1, 6)
		w.vbr(1, 6)
		w.fixed(3, 3) // a second record that never completes
		w.vbr(1, 6)
		w.fixed(0x1F, 5)
		return w.buf[:8+4+4]
	}())

	// hand-written streams for abbreviation rules
	hdr := func(w *bitWriter, id uint64, width int, parentWidth int) int {
		w.fixed(1, parentWidth)
		w.vbr(id, 8)
		w.vbr(uint64(width), 4)
		w.align32()
		p := len(w.buf)
		w.fixed(0, 32)
		return p
	}
	end := func(w *bitWriter, lenPos, width int) {
		w.fixed(0, width)
		w.align32()
		put32(w.buf, lenPos, uint32((len(w.buf)-lenPos-4)/4))
	}
	stream := func(body func(w *bitWriter)) []byte {
		w := &bitWriter{buf: []byte{'B', 'C', 0xC0, 0xDE}}
		p := hdr(w, 8, 3, 2)
		body(w)
		end(w, p, 3)
		return w.buf
	}
	parse := func(bc []byte) *Report {
		rep := &Report{Fired: map[string]int{}}
		p := &bsParser{rep: rep}
		p.r.data = bc
		topb := p.parseStream()
		if !p.fatal {
			p.checkNesting(topb)
		}
		return rep
	}
	// good: [literal 1, fixed(3), vbr(4), array, char6]
	good := stream(func(w *bitWriter) {
		w.fixed(2, 3) // DEFINE_ABBREV
		w.vbr(5, 5)
		w.fixed(1, 1)
		w.vbr(1, 8) // literal 1
		w.fixed(0, 1)
		w.fixed(encFixed, 3)
		w.vbr(3, 5)
		w.fixed(0, 1)
		w.fixed(encVBR, 3)
		w.vbr(4, 5)
		w.fixed(0, 1)
		w.fixed(encArray, 3)
		w.fixed(0, 1)
		w.fixed(encChar6, 3)
		w.fixed(4, 3) // use abbrev 4
		w.fixed(5, 3)
		w.vbr(1000, 4)
		w.vbr(3, 6)
		w.fixed(0, 6)
		w.fixed(26, 6)
		w.fixed(63, 6)
	})
	rg := &Report{Fired: map[string]int{}}
	pg := &bsParser{rep: rg}
	pg.r.data = good
	tg := pg.parseStream()
	if len(rg.Findings) != 0 || len(tg) != 1 || len(tg[0].records()) != 1 {
		t.Fatalf("good abbrev stream: %v", rg.Findings)
	}
	if r := tg[0].records()[0]; r.Code != 1 || len(r.Ops) != 5 || r.Ops[0] != 5 || r.Ops[1] != 1000 || r.Ops[2] != 'a' || r.Ops[3] != 'A' || r.Ops[4] != '_' {
		t.Fatalf("abbreviated record decoded as code %d ops %v", r.Code, r.Ops)
	}
	defAbbrev := func(ops ...[2]uint64) func(w *bitWriter) { // {encoding or 0 for literal, value}
		return func(w *bitWriter) {
			w.fixed(2, 3)
			w.vbr(uint64(len(ops)), 5)
			for _, o := range ops {
				if o[0] == 0 {
					w.fixed(1, 1)
					w.vbr(o[1], 8)
					continue
				}
				w.fixed(0, 1)
				w.fixed(o[0], 3)
				if o[0] == encFixed || o[0] == encVBR {
					w.vbr(o[1], 5)
				}
			}
		}
	}
	for _, tc := range []struct {
		name string
		ops  [][2]uint64
	}{
		{"array last", [][2]uint64{{0, 1}, {encArray, 0}}},
		{"array not second to last", [][2]uint64{{0, 1}, {encArray, 0}, {encFixed, 3}, {encFixed, 3}}},
		{"blob not last", [][2]uint64{{0, 1}, {encBlob, 0}, {encFixed, 3}}},
		{"array of array", [][2]uint64{{0, 1}, {encArray, 0}, {encArray, 0}}},
		{"array of literal", [][2]uint64{{0, 1}, {encArray, 0}, {0, 7}}},
		{"no operands", nil},
		{"starts with array", [][2]uint64{{encArray, 0}, {encFixed, 3}}},
		{"fixed width 65", [][2]uint64{{0, 1}, {encFixed, 65}}},
		{"vbr width 1", [][2]uint64{{0, 1}, {encVBR, 1}}},
		{"unknown encoding", [][2]uint64{{0, 1}, {6, 0}}},
	} {
		wantRuleT(t, "define-abbrev "+tc.name, parse(stream(defAbbrev(tc.ops...))), "bitstream.define-abbrev")
	}
	// BLOCKINFO: abbreviation applies to later blocks of that id; DEFINE_ABBREV before SETBID is an error
	bi := func(setbid bool) []byte {
		return stream(func(w *bitWriter) {
			p := hdr(w, 0, 2, 3)
			if setbid {
				w.fixed(3, 2)
				w.vbr(1, 6)
				w.vbr(1, 6)
				w.vbr(17, 6)
			}
			w.fixed(2, 2)
			w.vbr(2, 5)
			w.fixed(1, 1)
			w.vbr(7, 8)
			w.fixed(0, 1)
			w.fixed(encFixed, 3)
			w.vbr(8, 5)
			end(w, p, 2)
			q := hdr(w, 17, 3, 3)
			w.fixed(4, 3)
			w.fixed(32, 8)
			end(w, q, 3)
		})
	}
	if r := parse(bi(true)); len(r.Findings) != 0 {
		t.Errorf("BLOCKINFO abbreviation not applied: %s", rulesOf(r))
	}
	wantRuleT(t, "abbrev before SETBID", parse(bi(false)), "bitstream.blockinfo")
	// nesting
	wantRuleT(t, "TYPE block at top level", parse(func() []byte {
		w := &bitWriter{buf: []byte{'B', 'C', 0xC0, 0xDE}}
		p := hdr(w, 17, 3, 2)
		end(w, p, 3)
		return w.buf
	}()), "bitstream.nesting")
	wantRuleT(t, "FUNCTION inside TYPE", parse(stream(func(w *bitWriter) {
		p := hdr(w, 17, 3, 3)
		q := hdr(w, 12, 3, 3)
		end(w, q, 3)
		end(w, p, 3)
	})), "bitstream.nesting")
	wantRuleT(t, "record at top level", parse(append(append([]byte(nil), good...), 0x03, 0, 0, 0)), "bitstream.trailing")
	wantRuleT(t, "array length beyond stream", parse(stream(func(w *bitWriter) {
		defAbbrev([2]uint64{0, 1}, [2]uint64{encArray, 0}, [2]uint64{encFixed, 8})(w)
		w.fixed(4, 3)
		w.vbr(1<<30, 6)
	})), "bitstream.record")
}

// ---- module / function mutations through the tree ----

func strOps(s string) []uint64 {
	o := make([]uint64, len(s))
	for i := range s {
		o[i] = uint64(s[i])
	}
	return o
}

func opsStr(o []uint64) string {
	b := make([]byte, len(o))
	for i := range o {
		b[i] = byte(o[i])
	}
	return string(b)
}

func TestModuleMutations(t *testing.T) {
	b := baseContainer(t)
	bc := getBitcode(b)
	type mutFn func(mod *bsBlock) bool // returns false if the construct was not found
	firstRec := func(blk *bsBlock, code uint64, nth int) *bsRecord {
		for _, r := range blk.records() {
			if r.Code == code {
				if nth == 0 {
					return r
				}
				nth--
			}
		}
		return nil
	}
	lastFn := func(mod *bsBlock) *bsBlock { x := mod.blocks(blkFunction); return x[len(x)-1] }
	mdBlock := func(mod *bsBlock) *bsBlock { return mod.blocks(blkMetadata)[0] }
	cases := []struct {
		name, rule string
		mut        mutFn
	}{
		{"VERSION 0", "module.version", func(m *bsBlock) bool { firstRec(m, 1, 0).Ops[0] = 0; return true }},
		{"NUMENTRY +1", "module.type-table", func(m *bsBlock) bool { firstRec(m.blocks(blkTypeNew)[0], 1, 0).Ops[0]++; return true }},
		{"pointer to out-of-range type", "module.type-ref", func(m *bsBlock) bool { firstRec(m.blocks(blkTypeNew)[0], 8, 0).Ops[0] = 9999; return true }},
		{"forward ref to non-struct", "module.type-ref", func(m *bsBlock) bool {
			tb := m.blocks(blkTypeNew)[0]
			n := firstRec(tb, 1, 0).Ops[0]
			firstRec(tb, 8, 0).Ops[0] = n - 1
			return true
		}},
		{"pointer to void", "module.type-table", func(m *bsBlock) bool {
			tb := m.blocks(blkTypeNew)[0]
			idx := uint64(0)
			for _, r := range tb.records() {
				if r.Code == 1 || r.Code == 19 {
					continue
				}
				if r.Code == 2 {
					firstRec(tb, 8, 0).Ops[0] = idx
					return true
				}
				idx++
			}
			return false
		}},
		{"FUNCTION type not a function", "module.function-decl", func(m *bsBlock) bool {
			tb := m.blocks(blkTypeNew)[0]
			idx := uint64(0)
			for _, r := range tb.records() {
				if r.Code == 1 || r.Code == 19 {
					continue
				}
				if r.Code == 7 {
					firstRec(m, 8, 0).Ops[0] = idx
					return true
				}
				idx++
			}
			return false
		}},
		{"FUNCTION type out of range", "module.type-ref", func(m *bsBlock) bool { firstRec(m, 8, 0).Ops[0] = 5000; return true }},
		{"FUNCTION paramattr out of range", "module.paramattr", func(m *bsBlock) bool { firstRec(m, 8, 0).Ops[4] = 77; return true }},
		{"GLOBALVAR type out of range", "module.type-ref", func(m *bsBlock) bool { firstRec(m, 7, 0).Ops[0] = 5000; return true }},
		{"GLOBALVAR initializer out of range", "module.global", func(m *bsBlock) bool { firstRec(m, 7, 0).Ops[2] = 100000; return true }},
		{"SETTYPE out of range", "module.type-ref", func(m *bsBlock) bool { firstRec(m.blocks(blkConstants)[0], 1, 0).Ops[0] = 4000; return true }},
		{"FLOAT under integer type", "module.constants", func(m *bsBlock) bool {
			firstRec(m.blocks(blkConstants)[0], 4, 0).Code = 6
			return true
		}},
		{"constant operand out of range", "module.constants", func(m *bsBlock) bool {
			cb := m.blocks(blkConstants)[0]
			cb.Items = append(cb.Items, bsItem{Rec: &bsRecord{Code: 10, Ops: []uint64{0, 100000, 100001}}})
			return true
		}},
		{"metadata node operand out of range", "module.metadata", func(m *bsBlock) bool { r := firstRec(mdBlock(m), 3, 1); r.Ops[0] = 10000; return true }},
		{"named node operand out of range", "module.metadata", func(m *bsBlock) bool { firstRec(mdBlock(m), 10, 1).Ops[0] = 10000; return true }},
		{"named node operand is a string", "module.metadata", func(m *bsBlock) bool { firstRec(mdBlock(m), 10, 1).Ops[0] = 0; return true }},
		{"METADATA_VALUE value out of range", "module.metadata", func(m *bsBlock) bool { firstRec(mdBlock(m), 2, 0).Ops[1] = 10000; return true }},
		{"METADATA_VALUE type out of range", "module.type-ref", func(m *bsBlock) bool { firstRec(mdBlock(m), 2, 0).Ops[0] = 10000; return true }},
		{"METADATA_VALUE wrong type", "module.metadata", func(m *bsBlock) bool {
			// retarget an i32 metadata value at a function (value id 0 is a global value)
			firstRec(mdBlock(m), 2, 0).Ops[1] = 0
			return true
		}},
		{"NAME without NAMED_NODE", "module.metadata", func(m *bsBlock) bool { firstRec(mdBlock(m), 10, 0).Code = 3; return true }},
		{"duplicate KIND", "module.metadata-kind", func(m *bsBlock) bool {
			kb := m.blocks(blkMetadata)[1]
			firstRec(kb, 6, 1).Ops[0] = firstRec(kb, 6, 0).Ops[0]
			return true
		}},
		{"dx.shaderModel renamed", "dxmeta.named", func(m *bsBlock) bool {
			for _, r := range mdBlock(m).records() {
				if r.Code == 4 && opsStr(r.Ops) == "dx.shaderModel" {
					r.Ops = strOps("dx.shaderModeX")
					return true
				}
			}
			return false
		}},
		{"shader model stage string", "dxmeta.shader-model", func(m *bsBlock) bool {
			for _, r := range mdBlock(m).records() {
				if r.Code == 1 && opsStr(r.Ops) == "cs" {
					r.Ops = strOps("ps")
					return true
				}
			}
			return false
		}},
		{"entry point name", "dxmeta.entry", func(m *bsBlock) bool {
			for _, r := range mdBlock(m).records() {
				if r.Code == 1 && opsStr(r.Ops) == "main" {
					r.Ops = strOps("niam")
					return true
				}
			}
			return false
		}},
		{"VST value id out of range", "module.vst", func(m *bsBlock) bool { firstRec(m.blocks(blkValueSymtab)[0], 1, 0).Ops[0] = 5000; return true }},
		{"function block dropped", "module.function-count", func(m *bsBlock) bool {
			for i, it := range m.Items {
				if it.Blk != nil && it.Blk.ID == blkFunction {
					m.Items = append(m.Items[:i:i], m.Items[i+1:]...)
					return true
				}
			}
			return false
		}},
		{"TYPE block inside FUNCTION", "bitstream.nesting", func(m *bsBlock) bool {
			f := lastFn(m)
			f.Items = append(f.Items, bsItem{Blk: &bsBlock{ID: blkTypeNew, AbbrevWidth: 3}})
			return true
		}},
		// function body
		{"DECLAREBLOCKS 0", "func.declareblocks", func(m *bsBlock) bool { firstRec(lastFn(m), 1, 0).Ops[0] = 0; return true }},
		{"DECLAREBLOCKS +1", "func.terminators", func(m *bsBlock) bool { firstRec(lastFn(m), 1, 0).Ops[0]++; return true }},
		{"DECLAREBLOCKS -1", "func.terminators", func(m *bsBlock) bool { firstRec(lastFn(m), 1, 0).Ops[0]--; return true }},
		{"DECLAREBLOCKS removed", "func.declareblocks", func(m *bsBlock) bool {
			f := lastFn(m)
			for i, it := range f.Items {
				if it.Rec != nil && it.Rec.Code == 1 {
					f.Items = append(f.Items[:i:i], f.Items[i+1:]...)
					return true
				}
			}
			return false
		}},
		{"last terminator removed", "func.terminators", func(m *bsBlock) bool {
			f := lastFn(m)
			for i := len(f.Items) - 1; i >= 0; i-- {
				if r := f.Items[i].Rec; r != nil && isTerminator(r.Code) {
					f.Items = append(f.Items[:i:i], f.Items[i+1:]...)
					return true
				}
			}
			return false
		}},
		{"binop operand far forward", "func.operand", func(m *bsBlock) bool { firstRec(lastFn(m), 2, 0).Ops[1] = uint64(uint32(0xFFFFFC00)); return true }},
		{"binop operand before value 0", "func.operand", func(m *bsBlock) bool { firstRec(lastFn(m), 2, 0).Ops[1] = 100000; return true }},
		{"binop opcode", "func.type-check", func(m *bsBlock) bool { firstRec(lastFn(m), 2, 0).Ops[2] = 13; return true }},
		{"call argument out of range", "func.operand", func(m *bsBlock) bool { r := firstRec(lastFn(m), 34, 0); r.Ops[len(r.Ops)-1] = 100000; return true }},
		{"call with a missing argument", "func.record", func(m *bsBlock) bool { r := firstRec(lastFn(m), 34, 0); r.Ops = r.Ops[:len(r.Ops)-1]; return true }},
		{"call with an extra argument", "func.record", func(m *bsBlock) bool { r := firstRec(lastFn(m), 34, 0); r.Ops = append(r.Ops, 1); return true }},
		{"call explicit type out of range", "func.type-ref", func(m *bsBlock) bool { firstRec(lastFn(m), 34, 0).Ops[2] = 9000; return true }},
		{"call argument of the wrong type", "func.type-check", func(m *bsBlock) bool {
			// second call's first argument (an i32 opcode constant) redirected at the previous call's result (a handle)
			r := firstRec(lastFn(m), 34, 1)
			r.Ops[4] = 1
			return true
		}},
		{"br to undeclared block", "func.block-ref", func(m *bsBlock) bool { firstRec(lastFn(m), 11, 0).Ops[0] = 500; return true }},
		{"phi incoming block", "func.block-ref", func(m *bsBlock) bool { firstRec(lastFn(m), 16, 0).Ops[2] = 500; return true }},
		{"phi type out of range", "func.type-ref", func(m *bsBlock) bool { firstRec(lastFn(m), 16, 0).Ops[0] = 9000; return true }},
		{"phi from a non-predecessor", "func.ssa", func(m *bsBlock) bool { firstRec(lastFn(m), 16, 0).Ops[2] = 0; return true }},
		{"phi incoming value out of range", "func.operand", func(m *bsBlock) bool { firstRec(lastFn(m), 16, 0).Ops[1] = 20001; return true }},
		{"use before def in the same block", "func.ssa", func(m *bsBlock) bool {
			// first binop's second operand := the value the binop itself defines + 1 (relative -1 with implied type)
			firstRec(lastFn(m), 2, 0).Ops[1] = uint64(uint32(0xFFFFFFFF))
			return true
		}},
		{"gep type out of range", "func.type-ref", func(m *bsBlock) bool { firstRec(lastFn(m), 43, 0).Ops[1] = 9000; return true }},
		{"gep source type mismatch", "func.type-check", func(m *bsBlock) bool { firstRec(lastFn(m), 43, 0).Ops[1] = 0; return true }},
		{"store value type", "func.type-check", func(m *bsBlock) bool {
			r := firstRec(lastFn(m), 44, 0)
			r.Ops[1] = r.Ops[0] // store the pointer into itself
			return true
		}},
		{"load explicit type", "func.type-check", func(m *bsBlock) bool { firstRec(lastFn(m), 20, 0).Ops[1]++; return true }},
		{"load record short", "func.record", func(m *bsBlock) bool { r := firstRec(lastFn(m), 20, 0); r.Ops = r.Ops[:2]; return true }},
		{"cmp predicate", "func.type-check", func(m *bsBlock) bool { firstRec(lastFn(m), 28, 0).Ops[2] = 3; return true }},
		{"unknown instruction code", "func.record", func(m *bsBlock) bool { firstRec(lastFn(m), 2, 0).Code = 60; return true }},
		{"instruction after last terminator", "func.terminators", func(m *bsBlock) bool {
			f := lastFn(m)
			f.Items = append(f.Items, bsItem{Rec: &bsRecord{Code: 15}})
			return true
		}},
		{"function-level VST", "func.vst", func(m *bsBlock) bool {
			f := lastFn(m)
			f.Items = append(f.Items, bsItem{Blk: &bsBlock{ID: blkValueSymtab, AbbrevWidth: 3, Items: []bsItem{{Rec: &bsRecord{Code: 2, Ops: []uint64{400, 'x'}}}}}})
			return true
		}},
		{"metadata attachment", "func.md-attachment", func(m *bsBlock) bool {
			f := lastFn(m)
			f.Items = append(f.Items, bsItem{Blk: &bsBlock{ID: blkMetadataAttach, AbbrevWidth: 3, Items: []bsItem{{Rec: &bsRecord{Code: 11, Ops: []uint64{9999, 0, 1}}}}}})
			return true
		}},
	}
	for _, tc := range cases {
		top := parseTree(bc)
		mod := moduleOf(top)
		if !tc.mut(mod) {
			t.Errorf("%s: construct not found in the base module", tc.name)
			continue
		}
		r := Check(withBitcode(b, writeBitcode(top)), baseExpect)
		wantRuleT(t, tc.name, r, tc.rule)
		if r.Fired["internal.panic"] != 0 {
			t.Errorf("%s: checker panicked", tc.name)
		}
	}
}

// ---- signature / PSV0 mutations ----

func TestSignaturePSVMutations(t *testing.T) {
	vs, _ := compileWGSL(t, vsfsWGSL, 0, dxil.DefaultOptions())
	e := Expect{Stage: "vertex", SMMajor: 6}
	wantClean(t, Check(vs, e))
	mutPart := func(b []byte, fc string, f func(d []byte) []byte) []byte {
		fcs, datas := splitContainer(b)
		for i := range fcs {
			if fcs[i] == fc {
				datas[i] = f(datas[i])
			}
		}
		return buildContainer(fcs, datas)
	}
	in := func(f func(d []byte)) func([]byte) []byte {
		return func(d []byte) []byte { f(d); return d }
	}
	for _, tc := range []struct {
		name, part, rule string
		f                func(d []byte) []byte
	}{
		{"count too large", "ISG1", "sig.header", in(func(d []byte) { put32(d, 0, 100) })},
		{"param offset", "ISG1", "sig.header", in(func(d []byte) { put32(d, 4, 12) })},
		{"truncated header", "ISG1", "sig.header", func(d []byte) []byte { return d[:4] }},
		{"name offset outside", "ISG1", "sig.name", in(func(d []byte) { put32(d, 8+4, 4000) })},
		{"name offset into table", "ISG1", "sig.name", in(func(d []byte) { put32(d, 8+4, 16) })},
		{"name unterminated", "ISG1", "sig.name", in(func(d []byte) {
			for i := int(le32(d, 8+4)); i < len(d); i++ {
				d[i] = 'A'
			}
		})},
		{"mask zero", "ISG1", "sig.mask", in(func(d []byte) { d[8+24] = 0 })},
		{"mask high bits", "ISG1", "sig.mask", in(func(d []byte) { d[8+24] = 0x1F })},
		{"component type", "ISG1", "sig.element", in(func(d []byte) { put32(d, 8+16, 40) })},
		{"register 40", "ISG1", "sig.element", in(func(d []byte) { put32(d, 8+20, 40) })},
		{"duplicate semantic", "ISG1", "sig.duplicate", in(func(d []byte) { put32(d, 8+32+8, le32(d, 8+8)) })},
		{"register overlap", "OSG1", "sig.duplicate", in(func(d []byte) { put32(d, 8+32+20, le32(d, 8+20)); d[8+32+24] = d[8+24] })},
		{"one element fewer", "OSG1", "psv.sig-count", in(func(d []byte) {
			// drop the last element by shrinking the count (names stay where they are)
			put32(d, 0, le32(d, 0)-1)
		})},
		{"info size", "PSV0", "psv.info-size", in(func(d []byte) { put32(d, 0, 40) })},
		{"stage byte", "PSV0", "psv.stage", in(func(d []byte) { d[4+24] = 0 })},
		{"truncated", "PSV0", "psv.layout", func(d []byte) []byte { return d[:len(d)-4] }},
		{"extra dword", "PSV0", "psv.layout", func(d []byte) []byte { return append(d, 0, 0, 0, 0) }},
		{"input element count", "PSV0", "psv.layout", in(func(d []byte) { d[4+28]++ })},
		{"string table size", "PSV0", "psv.string-table", in(func(d []byte) { put32(d, 4+52+4, le32(d, 4+52+4)+1) })},
		{"sig element size", "PSV0", "psv.sig-elements", in(func(d []byte) {
			st := int(le32(d, 4+52+4))
			o := 4 + 52 + 4 + 4 + st
			n := int(le32(d, o))
			put32(d, o+4+4*n, 20)
		})},
		{"sig element name offset", "PSV0", "psv.sig-elements", in(func(d []byte) {
			st := int(le32(d, 4+52+4))
			o := 4 + 52 + 4 + 4 + st
			n := int(le32(d, o))
			put32(d, o+4+4*n+4, 5000)
		})},
		{"sig element cols", "PSV0", "psv.sig-elements", in(func(d []byte) {
			st := int(le32(d, 4+52+4))
			o := 4 + 52 + 4 + 4 + st
			n := int(le32(d, o))
			d[o+4+4*n+4+10] = 0x35 // 5 columns starting at 3
		})},
		{"sig element rows vs metadata", "PSV0", "dxmeta.signature", in(func(d []byte) {
			st := int(le32(d, 4+52+4))
			o := 4 + 52 + 4 + 4 + st
			n := int(le32(d, o))
			d[o+4+4*n+4+9]++ // start row
		})},
	} {
		r := Check(mutPart(vs, tc.part, tc.f), e)
		wantRuleT(t, tc.part+" "+tc.name, r, tc.rule)
		if r.Fired["internal.panic"] != 0 {
			t.Errorf("%s: checker panicked", tc.name)
		}
	}
	// compute container: resources and numthreads
	b := baseContainer(t)
	for _, tc := range []struct {
		name, rule string
		f          func(d []byte) []byte
	}{
		{"numthreads", "dxmeta.numthreads", in(func(d []byte) { put32(d, 4+36, 9) })},
		{"resource count +1", "psv.resources", in(func(d []byte) { put32(d, 4+52, le32(d, 4+52)+1) })},
		{"bind info size", "psv.resources", in(func(d []byte) { put32(d, 4+52+4, 20) })},
		{"resource type", "psv.resources", in(func(d []byte) { put32(d, 4+52+8, 12) })},
		{"resource space", "dxmeta.resources", in(func(d []byte) { put32(d, 4+52+8+4, 3) })},
		{"resource upper < lower", "psv.resources", in(func(d []byte) { put32(d, 4+52+8+8, 7); put32(d, 4+52+8+12, 2) })},
		{"entry name", "dxmeta.entry", in(func(d []byte) {
			st := 4 + 52 + 4 + 4 + 2*24 + 4
			d[st+int(le32(d, 4+48))] = 'X'
		})},
	} {
		r := Check(mutPart(b, "PSV0", tc.f), baseExpect)
		wantRuleT(t, "PSV0 "+tc.name, r, tc.rule)
	}
}
