package dxbc

import (
	"fmt"
)

type checker struct {
	rep   *Report
	e     Expect
	data  []byte
	parts []rawPart

	kind       int // program kind from the DXIL part header (-1 unknown)
	smMajor    int
	smMinor    int
	dxilMinor  int
	dxilMajor  int
	haveHeader bool
}

func (c *checker) part(fc string) *rawPart {
	for i := range c.parts {
		if c.parts[i].fourCC == fc {
			return &c.parts[i]
		}
	}
	return nil
}

func (c *checker) run() {
	rep := c.rep
	c.kind = -1
	var bitcode []byte
	if p := c.part("DXIL"); p != nil {
		bitcode = c.checkProgram(*p, "DXIL", true)
	}
	if p := c.part("STAT"); p != nil && len(p.data) >= 24 && string(p.data[8:12]) == "DXIL" {
		// DXC stores a DxilProgramHeader + (reflection) bitcode in STAT.
		rep.fire("stat.program")
		bc := c.checkProgram(*p, "STAT", false)
		if bc != nil {
			bp := &bsParser{rep: rep, prefix: "STAT: "}
			bp.r.data = bc
			top := bp.parseStream()
			if !bp.fatal {
				bp.checkNesting(top)
			}
		}
	}
	// required parts for a validated (non-library) DXIL container
	rep.fire("container.required-parts")
	if c.part("DXIL") != nil && c.kind >= 0 && c.kind != 6 {
		for _, fc := range []string{"ISG1", "OSG1", "PSV0"} {
			if c.part(fc) == nil {
				rep.addf("container.required-parts", "container has a DXIL part for a %s shader but no %s part", kindNames[c.kind], fc)
			}
		}
	}
	if p := c.part("HASH"); p != nil {
		c.checkHashPart(*p, bitcode)
	}
	if p := c.part("SFI0"); p != nil {
		rep.fire("sfi0.size")
		if len(p.data) != 8 {
			rep.addf("sfi0.size", "SFI0 part is %d bytes, want 8", len(p.data))
		} else {
			rep.FeatureInfo = uint64(le32(p.data, 0)) | uint64(le32(p.data, 4))<<32
		}
	}
	if p := c.part("ISG1"); p != nil {
		rep.Signature.HasInput = true
		rep.Signature.Input = c.checkSignature(*p)
	}
	if p := c.part("OSG1"); p != nil {
		rep.Signature.HasOutput = true
		rep.Signature.Output = c.checkSignature(*p)
	}
	if p := c.part("PSG1"); p != nil {
		rep.Signature.HasPatch = true
		rep.Signature.Patch = c.checkSignature(*p)
	}
	if p := c.part("PSV0"); p != nil {
		c.checkPSV(*p)
	}
	if bitcode != nil {
		bp := &bsParser{rep: rep}
		bp.r.data = bitcode
		top := bp.parseStream()
		sum := &BitcodeSummary{Blocks: bp.stats.Blocks, Records: bp.stats.Records, AbbrevRecords: bp.stats.AbbrevRecords,
			AbbrevsDefined: bp.stats.AbbrevsDefined, AbbrevsUsed: bp.stats.AbbrevsUsed}
		rep.Bitcode = sum
		if !bp.fatal {
			bp.checkNesting(top)
			for _, b := range top {
				if b.ID == blkModule {
					m := newModuleChecker(c, b, sum)
					m.run()
					break
				}
			}
		}
	}
}

// checkProgram checks a DxilProgramHeader and returns the bitcode bytes.
func (c *checker) checkProgram(p rawPart, what string, primary bool) []byte {
	rep := c.rep
	rep.fire("program.header")
	d := p.data
	if len(d) < 24 {
		rep.addf("program.header", "%s part is %d bytes, shorter than the 24-byte program header", what, len(d))
		return nil
	}
	ver := le32(d, 0)
	kind := int(ver >> 16)
	major := int(ver>>4) & 0xF
	minor := int(ver) & 0xF
	if primary {
		c.kind, c.smMajor, c.smMinor = kind, major, minor
		c.haveHeader = true
		rep.SMMajor, rep.SMMinor = major, minor
		if n, ok := kindNames[kind]; ok {
			rep.Stage = n
		} else {
			rep.Stage = fmt.Sprintf("kind%d", kind)
		}
	}
	rep.fire("program.kind")
	if _, ok := kindNames[kind]; !ok {
		rep.addf("program.kind", "%s: program version %#x encodes unknown shader kind %d", what, ver, kind)
	} else if c.e.Stage != "" && kindNames[kind] != c.e.Stage {
		rep.addf("program.kind", "%s: program kind is %d (%s), requested stage %s", what, kind, kindNames[kind], c.e.Stage)
	}
	if !primary && c.haveHeader && (kind != c.kind || major != c.smMajor || minor != c.smMinor) {
		rep.addf("program.kind", "%s program version %#x differs from the DXIL part's (kind %d SM %d.%d)", what, ver, c.kind, c.smMajor, c.smMinor)
	}
	rep.fire("program.sm")
	if major != 6 {
		rep.addf("program.sm", "%s: shader model major %d (DXIL requires 6)", what, major)
	}
	if c.e.SMMajor != 0 {
		switch {
		case major == c.e.SMMajor && minor == c.e.SMMinor:
		case c.e.AllowSMUpgrade && major == c.e.SMMajor && minor > c.e.SMMinor:
		default:
			rep.addf("program.sm", "%s: header says SM %d.%d, requested %d.%d (upgrade allowed: %v)", what, major, minor, c.e.SMMajor, c.e.SMMinor, c.e.AllowSMUpgrade)
		}
	}
	rep.fire("program.size-words")
	if uint64(le32(d, 4))*4 != uint64(len(d)) {
		rep.addf("program.size-words", "%s: SizeInUint32=%d (=%d bytes) but the part holds %d bytes", what, le32(d, 4), uint64(le32(d, 4))*4, len(d))
	}
	rep.fire("program.magic")
	if string(d[8:12]) != "DXIL" {
		rep.addf("program.magic", "%s: bitcode header magic %q, want \"DXIL\"", what, d[8:12])
		return nil
	}
	dv := le32(d, 12)
	dmaj, dmin := int(dv>>8), int(dv&0xFF)
	if primary {
		c.dxilMajor, c.dxilMinor = dmaj, dmin
		rep.DxilMajor, rep.DxilMinor = dmaj, dmin
	}
	rep.fire("program.dxil-version")
	if dmaj != 1 || dmin > 9 {
		rep.addf("program.dxil-version", "%s: DXIL version %d.%d outside 1.0-1.9", what, dmaj, dmin)
	} else if major == 6 && dmin != minor {
		rep.addf("program.dxil-version", "%s: DXIL version 1.%d does not match shader model 6.%d", what, dmin, minor)
	}
	off := le32(d, 16)
	size := le32(d, 20)
	rep.fire("program.bitcode-offset")
	if off != 16 {
		rep.addf("program.bitcode-offset", "%s: BitcodeOffset=%d, want 16 (bitcode directly after the bitcode header)", what, off)
		if off < 16 {
			return nil
		}
	}
	rep.fire("program.bitcode-size")
	// offset is relative to the DxilBitcodeHeader, which starts at byte 8.
	if uint64(off)+uint64(size) > uint64(len(d)-8) {
		rep.addf("program.bitcode-size", "%s: BitcodeOffset %d + BitcodeSize %d exceeds the %d bytes after the program version/size words", what, off, size, len(d)-8)
		return nil
	}
	if size == 0 {
		rep.addf("program.bitcode-size", "%s: BitcodeSize is 0", what)
		return nil
	}
	return d[8+off : 8+off+size]
}

func cstr(d []byte, off uint32) (string, bool) {
	if uint64(off) >= uint64(len(d)) {
		return "", false
	}
	for i := int(off); i < len(d); i++ {
		if d[i] == 0 {
			return string(d[off:i]), true
		}
	}
	return "", false
}

// checkSignature decodes a DxilProgramSignature part.
func (c *checker) checkSignature(p rawPart) []SigElement {
	rep := c.rep
	d := p.data
	rep.fire("sig.header")
	if len(d) < 8 {
		rep.addf("sig.header", "%s part is %d bytes, shorter than its 8-byte header", p.fourCC, len(d))
		return nil
	}
	n, off := le32(d, 0), le32(d, 4)
	if off != 8 {
		rep.addf("sig.header", "%s: ParamOffset=%d, want 8", p.fourCC, off)
	}
	if uint64(off)+32*uint64(n) > uint64(len(d)) {
		rep.addf("sig.header", "%s: %d elements of 32 bytes at offset %d exceed the part size %d", p.fourCC, n, off, len(d))
		return nil
	}
	tableEnd := off + 32*n
	var out []SigElement
	for i := uint32(0); i < n; i++ {
		o := int(off + 32*i)
		el := SigElement{
			Stream: le32(d, o), NameOffsetRaw: le32(d, o+4), Index: le32(d, o+8), SystemValue: le32(d, o+12),
			CompType: le32(d, o+16), Register: le32(d, o+20), Mask: d[o+24], RWMask: d[o+25], MinPrecision: le32(d, o+28),
		}
		rep.fire("sig.name")
		if el.NameOffsetRaw < tableEnd {
			rep.addf("sig.name", "%s element %d: semantic name offset %d lies before the end of the element table (%d)", p.fourCC, i, el.NameOffsetRaw, tableEnd)
		} else if s, ok := cstr(d, el.NameOffsetRaw); !ok {
			rep.addf("sig.name", "%s element %d: semantic name offset %d outside the part or not NUL-terminated (part size %d)", p.fourCC, i, el.NameOffsetRaw, len(d))
		} else {
			el.Name = s
			if s == "" {
				rep.addf("sig.name", "%s element %d: empty semantic name", p.fourCC, i)
			}
		}
		rep.fire("sig.mask")
		if el.Mask == 0 || el.Mask&^0xF != 0 {
			rep.addf("sig.mask", "%s element %d (%s%d): mask %#x is not a non-empty subset of 0xF", p.fourCC, i, el.Name, el.Index, el.Mask)
		}
		rep.fire("sig.element")
		if el.Stream > 3 {
			rep.addf("sig.element", "%s element %d: stream %d > 3", p.fourCC, i, el.Stream)
		}
		if el.CompType > 9 {
			rep.addf("sig.element", "%s element %d: component type %d unknown", p.fourCC, i, el.CompType)
		}
		if el.Register != 0xFFFFFFFF && el.Register > 31 {
			rep.addf("sig.element", "%s element %d (%s%d): register %d beyond the 32 signature rows", p.fourCC, i, el.Name, el.Index, el.Register)
		}
		switch el.MinPrecision {
		case 0, 1, 2, 3, 4, 5, 0xf0, 0xf1:
		default:
			rep.addf("sig.element", "%s element %d: min-precision %#x unknown", p.fourCC, i, el.MinPrecision)
		}
		out = append(out, el)
	}
	rep.fire("sig.duplicate")
	for i := range out {
		for j := i + 1; j < len(out); j++ {
			a, b := out[i], out[j]
			if a.Name != "" && equalFoldASCII(a.Name, b.Name) && a.Index == b.Index && a.Stream == b.Stream {
				rep.addf("sig.duplicate", "%s elements %d and %d share semantic %s%d (stream %d)", p.fourCC, i, j, a.Name, a.Index, a.Stream)
			}
			if a.Register != 0xFFFFFFFF && a.Register == b.Register && a.Stream == b.Stream && a.Mask&b.Mask != 0 {
				rep.addf("sig.duplicate", "%s elements %d (%s%d) and %d (%s%d) overlap in register %d (masks %#x, %#x)", p.fourCC, i, a.Name, a.Index, j, b.Name, b.Index, a.Register, a.Mask, b.Mask)
			}
		}
	}
	return out
}

func equalFoldASCII(a, b string) bool {
	if len(a) != len(b) {
		return false
	}
	for i := 0; i < len(a); i++ {
		x, y := a[i], b[i]
		if 'a' <= x && x <= 'z' {
			x -= 32
		}
		if 'a' <= y && y <= 'z' {
			y -= 32
		}
		if x != y {
			return false
		}
	}
	return true
}

func maskDwords(vectors uint8) int { return (int(vectors) + 7) >> 3 }

// checkPSV decodes the PSV0 part (DxilPipelineStateValidation.h layout).
func (c *checker) checkPSV(p rawPart) {
	rep := c.rep
	d := p.data
	psv := &rep.PSV
	psv.Present = true
	psv.Stage = -1
	pos := 0
	need := func(n int, what string) bool {
		rep.fire("psv.layout")
		if n < 0 || pos+n > len(d) {
			rep.addf("psv.layout", "PSV0: %s needs %d bytes at offset %d but the part has %d", what, n, pos, len(d))
			return false
		}
		return true
	}
	if !need(4, "runtime-info size") {
		return
	}
	infoSize := le32(d, pos)
	pos += 4
	psv.InfoSize = infoSize
	rep.fire("psv.info-size")
	switch infoSize {
	case 24:
		psv.Version = 0
	case 36:
		psv.Version = 1
	case 48:
		psv.Version = 2
	case 52:
		psv.Version = 3
	case 56:
		psv.Version = 4
	default:
		rep.addf("psv.info-size", "PSV0: PSVRuntimeInfo size %d is none of 24/36/48/52/56", infoSize)
		return
	}
	if !need(int(infoSize), "PSVRuntimeInfo") {
		return
	}
	info := d[pos : pos+int(infoSize)]
	pos += int(infoSize)
	psv.MinWave, psv.MaxWave = le32(info, 16), le32(info, 20)
	var entryNameOff uint32
	patchVectors := uint8(0)
	if psv.Version >= 1 {
		psv.Stage = int(info[24])
		psv.UsesViewID = info[25] != 0
		patchVectors = info[26]
		psv.SigIn, psv.SigOut, psv.SigPatch = int(info[28]), int(info[29]), int(info[30])
		psv.SigInVectors = info[31]
		copy(psv.SigOutVectors[:], info[32:36])
		rep.fire("psv.stage")
		if c.haveHeader && psv.Stage != c.kind {
			rep.addf("psv.stage", "PSV0 ShaderStage=%d but the program header kind is %d (%s)", psv.Stage, c.kind, kindNames[c.kind])
		}
	}
	if psv.Version >= 2 {
		psv.HasNumThreads = true
		psv.NumThreads = [3]uint32{le32(info, 36), le32(info, 40), le32(info, 44)}
	}
	if psv.Version >= 3 {
		entryNameOff = le32(info, 48)
	}
	if !need(4, "resource count") {
		return
	}
	resCount := le32(d, pos)
	pos += 4
	if resCount > 0 {
		if !need(4, "bind-info size") {
			return
		}
		bis := le32(d, pos)
		pos += 4
		psv.BindInfoSize = bis
		rep.fire("psv.resources")
		if bis != 16 && bis != 24 {
			rep.addf("psv.resources", "PSV0: PSVResourceBindInfo size %d is neither 16 nor 24", bis)
			return
		}
		if psv.Version >= 2 && bis < 24 {
			rep.addf("psv.resources", "PSV0: runtime info v%d with bind-info size %d (v2+ carries kind/flags: 24)", psv.Version, bis)
		}
		if uint64(resCount)*uint64(bis) > uint64(len(d)-pos) {
			rep.addf("psv.resources", "PSV0: %d resources of %d bytes at offset %d exceed the part size %d", resCount, bis, pos, len(d))
			return
		}
		for i := 0; i < int(resCount); i++ {
			o := pos + i*int(bis)
			r := PSVResource{Type: le32(d, o), Space: le32(d, o+4), Lower: le32(d, o+8), Upper: le32(d, o+12)}
			if bis >= 24 {
				r.Kind, r.Flags = le32(d, o+16), le32(d, o+20)
			}
			rep.fire("psv.resources")
			if r.Type == 0 || r.Type > 9 {
				rep.addf("psv.resources", "PSV0 resource %d: type %d is not a PSVResourceType (1..9)", i, r.Type)
			}
			if r.Upper < r.Lower {
				rep.addf("psv.resources", "PSV0 resource %d: upper bound %d < lower bound %d", i, r.Upper, r.Lower)
			}
			psv.Resources = append(psv.Resources, r)
		}
		pos += int(resCount) * int(bis)
	}
	if psv.Version == 0 {
		rep.fire("psv.layout")
		if pos != len(d) {
			rep.addf("psv.layout", "PSV0 (v0): %d bytes decoded but the part has %d", pos, len(d))
		} else {
			psv.Complete = true
		}
		return
	}
	// string table
	if !need(4, "string table size") {
		return
	}
	stSize := le32(d, pos)
	pos += 4
	rep.fire("psv.string-table")
	if stSize%4 != 0 {
		rep.addf("psv.string-table", "PSV0: string table size %d is not a multiple of 4", stSize)
	}
	if !need(int(stSize), "string table") {
		return
	}
	strtab := d[pos : pos+int(stSize)]
	pos += int(stSize)
	if !need(4, "semantic index table count") {
		return
	}
	idxCount := le32(d, pos)
	pos += 4
	if uint64(idxCount)*4 > uint64(len(d)-pos) {
		rep.fire("psv.layout")
		rep.addf("psv.layout", "PSV0: semantic index table of %d dwords at offset %d exceeds the part size %d", idxCount, pos, len(d))
		return
	}
	idxTab := make([]uint32, idxCount)
	for i := range idxTab {
		idxTab[i] = le32(d, pos+4*i)
	}
	pos += 4 * int(idxCount)
	if psv.Version >= 3 {
		rep.fire("psv.string-table")
		if s, ok := cstr(strtab, entryNameOff); !ok {
			rep.addf("psv.string-table", "PSV0: EntryFunctionName offset %d outside the %d-byte string table or unterminated", entryNameOff, stSize)
		} else {
			psv.EntryName = s
		}
	}
	nEl := psv.SigIn + psv.SigOut + psv.SigPatch
	if nEl > 0 {
		if !need(4, "signature element size") {
			return
		}
		es := le32(d, pos)
		pos += 4
		rep.fire("psv.sig-elements")
		if es != 16 {
			rep.addf("psv.sig-elements", "PSV0: PSVSignatureElement size %d, want 16", es)
			return
		}
		if !need(nEl*16, "signature elements") {
			return
		}
		read := func(k int) []PSVSigElement {
			var out []PSVSigElement
			for i := 0; i < k; i++ {
				o := pos
				pos += 16
				e := PSVSigElement{Rows: d[o+8], StartRow: d[o+9], Cols: d[o+10] & 0xF, StartCol: (d[o+10] >> 4) & 3,
					Allocated: d[o+10]&0x40 != 0, SemanticKind: d[o+11], ComponentTyp: d[o+12], InterpMode: d[o+13],
					DynMask: d[o+14] & 0xF, Stream: (d[o+14] >> 4) & 3}
				nameOff, idxOff := le32(d, o), le32(d, o+4)
				rep.fire("psv.sig-elements")
				if s, ok := cstr(strtab, nameOff); !ok {
					rep.addf("psv.sig-elements", "PSV0 sig element: semantic name offset %d outside the %d-byte string table or unterminated", nameOff, stSize)
				} else {
					e.Name = s
				}
				if uint64(idxOff)+uint64(e.Rows) > uint64(len(idxTab)) {
					rep.addf("psv.sig-elements", "PSV0 sig element %q: semantic indexes [%d,%d) outside the %d-entry index table", e.Name, idxOff, uint64(idxOff)+uint64(e.Rows), len(idxTab))
				} else {
					e.Indexes = append([]uint32(nil), idxTab[idxOff:idxOff+uint32(e.Rows)]...)
				}
				if e.Rows == 0 || e.Cols == 0 || e.Cols > 4 || int(e.StartCol)+int(e.Cols) > 4 {
					rep.addf("psv.sig-elements", "PSV0 sig element %q: rows=%d cols=%d startcol=%d not a valid register footprint", e.Name, e.Rows, e.Cols, e.StartCol)
				}
				if e.Allocated && int(e.StartRow)+int(e.Rows) > 32 {
					rep.addf("psv.sig-elements", "PSV0 sig element %q: rows [%d,%d) beyond 32", e.Name, e.StartRow, int(e.StartRow)+int(e.Rows))
				}
				out = append(out, e)
			}
			return out
		}
		psv.InputElems = read(psv.SigIn)
		psv.OutputElems = read(psv.SigOut)
		psv.PatchElems = read(psv.SigPatch)
	}
	// ViewID and input->output dependency tables
	isHS, isDS, isMS := psv.Stage == 3, psv.Stage == 4, psv.Stage == 13
	if psv.UsesViewID {
		for i := 0; i < 4; i++ {
			if psv.SigOutVectors[i] != 0 {
				if !need(4*maskDwords(psv.SigOutVectors[i]), "ViewID output mask") {
					return
				}
				pos += 4 * maskDwords(psv.SigOutVectors[i])
			}
		}
		if (isHS || isMS) && patchVectors != 0 {
			if !need(4*maskDwords(patchVectors), "ViewID patch-constant/primitive mask") {
				return
			}
			pos += 4 * maskDwords(patchVectors)
		}
	}
	for i := 0; i < 4; i++ {
		if psv.SigInVectors != 0 && psv.SigOutVectors[i] != 0 {
			n := 4 * maskDwords(psv.SigOutVectors[i]) * int(psv.SigInVectors) * 4
			if !need(n, "input-to-output table") {
				return
			}
			pos += n
		}
	}
	if isHS && patchVectors != 0 && psv.SigInVectors != 0 {
		n := 4 * maskDwords(patchVectors) * int(psv.SigInVectors) * 4
		if !need(n, "input-to-patch-constant table") {
			return
		}
		pos += n
	}
	if isDS && psv.SigOutVectors[0] != 0 && patchVectors != 0 {
		n := 4 * maskDwords(psv.SigOutVectors[0]) * int(patchVectors) * 4
		if !need(n, "patch-constant-to-output table") {
			return
		}
		pos += n
	}
	rep.fire("psv.layout")
	if pos != len(d) {
		rep.addf("psv.layout", "PSV0: layout implied by its own counts ends at byte %d but the part has %d bytes", pos, len(d))
	} else {
		psv.Complete = true
	}

	// cross-checks with the signature parts
	if !psv.Complete {
		return
	}
	cross := func(name string, has bool, sig []SigElement, els []PSVSigElement) {
		if !has {
			return
		}
		rep.fire("psv.sig-count")
		rows := 0
		for _, e := range els {
			rows += int(e.Rows)
		}
		if rows != len(sig) {
			rep.addf("psv.sig-count", "PSV0 %s signature elements cover %d rows (in %d elements) but %s has %d elements", name, rows, len(els), name, len(sig))
		}
	}
	cross("ISG1", rep.Signature.HasInput, rep.Signature.Input, psv.InputElems)
	cross("OSG1", rep.Signature.HasOutput, rep.Signature.Output, psv.OutputElems)
	cross("PSG1", rep.Signature.HasPatch, rep.Signature.Patch, psv.PatchElems)
	if !rep.Signature.HasPatch {
		rep.fire("psv.sig-count")
		if psv.SigPatch != 0 {
			rep.addf("psv.sig-count", "PSV0 declares %d patch-constant/primitive signature elements but the container has no PSG1 part", psv.SigPatch)
		}
	}
	if !psv.Complete {
		return
	}
	if c.kind == 5 && psv.HasNumThreads && c.e.NumThreads != nil {
		rep.fire("psv.numthreads")
		if psv.NumThreads != *c.e.NumThreads {
			rep.addf("psv.numthreads", "PSV0 numthreads %v, expected %v", psv.NumThreads, *c.e.NumThreads)
		}
	}
}
