package dxbc

import "fmt"

// FUNCTION_BLOCK semantics of LLVM 3.7 (module version 1: relative value ids).

// debugTrace, when set (tests only), receives one line per instruction.
var debugTrace func(string)

type fwdRef struct {
	valno  uint32
	inst   int // instruction index of the user
	ty     int // type the reader will assume for the placeholder (-1 unknown)
	isPhi  bool
	absolu bool
	bb     int // block of the user
	phiBB  int // for phi: incoming block
}

type instInfo struct {
	code   uint64
	bb     int
	valno  int // value id produced, or -1
	isPhi  bool
	isTerm bool
}

type funcChecker struct {
	m    *moduleChecker
	decl *funcDecl
	blk  *bsBlock

	vals    []value
	nBlocks int
	insts   []instInfo
	uses    []fwdRef // every value operand use (for range + dominance checks)
	succs   [][]int
	name    string
	aborted bool
	valInst map[int]int
}

func (f *funcChecker) find(rule, fm string, a ...any) {
	f.m.rep.add(rule, fmt.Sprintf("function %s: ", f.name)+fmt.Sprintf(fm, a...))
}
func (f *funcChecker) fire(rule string) { f.m.rep.fire(rule) }

func isTerminator(code uint64) bool {
	switch code {
	case 10, 11, 12, 13, 15, 31, 39:
		return true
	}
	return false
}

func (f *funcChecker) run() {
	m := f.m
	f.name = f.decl.name
	if f.name == "" {
		f.name = fmt.Sprintf("#%d", f.decl.valueID)
	} else {
		f.name = "@" + f.name
	}
	f.vals = append([]value(nil), m.values...)
	f.valInst = map[int]int{}
	nModule := len(f.vals)
	fty := m.ty(f.decl.fty)
	if fty == nil {
		m.rep.unsupported("function body without a resolvable function type")
		return
	}
	for _, p := range fty.fields {
		f.vals = append(f.vals, value{kind: vkArg, ty: p})
	}
	mdBase := len(m.md)
	namedBase := len(m.named)
	defer func() {
		m.md = m.md[:mdBase]
		m.named = m.named[:namedBase]
	}()

	curBB := 0
	declared := false
	nDeclare := 0
	var attachBlocks, vstBlocks []*bsBlock
	hadInst := false
	for _, it := range f.blk.Items {
		if f.aborted {
			break
		}
		if it.Blk != nil {
			switch it.Blk.ID {
			case blkConstants:
				from := len(f.vals)
				f.vals = m.parseConstants(it.Blk, f.vals, "function "+f.name)
				m.checkConstRefs(f.vals, from, "function "+f.name)
			case blkMetadata:
				from := len(m.md)
				m.parseMetadata(it.Blk, 0, "function "+f.name)
				m.checkMetadataRefs(from, "function "+f.name)
			case blkMetadataAttach:
				attachBlocks = append(attachBlocks, it.Blk)
			case blkValueSymtab:
				vstBlocks = append(vstBlocks, it.Blk)
			}
			continue
		}
		r := it.Rec
		if r.Code == 1 { // DECLAREBLOCKS
			f.fire("func.declareblocks")
			nDeclare++
			if len(r.Ops) < 1 || r.Ops[0] == 0 {
				f.find("func.declareblocks", "DECLAREBLOCKS %v: needs a count >= 1", r.Ops)
				continue
			}
			if declared {
				f.find("func.declareblocks", "second DECLAREBLOCKS record")
				continue
			}
			if hadInst {
				f.find("func.declareblocks", "DECLAREBLOCKS after the first instruction")
			}
			if r.Ops[0] > uint64(len(f.blk.Items)) {
				f.fire("func.terminators")
				f.find("func.terminators", "DECLAREBLOCKS = %d but the function block holds only %d records (every block needs a terminator)", r.Ops[0], len(f.blk.Items))
				f.aborted = true
				continue
			}
			declared = true
			f.nBlocks = int(r.Ops[0])
			f.succs = make([][]int, f.nBlocks)
			continue
		}
		if r.Code == 35 || r.Code == 33 { // DEBUG_LOC / DEBUG_LOC_AGAIN
			f.fire("func.record")
			if len(f.insts) == 0 {
				f.find("func.record", "debug location record before any instruction")
			} else if r.Code == 35 && len(r.Ops) < 4 {
				f.find("func.record", "DEBUG_LOC with %d operands (<4)", len(r.Ops))
			}
			continue
		}
		hadInst = true
		f.fire("func.declareblocks")
		if !declared {
			f.find("func.declareblocks", "instruction record (code %d) before DECLAREBLOCKS", r.Code)
			f.aborted = true
			break
		}
		f.fire("func.terminators")
		if curBB >= f.nBlocks {
			f.find("func.terminators", "instruction record (code %d) after the terminator of the last declared block (%d blocks declared)", r.Code, f.nBlocks)
			f.aborted = true
			break
		}
		resTy, produces := f.inst(r, curBB)
		ii := instInfo{code: r.Code, bb: curBB, valno: -1, isPhi: r.Code == 16, isTerm: isTerminator(r.Code)}
		if produces {
			ii.valno = len(f.vals)
			f.valInst[ii.valno] = len(f.insts)
			f.vals = append(f.vals, value{kind: vkInst, ty: resTy})
		}
		f.insts = append(f.insts, ii)
		if debugTrace != nil {
			debugTrace(fmt.Sprintf("%s inst %d bb %d val %d (%s): code %d ops %v", f.name, len(f.insts)-1, curBB, ii.valno, m.tyString(resTy), r.Code, r.Ops))
		}
		if ii.isTerm {
			curBB++
		}
	}
	if nDeclare == 0 {
		f.fire("func.declareblocks")
		f.find("func.declareblocks", "function block without DECLAREBLOCKS")
	}
	if !f.aborted && declared {
		f.fire("func.terminators")
		if curBB != f.nBlocks {
			f.find("func.terminators", "%d blocks declared but the body has %d terminators", f.nBlocks, curBB)
		}
		if n := len(f.insts); n > 0 && !f.insts[n-1].isTerm {
			f.find("func.terminators", "last instruction (code %d) is not a terminator", f.insts[n-1].code)
		}
	}
	nfwd := 0
	if !f.aborted {
		total := uint32(len(f.vals))
		for _, u := range f.uses {
			f.fire("func.operand")
			if u.valno >= total {
				f.find("func.operand", "instruction %d: operand refers to value id %d; the function defines %d values (ids 0..%d)", u.inst, u.valno, total, total-1)
				continue
			}
			def := f.vals[u.valno]
			fwd := def.kind == vkInst && f.instOfVal(int(u.valno)) >= u.inst
			if fwd {
				nfwd++
				if u.ty >= 0 && def.ty >= 0 {
					f.fire("func.type-check")
					if !m.sameType(u.ty, def.ty) {
						f.find("func.type-check", "instruction %d: forward reference to value %d assumes type %s but it is defined with type %s", u.inst, u.valno, m.tyString(u.ty), m.tyString(def.ty))
					}
				}
			}
		}
		f.checkSSA()
	}
	for _, b := range vstBlocks {
		m.parseVST(b, len(f.vals), f.nBlocks, "function "+f.name, "func.vst")
	}
	for _, b := range attachBlocks {
		f.checkAttachments(b)
	}
	m.sum.PerFunction = append(m.sum.PerFunction, FunctionSummary{Name: f.name, Blocks: f.nBlocks, Instructions: len(f.insts),
		Values: len(f.vals) - nModule, ForwardRefs: nfwd})
}

func (f *funcChecker) instOfVal(v int) int {
	if i, ok := f.valInst[v]; ok {
		return i
	}
	return -1
}

func (f *funcChecker) checkAttachments(b *bsBlock) {
	m := f.m
	for _, r := range b.records() {
		if r.Code != 11 {
			continue
		}
		f.fire("func.md-attachment")
		ops := r.Ops
		if len(ops)%2 == 1 {
			if ops[0] >= uint64(len(f.insts)) {
				f.find("func.md-attachment", "metadata attachment for instruction %d; the function has %d instructions", ops[0], len(f.insts))
			}
			ops = ops[1:]
		}
		for i := 0; i+1 < len(ops); i += 2 {
			if _, ok := m.mdKinds[ops[i]]; !ok {
				f.find("func.md-attachment", "metadata attachment uses kind id %d, which no METADATA_KIND record defines", ops[i])
			}
			if ops[i+1] >= uint64(len(m.md)) {
				f.find("func.md-attachment", "metadata attachment refers to metadata id %d; only %d are defined", ops[i+1], len(m.md))
			}
		}
	}
}

// ---- type helpers ----

func (f *funcChecker) kindOf(t int) tyKind {
	if x := f.m.ty(t); x != nil {
		return x.kind
	}
	return -1
}

func (f *funcChecker) scalarOf(t int) int {
	if x := f.m.ty(t); x != nil && x.kind == tVector {
		return x.elem
	}
	return t
}

func (f *funcChecker) isIntOrIntVec(t int) bool { return f.kindOf(f.scalarOf(t)) == tInt }
func (f *funcChecker) isFPOrFPVec(t int) bool {
	switch f.kindOf(f.scalarOf(t)) {
	case tHalf, tFloat, tDouble, tOtherFP:
		return true
	}
	return false
}
func (f *funcChecker) isPtrOrPtrVec(t int) bool { return f.kindOf(f.scalarOf(t)) == tPointer }

func (f *funcChecker) bitsOf(t int) uint64 { return f.bitsOfD(t, 0) }

func (f *funcChecker) bitsOfD(t, depth int) uint64 {
	x := f.m.ty(t)
	if x == nil || depth > 8 {
		return 0
	}
	switch x.kind {
	case tInt:
		return x.width
	case tHalf:
		return 16
	case tFloat:
		return 32
	case tDouble:
		return 64
	case tVector:
		return x.n * f.bitsOfD(x.elem, depth+1)
	}
	return 0
}

func (f *funcChecker) withScalar(shape, scalar int) int {
	if x := f.m.ty(shape); x != nil && x.kind == tVector {
		return f.m.findOrMake(typ{kind: tVector, n: x.n, elem: scalar})
	}
	return scalar
}

// ---- one instruction ----

// inst checks one instruction record and returns (result type, produces value).
func (f *funcChecker) inst(r *bsRecord, bb int) (int, bool) {
	m := f.m
	ops := r.Ops
	instNum := uint32(len(f.vals))
	instIdx := len(f.insts)
	i := 0
	ok := true
	fail := func(fm string, a ...any) {
		f.find("func.record", "instruction %d (code %d, ops %v): %s", instIdx, r.Code, clip(ops), fmt.Sprintf(fm, a...))
		ok = false
	}
	tcheck := func(cond bool, fm string, a ...any) {
		f.fire("func.type-check")
		if !cond {
			f.find("func.type-check", "instruction %d (code %d, ops %v): %s", instIdx, r.Code, clip(ops), fmt.Sprintf(fm, a...))
		}
	}
	have := func(n int) bool {
		if i+n > len(ops) {
			if ok {
				fail("record too short (needs operand %d, has %d)", i+n, len(ops))
			}
			return false
		}
		return true
	}
	typeRef := func() int {
		if !have(1) {
			return -1
		}
		f.fire("func.type-ref")
		op := ops[i]
		i++
		if !m.typeInRange(op) {
			f.find("func.type-ref", "instruction %d (code %d): type id %d out of range (%d types)", instIdx, r.Code, op, m.numDeclared)
			ok = false
			return -1
		}
		return int(op)
	}
	use := func(valno uint32, ty int, phi bool, phiBB int, abs bool) {
		f.uses = append(f.uses, fwdRef{valno: valno, inst: instIdx, ty: ty, isPhi: phi, bb: bb, phiBB: phiBB, absolu: abs})
	}
	tyOf := func(valno uint32) int {
		if valno < instNum {
			return f.vals[valno].ty
		}
		return -1
	}
	// value + optional type
	pair := func() (uint32, int) {
		if !have(1) {
			return 0, -1
		}
		valno := instNum - uint32(ops[i])
		i++
		if valno < instNum {
			use(valno, -1, false, 0, false)
			return valno, f.vals[valno].ty
		}
		// forward reference: explicit type follows
		if !have(1) {
			return valno, -1
		}
		t := typeRef()
		use(valno, t, false, 0, false)
		return valno, t
	}
	// value whose type is implied
	val := func(ty int) uint32 {
		if !have(1) {
			return 0
		}
		valno := instNum - uint32(ops[i])
		i++
		use(valno, ty, false, 0, false)
		if t := tyOf(valno); t >= 0 && ty >= 0 {
			f.fire("func.type-check")
			if !m.sameType(t, ty) {
				f.find("func.type-check", "instruction %d (code %d, ops %v): operand value %d has type %s, the record implies %s", instIdx, r.Code, clip(ops), valno, m.tyString(t), m.tyString(ty))
			}
		}
		return valno
	}
	bbRef := func() int {
		if !have(1) {
			return -1
		}
		f.fire("func.block-ref")
		b := ops[i]
		i++
		if b >= uint64(f.nBlocks) {
			f.find("func.block-ref", "instruction %d (code %d): basic block id %d, but DECLAREBLOCKS = %d", instIdx, r.Code, b, f.nBlocks)
			ok = false
			return -1
		}
		return int(b)
	}
	exact := func(extra ...int) bool {
		// remaining operand count must be one of extra
		rem := len(ops) - i
		for _, e := range extra {
			if rem == e {
				return true
			}
		}
		if ok {
			fail("%d operands remain after the value operands, want %v", rem, extra)
		}
		return false
	}
	i1 := func() int { return m.findOrMake(typ{kind: tInt, width: 1}) }
	pointee := func(pt int) int {
		if x := m.ty(pt); x != nil && x.kind == tPointer {
			return x.elem
		}
		return -1
	}
	addSucc := func(to int) {
		if to >= 0 && bb < len(f.succs) {
			f.succs[bb] = append(f.succs[bb], to)
		}
	}
	f.fire("func.record")

	switch r.Code {
	case 2: // BINOP [opval, opval, opcode(, flags)]
		_, t := pair()
		val(t)
		if !have(1) {
			return t, true
		}
		opc := ops[i]
		i++
		if t >= 0 {
			switch {
			case f.isIntOrIntVec(t):
				tcheck(opc <= 12, "binary opcode %d invalid for integer type %s", opc, m.tyString(t))
			case f.isFPOrFPVec(t):
				tcheck(opc == 0 || opc == 1 || opc == 2 || opc == 4 || opc == 6, "binary opcode %d invalid for floating-point type %s", opc, m.tyString(t))
			default:
				tcheck(false, "binary operator on non-arithmetic type %s", m.tyString(t))
			}
		}
		exact(0, 1)
		return t, true
	case 3: // CAST [opval, destty, castopc]
		_, st := pair()
		dt := typeRef()
		if have(1) {
			opc := ops[i]
			i++
			exact(0)
			if st >= 0 && dt >= 0 && ok {
				f.checkCast(opc, st, dt, tcheck)
			}
		}
		return dt, true
	case 4, 30, 43: // GEP_OLD, INBOUNDS_GEP_OLD, GEP [inbounds, ty, ...]
		srcElem := -1
		if r.Code == 43 {
			if !have(2) {
				return -1, true
			}
			i++
			srcElem = typeRef()
		}
		_, bt := pair()
		type idx struct {
			v  uint32
			ty int
		}
		var idxs []idx
		for i < len(ops) && ok {
			v, t := pair()
			idxs = append(idxs, idx{v, t})
		}
		if !ok {
			return -1, true
		}
		if bt < 0 {
			return -1, true
		}
		bs := f.scalarOf(bt)
		if f.kindOf(bs) != tPointer {
			tcheck(false, "GEP base of type %s is not a pointer", m.tyString(bt))
			return -1, true
		}
		pe := pointee(bs)
		if srcElem >= 0 {
			tcheck(m.sameType(srcElem, pe), "explicit GEP source element type %s does not match the base pointer's pointee %s", m.tyString(srcElem), m.tyString(pe))
		}
		cur := pe
		known := true
		for k, ix := range idxs {
			if ix.ty >= 0 {
				tcheck(f.isIntOrIntVec(ix.ty), "GEP index %d has non-integer type %s", k, m.tyString(ix.ty))
			}
			if k == 0 {
				continue
			}
			ct := m.ty(cur)
			if ct == nil {
				known = false
				break
			}
			switch ct.kind {
			case tArray, tVector:
				cur = ct.elem
			case tStruct:
				if xt := m.ty(ix.ty); xt != nil {
					tcheck(xt.kind == tInt && xt.width == 32, "GEP struct index of type %s (must be an i32 constant)", m.tyString(ix.ty))
				}
				if ix.v < instNum && f.vals[ix.v].cst != nil && f.vals[ix.v].cst.isInt {
					fi := f.vals[ix.v].cst.ival
					if fi < 0 || fi >= int64(len(ct.fields)) {
						tcheck(false, "GEP struct index %d out of range for %s", fi, m.tyString(cur))
						known = false
					} else {
						cur = ct.fields[fi]
					}
				} else {
					if ix.v < instNum {
						tcheck(false, "GEP indexes struct %s with a non-constant value", m.tyString(cur))
					}
					known = false
				}
			default:
				tcheck(false, "GEP index %d steps into non-aggregate type %s", k, m.tyString(cur))
				known = false
			}
			if !known {
				break
			}
		}
		if !known {
			return -1, true
		}
		res := m.ptrTo(cur, m.ty(bs).addrspace)
		return f.withScalar(bt, res), true
	case 5: // SELECT [opval, opval, cond(i1)]
		_, t := pair()
		val(t)
		val(i1())
		return t, true
	case 29: // VSELECT [opval, opval, pred pair]
		_, t := pair()
		val(t)
		_, ct := pair()
		if ct >= 0 {
			ck := m.ty(ct)
			switch {
			case ck.kind == tInt && ck.width == 1:
			case ck.kind == tVector && f.kindOf(ck.elem) == tInt && m.ty(ck.elem).width == 1:
				if tt := m.ty(t); tt != nil {
					tcheck(tt.kind == tVector && tt.n == ck.n, "vector select condition %s does not match value type %s", m.tyString(ct), m.tyString(t))
				}
			default:
				tcheck(false, "select condition has type %s, want i1 or <n x i1>", m.tyString(ct))
			}
		}
		exact(0)
		return t, true
	case 6: // EXTRACTELT [vec pair, idx pair]
		_, vt := pair()
		_, it := pair()
		if vt >= 0 {
			x := m.ty(vt)
			tcheck(x.kind == tVector, "extractelement on non-vector type %s", m.tyString(vt))
			if it >= 0 {
				tcheck(f.kindOf(it) == tInt, "extractelement index of type %s", m.tyString(it))
			}
			if x.kind == tVector {
				return x.elem, true
			}
		}
		return -1, true
	case 7: // INSERTELT [vec pair, elt, idx pair]
		_, vt := pair()
		et := -1
		if x := m.ty(vt); x != nil {
			tcheck(x.kind == tVector, "insertelement on non-vector type %s", m.tyString(vt))
			if x.kind == tVector {
				et = x.elem
			}
		}
		val(et)
		_, it := pair()
		if it >= 0 {
			tcheck(f.kindOf(it) == tInt, "insertelement index of type %s", m.tyString(it))
		}
		return vt, true
	case 8: // SHUFFLEVEC [v1 pair, v2, mask pair]
		_, vt := pair()
		val(vt)
		_, mt := pair()
		x, y := m.ty(vt), m.ty(mt)
		if x != nil && y != nil {
			tcheck(x.kind == tVector && y.kind == tVector, "shufflevector operands %s / mask %s are not vectors", m.tyString(vt), m.tyString(mt))
			if x.kind == tVector && y.kind == tVector {
				return m.findOrMake(typ{kind: tVector, n: y.n, elem: x.elem}), true
			}
		}
		return -1, true
	case 9, 28: // CMP / CMP2 [opval, opval, pred]
		_, t := pair()
		val(t)
		if !have(1) {
			return -1, true
		}
		pred := ops[i]
		i++
		if t >= 0 && f.isFPOrFPVec(t) {
			exact(0, 1) // optional fast-math flags
		} else {
			exact(0)
		}
		if t < 0 {
			return -1, true
		}
		switch {
		case f.isFPOrFPVec(t):
			tcheck(pred <= 15, "fcmp predicate %d out of range", pred)
		case f.isIntOrIntVec(t) || f.isPtrOrPtrVec(t):
			tcheck(pred >= 32 && pred <= 41, "icmp predicate %d out of range", pred)
		default:
			tcheck(false, "comparison of non-scalar/vector type %s", m.tyString(t))
		}
		return f.withScalar(t, i1()), true
	case 10: // RET [opval?]
		fty := m.ty(f.decl.fty)
		if len(ops) == 0 {
			tcheck(f.kindOf(fty.elem) == tVoid, "ret void in a function returning %s", m.tyString(fty.elem))
			return -1, false
		}
		_, t := pair()
		exact(0)
		if t >= 0 {
			tcheck(m.sameType(t, fty.elem), "ret value of type %s in a function returning %s", m.tyString(t), m.tyString(fty.elem))
		}
		return -1, false
	case 11: // BR [bb] or [bb, bb, cond]
		if len(ops) != 1 && len(ops) != 3 {
			fail("br needs 1 or 3 operands")
			return -1, false
		}
		addSucc(bbRef())
		if len(ops) == 3 {
			addSucc(bbRef())
			val(i1())
		}
		return -1, false
	case 12: // SWITCH [opty, cond, defaultbb, (caseval(abs), bb)*]
		if len(ops) > 0 && ops[0]>>16 == 0x4B5 {
			m.rep.unsupported("old-style SWITCH_INST_MAGIC record")
			f.aborted = true
			return -1, false
		}
		if len(ops) < 3 || len(ops)%2 == 0 {
			fail("switch needs an odd number (>=3) of operands")
			return -1, false
		}
		t := typeRef()
		if t >= 0 {
			tcheck(f.kindOf(t) == tInt, "switch on non-integer type %s", m.tyString(t))
		}
		val(t)
		addSucc(bbRef())
		seen := map[int64]bool{}
		for i+1 < len(ops) && ok {
			cv := ops[i]
			i++
			f.fire("func.operand")
			if cv >= uint64(instNum) {
				f.find("func.operand", "instruction %d: switch case value id %d (absolute) is not a value defined before the instruction (%d)", instIdx, cv, instNum)
			} else {
				c := f.vals[cv]
				if c.cst == nil || !c.cst.isInt {
					tcheck(false, "switch case value #%d is not an integer constant", cv)
				} else {
					if t >= 0 && c.ty >= 0 {
						tcheck(m.sameType(t, c.ty), "switch case value #%d has type %s, condition type %s", cv, m.tyString(c.ty), m.tyString(t))
					}
					tcheck(!seen[c.cst.ival], "duplicate switch case value %d", c.cst.ival)
					seen[c.cst.ival] = true
				}
			}
			addSucc(bbRef())
		}
		return -1, false
	case 31: // INDIRECTBR [opty, addr, bb...]
		if len(ops) < 2 {
			fail("indirectbr needs >= 2 operands")
			return -1, false
		}
		t := typeRef()
		val(t)
		for i < len(ops) && ok {
			addSucc(bbRef())
		}
		return -1, false
	case 15: // UNREACHABLE
		return -1, false
	case 16: // PHI [ty, (val signed-rel, bb)*]
		if len(ops) < 1 || (len(ops)-1)%2 != 0 {
			fail("phi needs a type and (value, block) pairs")
			return -1, true
		}
		t := typeRef()
		if t >= 0 {
			switch f.kindOf(t) {
			case tVoid, tFunction, tLabel, tMetadata:
				tcheck(false, "phi of type %s", m.tyString(t))
			}
		}
		tcheck(len(ops) >= 3, "phi without incoming values")
		for i+1 < len(ops) && ok {
			d := decodeSignRotated(ops[i])
			i++
			valno := uint32(int64(instNum) - d)
			b := bbRef()
			f.uses = append(f.uses, fwdRef{valno: valno, inst: instIdx, ty: t, isPhi: true, bb: bb, phiBB: b})
			if vt := tyOf(valno); vt >= 0 && t >= 0 && valno < instNum {
				tcheck(m.sameType(vt, t), "phi incoming value %d has type %s, phi type %s", valno, m.tyString(vt), m.tyString(t))
			}
		}
		return t, true
	case 19: // ALLOCA [instty, opty, op(abs), align]
		if len(ops) != 4 {
			fail("alloca needs 4 operands")
			return -1, true
		}
		t := typeRef()
		st := typeRef()
		sz := ops[2]
		al := ops[3]
		i = 4
		if al&31 > 30 {
			fail("alloca alignment exponent field %d exceeds the maximum", al&31)
		}
		f.fire("func.operand")
		if sz >= uint64(instNum) {
			// absolute id; forward references to later values are not meaningful for an array size
			f.uses = append(f.uses, fwdRef{valno: uint32(sz), inst: instIdx, ty: st, bb: bb, absolu: true})
		} else if st >= 0 && f.vals[sz].ty >= 0 {
			tcheck(m.sameType(st, f.vals[sz].ty), "alloca size operand #%d has type %s, record says %s", sz, m.tyString(f.vals[sz].ty), m.tyString(st))
		}
		if t < 0 {
			return -1, true
		}
		if al&(1<<6) != 0 { // explicit type
			return m.ptrTo(t, 0), true
		}
		tcheck(f.kindOf(t) == tPointer, "alloca without the explicit-type flag has non-pointer type %s", m.tyString(t))
		return t, true
	case 20, 41: // LOAD [op pair, (ty), align, vol] / LOADATOMIC [+ ordering, synchscope]
		_, pt := pair()
		tail := 2
		if r.Code == 41 {
			tail = 4
		}
		rem := len(ops) - i
		et := -1
		if rem == tail+1 {
			et = typeRef()
		} else if rem != tail {
			if ok {
				fail("%d operands remain after the pointer, want %d or %d", rem, tail, tail+1)
			}
			return -1, true
		}
		if ok && have(1) && ops[i] > 30 {
			fail("load alignment exponent field %d exceeds the maximum", ops[i])
		}
		if pt >= 0 {
			tcheck(f.kindOf(pt) == tPointer, "load from non-pointer type %s", m.tyString(pt))
			pe := pointee(pt)
			if et >= 0 && pe >= 0 {
				tcheck(m.sameType(et, pe), "explicit load type %s does not match pointee type %s", m.tyString(et), m.tyString(pe))
			}
			if et < 0 {
				et = pe
			}
		}
		return et, true
	case 44, 45: // STORE [ptr pair, val pair, align, vol] / STOREATOMIC [+ordering, synchscope]
		_, pt := pair()
		_, vt := pair()
		if r.Code == 44 {
			exact(2)
		} else {
			exact(4)
		}
		if ok && ops[i] > 30 {
			fail("store alignment exponent field %d exceeds the maximum", ops[i])
		}
		if pt >= 0 {
			tcheck(f.kindOf(pt) == tPointer, "store to non-pointer type %s", m.tyString(pt))
			if pe := pointee(pt); pe >= 0 && vt >= 0 {
				tcheck(m.sameType(pe, vt), "stored value type %s does not match pointee type %s", m.tyString(vt), m.tyString(pe))
			}
		}
		return -1, false
	case 24, 42: // STORE_OLD / STOREATOMIC_OLD [ptr pair, val(pointee), align, vol ...]
		_, pt := pair()
		val(pointee(pt))
		if r.Code == 24 {
			exact(2)
		} else {
			exact(4)
		}
		return -1, false
	case 36: // FENCE [ordering, synchscope]
		if len(ops) != 2 {
			fail("fence needs 2 operands")
		} else {
			f.enumCheck(instIdx, "fence", ops[0], ops[1])
		}
		return -1, false
	case 38: // ATOMICRMW [ptr pair, val(pointee), op, vol, ordering, synchscope]
		_, pt := pair()
		pe := pointee(pt)
		val(pe)
		if exact(4) {
			tcheck(ops[i] <= 10, "atomicrmw operation %d unknown", ops[i])
			f.enumCheck(instIdx, "atomicrmw", ops[i+2], ops[i+3])
		}
		if pt >= 0 {
			tcheck(f.kindOf(pt) == tPointer, "atomicrmw on non-pointer type %s", m.tyString(pt))
			if pe >= 0 {
				tcheck(f.kindOf(pe) == tInt, "atomicrmw on pointee type %s", m.tyString(pe))
			}
		}
		return pe, true
	case 46, 37: // CMPXCHG [ptr pair, cmp pair, new, vol, success, scope, failure, weak] / _OLD [ptr pair, cmp, new, vol, ordering, scope(, failure, weak)]
		_, pt := pair()
		pe := pointee(pt)
		ct := pe
		if r.Code == 46 {
			_, ct = pair()
		} else {
			val(pe)
		}
		val(ct)
		rem := len(ops) - i
		if rem != 3 && rem != 5 {
			if ok {
				fail("cmpxchg: %d operands remain, want 3 or 5", rem)
			}
			return -1, true
		}
		f.enumCheck(instIdx, "cmpxchg", ops[i+1], ops[i+2])
		if pt >= 0 && ct >= 0 && pe >= 0 {
			tcheck(m.sameType(pe, ct), "cmpxchg compare type %s does not match pointee %s", m.tyString(ct), m.tyString(pe))
		}
		if rem == 3 { // old form: result is the loaded value
			return ct, true
		}
		if ct < 0 {
			return -1, true
		}
		return m.findOrMake(typ{kind: tStruct, fields: []int{ct, i1()}}), true
	case 26: // EXTRACTVAL [agg pair, idx...]
		_, at := pair()
		if len(ops)-i < 1 {
			if ok {
				fail("extractvalue without indices")
			}
			return -1, true
		}
		cur := at
		for ; i < len(ops) && cur >= 0; i++ {
			cur = f.aggStep(cur, ops[i], tcheck)
		}
		return cur, true
	case 27: // INSERTVAL [agg pair, val pair, idx...]
		_, at := pair()
		_, vt := pair()
		if len(ops)-i < 1 {
			if ok {
				fail("insertvalue without indices")
			}
			return at, true
		}
		cur := at
		for ; i < len(ops) && cur >= 0; i++ {
			cur = f.aggStep(cur, ops[i], tcheck)
		}
		if cur >= 0 && vt >= 0 {
			tcheck(m.sameType(cur, vt), "insertvalue: inserted value type %s, indexed type %s", m.tyString(vt), m.tyString(cur))
		}
		return at, true
	case 23: // VAARG [valistty, valist, instty]
		if len(ops) < 3 {
			fail("va_arg needs 3 operands")
			return -1, true
		}
		lt := typeRef()
		val(lt)
		return typeRef(), true
	case 34: // CALL [paramattrs, cc, (fnty), fnid pair, args...]
		if len(ops) < 3 {
			fail("call needs >= 3 operands")
			f.aborted = true
			return -1, false
		}
		f.fire("module.paramattr")
		if ops[0] > uint64(m.numAttrs) {
			f.find("module.paramattr", "instruction %d: call paramattr index %d but the PARAMATTR block has %d entries", instIdx, ops[0], m.numAttrs)
		}
		cc := ops[1]
		i = 2
		fty := -1
		explicit := cc>>15&1 != 0
		if explicit {
			fty = typeRef()
			if fty >= 0 && f.kindOf(fty) != tFunction {
				tcheck(false, "explicit call type %s is not a function type", m.tyString(fty))
				fty = -1
			}
		}
		callee, ct := pair()
		if !ok {
			f.aborted = true
			return -1, false
		}
		if ct >= 0 {
			pe := pointee(ct)
			if pe < 0 || f.kindOf(pe) != tFunction {
				tcheck(false, "callee value %d of type %s is not a pointer to function", callee, m.tyString(ct))
				f.aborted = true
				return -1, false
			}
			if fty >= 0 {
				tcheck(m.sameType(fty, pe), "explicit call type %s does not match callee type %s", m.tyString(fty), m.tyString(pe))
			} else {
				fty = pe
			}
		}
		if fty < 0 {
			m.rep.unsupported("call whose callee type is unknown")
			f.aborted = true
			return -1, false
		}
		ft := m.ty(fty)
		for _, p := range ft.fields {
			if f.kindOf(p) == tLabel {
				bbRef()
			} else {
				val(p)
			}
			if !ok {
				f.aborted = true
				return -1, false
			}
		}
		if ft.vararg {
			for i < len(ops) && ok {
				pair()
			}
		} else if i != len(ops) {
			fail("call passes %d extra operands beyond the %d parameters of %s", len(ops)-i, len(ft.fields), m.tyString(fty))
		}
		if f.kindOf(ft.elem) == tVoid {
			return -1, false
		}
		return ft.elem, true
	case 13, 39, 40, 47: // INVOKE, RESUME, LANDINGPAD
		m.rep.unsupported("exception-handling instruction code %d", r.Code)
		f.aborted = true
		return -1, false
	default:
		fail("unknown FUNC_CODE")
		f.aborted = true
		return -1, false
	}
}

// enumCheck: AtomicOrderingCodes are 0..6 (NOTATOMIC..SEQCST) and
// AtomicSynchScopeCodes 0..1. LLVM's reader silently maps unknown orderings to
// seq_cst, so this is reported under its own rule id.
func (f *funcChecker) enumCheck(inst int, what string, ordering, scope uint64) {
	f.fire("func.enum")
	if ordering > 6 {
		f.find("func.enum", "instruction %d: %s ordering code %d is not an AtomicOrderingCodes value (0..6; SEQCST is 6)", inst, what, ordering)
	} else if ordering < 2 && what != "load atomic" && what != "store atomic" {
		f.find("func.enum", "instruction %d: %s ordering code %d (not-atomic/unordered) is not allowed", inst, what, ordering)
	}
	if scope > 1 {
		f.find("func.enum", "instruction %d: %s synchronisation scope code %d unknown", inst, what, scope)
	}
}

func clip(ops []uint64) []uint64 {
	if len(ops) > 12 {
		return ops[:12]
	}
	return ops
}

func (f *funcChecker) aggStep(cur int, ix uint64, tcheck func(bool, string, ...any)) int {
	m := f.m
	t := m.ty(cur)
	if t == nil {
		return -1
	}
	switch t.kind {
	case tStruct:
		if ix >= uint64(len(t.fields)) {
			tcheck(false, "aggregate index %d out of range for %s", ix, m.tyString(cur))
			return -1
		}
		return t.fields[ix]
	case tArray:
		if ix >= t.n {
			tcheck(false, "aggregate index %d out of range for %s", ix, m.tyString(cur))
			return -1
		}
		return t.elem
	}
	tcheck(false, "extractvalue/insertvalue index into non-aggregate type %s", m.tyString(cur))
	return -1
}

// checkCast applies CastInst::castIsValid.
func (f *funcChecker) checkCast(opc uint64, st, dt int, tcheck func(bool, string, ...any)) {
	m := f.m
	sv, dv := m.ty(st), m.ty(dt)
	if sv == nil || dv == nil {
		return
	}
	desc := fmt.Sprintf("cast opcode %d from %s to %s", opc, m.tyString(st), m.tyString(dt))
	if opc > 12 {
		tcheck(false, "%s: unknown cast opcode", desc)
		return
	}
	sVec, dVec := sv.kind == tVector, dv.kind == tVector
	sameLen := sVec == dVec && (!sVec || sv.n == dv.n)
	ss, ds := f.scalarOf(st), f.scalarOf(dt)
	sb, db := f.bitsOf(ss), f.bitsOf(ds)
	sInt, dInt := f.kindOf(ss) == tInt, f.kindOf(ds) == tInt
	sFP, dFP := f.isFPOrFPVec(st), f.isFPOrFPVec(dt)
	sPtr, dPtr := f.kindOf(ss) == tPointer, f.kindOf(ds) == tPointer
	switch opc {
	case 0: // trunc
		tcheck(sInt && dInt && sameLen && sb > db, "%s: invalid trunc", desc)
	case 1, 2: // zext, sext
		tcheck(sInt && dInt && sameLen && sb < db, "%s: invalid zext/sext", desc)
	case 3, 4: // fptoui, fptosi
		tcheck(sFP && dInt && sameLen, "%s: invalid fp-to-int", desc)
	case 5, 6: // uitofp, sitofp
		tcheck(sInt && dFP && sameLen, "%s: invalid int-to-fp", desc)
	case 7: // fptrunc
		tcheck(sFP && dFP && sameLen && (sb == 0 || db == 0 || sb > db), "%s: invalid fptrunc", desc)
	case 8: // fpext
		tcheck(sFP && dFP && sameLen && (sb == 0 || db == 0 || sb < db), "%s: invalid fpext", desc)
	case 9: // ptrtoint
		tcheck(sPtr && dInt && sameLen, "%s: invalid ptrtoint", desc)
	case 10: // inttoptr
		tcheck(sInt && dPtr && sameLen, "%s: invalid inttoptr", desc)
	case 11: // bitcast
		switch {
		case sPtr || dPtr:
			tcheck(sPtr && dPtr && sameLen && m.ty(ss).addrspace == m.ty(ds).addrspace, "%s: invalid pointer bitcast", desc)
		default:
			first := func(k tyKind) bool {
				switch k {
				case tInt, tHalf, tFloat, tDouble, tOtherFP, tVector, tMMX:
					return true
				}
				return false
			}
			tb, ub := f.bitsOf(st), f.bitsOf(dt)
			tcheck(first(sv.kind) && first(dv.kind) && (tb == 0 || ub == 0 || tb == ub), "%s: invalid bitcast", desc)
		}
	case 12: // addrspacecast
		tcheck(sPtr && dPtr && sameLen && m.ty(ss).addrspace != m.ty(ds).addrspace, "%s: invalid addrspacecast", desc)
	}
}

// ---- SSA dominance ----

// checkSSA applies the LLVM verifier's def-dominates-use rule to every use of
// an instruction-defined value, and the phi/predecessor correspondence.
func (f *funcChecker) checkSSA() {
	n := f.nBlocks
	if n == 0 || len(f.insts) == 0 {
		return
	}
	// predecessor lists
	preds := make([][]int, n)
	for b, ss := range f.succs {
		for _, s := range ss {
			preds[s] = append(preds[s], b)
		}
	}
	// reachability + reverse postorder
	reach := make([]bool, n)
	var order []int
	var dfs func(b int)
	// iterative DFS to avoid deep recursion
	type frame struct{ b, k int }
	dfs = func(b0 int) {
		st := []frame{{b0, 0}}
		reach[b0] = true
		for len(st) > 0 {
			fr := &st[len(st)-1]
			if fr.k < len(f.succs[fr.b]) {
				s := f.succs[fr.b][fr.k]
				fr.k++
				if !reach[s] {
					reach[s] = true
					st = append(st, frame{s, 0})
				}
			} else {
				order = append(order, fr.b)
				st = st[:len(st)-1]
			}
		}
	}
	dfs(0)
	rpoNum := make([]int, n)
	for i := range rpoNum {
		rpoNum[i] = -1
	}
	rpo := make([]int, len(order))
	for i := range order {
		rpo[i] = order[len(order)-1-i]
		rpoNum[rpo[i]] = i
	}
	// Cooper-Harvey-Kennedy
	idom := make([]int, n)
	for i := range idom {
		idom[i] = -1
	}
	idom[0] = 0
	intersect := func(a, b int) int {
		for a != b {
			for rpoNum[a] > rpoNum[b] {
				a = idom[a]
			}
			for rpoNum[b] > rpoNum[a] {
				b = idom[b]
			}
		}
		return a
	}
	for changed := true; changed; {
		changed = false
		for _, b := range rpo[1:] {
			nd := -1
			for _, p := range preds[b] {
				if idom[p] < 0 {
					continue
				}
				if nd < 0 {
					nd = p
				} else {
					nd = intersect(p, nd)
				}
			}
			if nd >= 0 && idom[b] != nd {
				idom[b] = nd
				changed = true
			}
		}
	}
	dominates := func(a, b int) bool { // block a dominates block b (both reachable)
		for {
			if a == b {
				return true
			}
			if b == 0 || idom[b] < 0 {
				return false
			}
			b = idom[b]
		}
	}
	f.fire("func.ssa")
	if len(preds[0]) > 0 {
		f.find("func.ssa", "entry block has predecessors %v", preds[0])
	}
	total := uint32(len(f.vals))
	for _, u := range f.uses {
		if u.valno >= total || f.vals[u.valno].kind != vkInst {
			continue
		}
		di := f.instOfVal(int(u.valno))
		if di < 0 {
			continue
		}
		defBB := f.insts[di].bb
		f.fire("func.ssa")
		if u.isPhi {
			if u.phiBB < 0 || !reach[u.phiBB] {
				continue
			}
			if !reach[defBB] || !dominates(defBB, u.phiBB) {
				f.find("func.ssa", "phi (instruction %d, block %d): incoming value %d from block %d is defined in block %d, which does not dominate it", u.inst, u.bb, u.valno, u.phiBB, defBB)
			}
			continue
		}
		if !reach[u.bb] {
			continue
		}
		if defBB == u.bb {
			if di >= u.inst {
				f.find("func.ssa", "instruction %d (block %d) uses value %d, defined later in the same block by instruction %d", u.inst, u.bb, u.valno, di)
			}
			continue
		}
		if !reach[defBB] || !dominates(defBB, u.bb) {
			f.find("func.ssa", "instruction %d (block %d) uses value %d defined in block %d, which does not dominate the use", u.inst, u.bb, u.valno, defBB)
		}
	}
	// phi structure: grouped at block start; one entry per predecessor
	phiPreds := map[int]map[int]int{} // inst -> bb -> count
	for _, u := range f.uses {
		if u.isPhi && u.phiBB >= 0 {
			if phiPreds[u.inst] == nil {
				phiPreds[u.inst] = map[int]int{}
			}
			phiPreds[u.inst][u.phiBB]++
		}
	}
	seenNonPhi := make([]bool, n)
	for idx, in := range f.insts {
		if !in.isPhi {
			seenNonPhi[in.bb] = true
			continue
		}
		f.fire("func.ssa")
		if seenNonPhi[in.bb] {
			f.find("func.ssa", "phi (instruction %d) is not at the start of block %d", idx, in.bb)
		}
		pm := map[int]int{}
		for _, p := range preds[in.bb] {
			pm[p]++
		}
		got := phiPreds[idx]
		for p, k := range pm {
			if got[p] == 0 {
				f.find("func.ssa", "phi (instruction %d, block %d) has no incoming value for predecessor block %d", idx, in.bb, p)
			} else if got[p] != k {
				f.find("func.ssa", "phi (instruction %d, block %d) has %d entries for predecessor block %d, which has %d edges into the block", idx, in.bb, got[p], p, k)
			}
		}
		for p := range got {
			if pm[p] == 0 {
				f.find("func.ssa", "phi (instruction %d, block %d) has an incoming value from block %d, which is not a predecessor", idx, in.bb, p)
			}
		}
	}
}
