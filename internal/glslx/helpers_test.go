package glslx

import (
	"encoding/binary"
	"errors"
	"fmt"
	"math"
	"testing"

	"github.com/gogpu/naga"
	"github.com/gogpu/naga/glsl"
	"github.com/gogpu/naga/ir"

	"verif/internal/xrt"
)

var testVersions = []glsl.Version{
	{Major: 4, Minor: 30}, {Major: 4, Minor: 50}, {Major: 4, Minor: 60}, {Major: 3, Minor: 10, ES: true},
}

func lowerWGSL(src string) (m *ir.Module, err error) {
	defer func() {
		if r := recover(); r != nil {
			err = fmt.Errorf("naga panic: %v", r)
		}
	}()
	ast, err := naga.Parse(src)
	if err != nil {
		return nil, err
	}
	return naga.LowerWithSource(ast, src)
}

func emitGLSL(m *ir.Module, v glsl.Version, ep string) (s string, err error) {
	defer func() {
		if r := recover(); r != nil {
			err = fmt.Errorf("naga panic: %v", r)
		}
	}()
	o := glsl.DefaultOptions()
	o.LangVersion = v
	o.EntryPoint = ep
	s, _, err = glsl.Compile(m, o)
	return s, err
}

// ---- byte helpers ----

func u32s(v ...uint32) []byte {
	b := make([]byte, 4*len(v))
	for i, x := range v {
		binary.LittleEndian.PutUint32(b[4*i:], x)
	}
	return b
}

func i32s(v ...int32) []byte {
	u := make([]uint32, len(v))
	for i, x := range v {
		u[i] = uint32(x)
	}
	return u32s(u...)
}

func f32s(v ...float32) []byte {
	u := make([]uint32, len(v))
	for i, x := range v {
		u[i] = math.Float32bits(x)
	}
	return u32s(u...)
}

func fb(f float32) uint32 { return math.Float32bits(f) }

func cat(bs ...[]byte) []byte {
	var o []byte
	for _, b := range bs {
		o = append(o, b...)
	}
	return o
}

func zeros(n int) []byte { return make([]byte, n) }

func words(b []byte) []uint32 {
	o := make([]uint32, len(b)/4)
	for i := range o {
		o[i] = binary.LittleEndian.Uint32(b[4*i:])
	}
	return o
}

type bmap = map[xrt.Binding][]byte

func bd(g, b uint32) xrt.Binding { return xrt.Binding{Group: g, Binding: b} }

// conf is one hand-derived conformance case.
type conf struct {
	name string
	wgsl string
	ep   string // entry point; "" = main
	in   bmap
	want bmap // expected bytes after execution (only listed bindings are compared)
	// mask, when set for a binding, lists the byte ranges to compare ([from,to) pairs)
	mask    map[xrt.Binding][]int
	opts    Opts
	defect  string // non-empty: known naga defect -> t.Skip after confirming the mismatch
	wantErr string // expected error kind: "trap:<kind>", "malformed", "unsupported"
	only    func(v glsl.Version) bool
	approx  bool // compare f32 words with tolerance
}

func errKind(err error) string {
	var tr *xrt.Trap
	var ml *xrt.Malformed
	var un *xrt.Unsupported
	var sl *xrt.StepLimit
	switch {
	case err == nil:
		return ""
	case errors.As(err, &tr):
		return "trap:" + tr.Kind
	case errors.As(err, &ml):
		return "malformed"
	case errors.As(err, &un):
		return "unsupported"
	case errors.As(err, &sl):
		return "steplimit"
	}
	return "error"
}

func runConf(t *testing.T, c conf) {
	t.Helper()
	m, err := lowerWGSL(c.wgsl)
	if err != nil {
		t.Fatalf("naga front end rejected the test program: %v", err)
	}
	ep := c.ep
	if ep == "" {
		ep = "main"
	}
	for _, v := range testVersions {
		if c.only != nil && !c.only(v) {
			continue
		}
		t.Run(v.String(), func(t *testing.T) {
			src, err := emitGLSL(m, v, ep)
			if err != nil {
				t.Fatalf("glsl.Compile: %v", err)
			}
			fail := func(f string, a ...any) {
				t.Helper()
				msg := fmt.Sprintf(f, a...)
				if c.defect != "" {
					t.Skipf("naga defect: %s [%s]", c.defect, msg)
				}
				t.Fatalf("%s\n--- GLSL ---\n%s", msg, src)
			}
			prog, err := Parse(src)
			if err != nil {
				if c.wantErr != "" && errKind(err) == c.wantErr {
					return
				}
				fail("Parse: %v", err)
			}
			bufs := xrt.Buffers{}
			for k, b := range c.in {
				bufs[k] = append([]byte(nil), b...)
			}
			err = prog.Exec(bufs, c.opts)
			if c.wantErr != "" {
				if errKind(err) != c.wantErr {
					fail("Exec error = %v, want %s", err, c.wantErr)
				}
				return
			}
			if err != nil {
				fail("Exec: %v", err)
			}
			for k, w := range c.want {
				got := bufs[k]
				if len(got) != len(w) {
					fail("%s: length %d, want %d", k, len(got), len(w))
				}
				ranges := []int{0, len(w)}
				if r, ok := c.mask[k]; ok {
					ranges = r
				}
				for i := 0; i+1 < len(ranges); i += 2 {
					for off := ranges[i]; off < ranges[i+1]; off += 4 {
						g, x := binary.LittleEndian.Uint32(got[off:]), binary.LittleEndian.Uint32(w[off:])
						if g == x {
							continue
						}
						if c.approx {
							gf, xf := float64(math.Float32frombits(g)), float64(math.Float32frombits(x))
							if math.Abs(gf-xf) <= 1e-5*math.Max(1, math.Abs(xf)) {
								continue
							}
						}
						fail("%s byte %d: got 0x%08x (%v / %d), want 0x%08x (%v / %d)\n got  %v\n want %v", k, off, g, math.Float32frombits(g), int32(g), x, math.Float32frombits(x), int32(x), words(got), words(w))
					}
				}
			}
			if c.defect != "" {
				t.Errorf("case marked as naga defect (%s) now passes: remove the marker", c.defect)
			}
		})
	}
}

func xrtPoison() xrt.Opts { return xrt.Opts{PoisonLocals: true} }
