package glslx

import (
	"os"
	"testing"
)

func TestDbg(t *testing.T) {
	f := os.Getenv("GLSLX_DBG")
	if f == "" {
		t.Skip()
	}
	b, _ := os.ReadFile(f)
	m, err := lowerWGSL(string(b))
	if err != nil {
		t.Fatal(err)
	}
	ep := os.Getenv("GLSLX_EP")
	if ep == "" {
		ep = m.EntryPoints[0].Name
	}
	g, err := emitGLSL(m, testVersions[0], ep)
	if err != nil {
		t.Fatal(err)
	}
	debugPanics = true
	p, err := Parse(g)
	t.Log(g)
	if err != nil {
		t.Fatal(err)
	}
	t.Log(p.Problems())
}
