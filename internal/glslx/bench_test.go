package glslx

import (
	"testing"

	"verif/internal/xrt"
)

const benchWGSL = `
struct P { pos: vec3<f32>, id: u32, vel: vec2<f32> }
@group(0) @binding(0) var<storage, read_write> ps: array<P>;
@group(0) @binding(1) var<storage, read> a: array<i32>;
@group(0) @binding(2) var<storage, read_write> o: array<i32>;
@group(0) @binding(3) var<uniform> u: vec4<f32>;
var<private> acc: i32 = 0;
var<workgroup> wg: array<atomic<u32>, 4>;
fn helper(x: i32, p: ptr<function, i32>) -> i32 { *p += x; acc += 1; return *p * 2; }
fn classify(x: i32) -> i32 {
	switch x { case 1, 2: { return 12; } case 3: { return 3; } default: { return 99; } }
}
@compute @workgroup_size(1) fn main(@builtin(global_invocation_id) gid: vec3<u32>) {
	var s = 0;
	for (var i = 0; i < 8; i++) {
		if a[i] < 0 { continue; }
		s += classify(a[i]);
		var t = a[i];
		s += helper(i, &t);
	}
	o[0] = s; o[1] = acc;
	let n = arrayLength(&ps);
	for (var k = 0u; k < n; k++) {
		ps[k].pos = ps[k].pos + vec3<f32>(ps[k].vel, 1.0) * u.x;
		ps[k].id = ps[k].id + gid.x + atomicAdd(&wg[k % 4u], 1u);
	}
	let m = mat3x3<f32>(vec3<f32>(1.0, 0.0, 0.0), vec3<f32>(0.0, 2.0, 0.0), vec3<f32>(0.0, 0.0, 3.0));
	let v = m * ps[0].pos;
	o[2] = i32(v.x + v.y + v.z);
	o[3] = i32(clamp(dot(v, v), 0.0, 100.0)) + i32(countOneBits(u32(s)));
}`

func benchSetup(b *testing.B) (string, xrt.Buffers) {
	m, err := lowerWGSL(benchWGSL)
	if err != nil {
		b.Fatal(err)
	}
	src, err := emitGLSL(m, testVersions[0], "main")
	if err != nil {
		b.Fatal(err)
	}
	bufs := xrt.Buffers{bd(0, 0): make([]byte, 64), bd(0, 1): i32s(1, -2, 3, 4, 2, 1, -1, 7), bd(0, 2): make([]byte, 16), bd(0, 3): f32s(0.5, 0, 0, 0)}
	return src, bufs
}

func BenchmarkParse(b *testing.B) {
	src, _ := benchSetup(b)
	b.ReportAllocs()
	b.SetBytes(int64(len(src)))
	for i := 0; i < b.N; i++ {
		if _, err := Parse(src); err != nil {
			b.Fatal(err)
		}
	}
}

func BenchmarkExec(b *testing.B) {
	src, bufs := benchSetup(b)
	p, err := Parse(src)
	if err != nil {
		b.Fatal(err)
	}
	b.ReportAllocs()
	for i := 0; i < b.N; i++ {
		if err := p.Exec(bufs, Opts{}); err != nil {
			b.Fatal(err)
		}
	}
}

func BenchmarkExecPoison(b *testing.B) {
	src, bufs := benchSetup(b)
	p, err := Parse(src)
	if err != nil {
		b.Fatal(err)
	}
	b.ReportAllocs()
	for i := 0; i < b.N; i++ {
		if err := p.Exec(bufs, Opts{Opts: xrtPoison()}); err != nil {
			b.Fatal(err)
		}
	}
}
