// Package glslx is an independent parser and interpreter for the GLSL compute-shader text that
// gogpu/naga's GLSL backend emits. It is written from the GLSL 4.60 / ESSL 3.20 specifications and
// the OpenGL 4.6 specification (std140/std430), and knows nothing about naga's internals.
package glslx

import (
	"fmt"
	"strings"
)

// Kind is the fundamental category of a type.
type Kind uint8

const (
	KVoid Kind = iota
	KBool
	KInt
	KUint
	KFloat
	KVec
	KMat
	KArray
	KStruct
)

// Type describes a GLSL type. Types are interned: pointer equality is type equality.
type Type struct {
	Kind   Kind
	Elem   Kind  // scalar kind for scalars / vectors / matrices
	N      int   // vector size, or matrix rows (size of a column)
	Cols   int   // matrix columns
	Of     *Type // array element
	Len    int   // array length; -1 for a runtime-sized (unsized) array
	Struct *StructDef
	cells  int // number of scalar cells of a value of this type (0 for runtime-sized arrays)
	half   bool // 16-bit float scalar/vector/matrix: exists only in layout-only parses (layoutonly.go)
	name   string
}

// StructDef is a structure definition.
type StructDef struct {
	Name    string
	Members []StructMember
	typ     *Type
}

// StructMember is one member of a structure (or an interface block).
type StructMember struct {
	Name string
	Type *Type
	off  int // cell offset inside the flattened value
}

func (t *Type) String() string { return t.name }

// Cells is the number of scalar components of a value of this type.
func (t *Type) Cells() int { return t.cells }

func (t *Type) isScalar() bool { return t.Kind >= KBool && t.Kind <= KFloat }
func (t *Type) isVec() bool    { return t.Kind == KVec }
func (t *Type) isMat() bool    { return t.Kind == KMat }
func (t *Type) isNumeric() bool {
	return (t.isScalar() || t.isVec() || t.isMat()) && t.Elem != KBool
}
func (t *Type) isInt() bool {
	return (t.isScalar() || t.isVec()) && (t.Elem == KInt || t.Elem == KUint)
}
func (t *Type) isFloat() bool { return (t.isScalar() || t.isVec() || t.isMat()) && t.Elem == KFloat }
func (t *Type) isBoolish() bool {
	return (t.isScalar() || t.isVec()) && t.Elem == KBool
}

// comps is the component count for scalars and vectors (1..4), 0 otherwise.
func (t *Type) comps() int {
	switch {
	case t.isScalar():
		return 1
	case t.isVec():
		return t.N
	}
	return 0
}

var (
	tVoid  = &Type{Kind: KVoid, name: "void"}
	tBool  = &Type{Kind: KBool, Elem: KBool, N: 1, cells: 1, name: "bool"}
	tInt   = &Type{Kind: KInt, Elem: KInt, N: 1, cells: 1, name: "int"}
	tUint  = &Type{Kind: KUint, Elem: KUint, N: 1, cells: 1, name: "uint"}
	tFloat = &Type{Kind: KFloat, Elem: KFloat, N: 1, cells: 1, name: "float"}

	vecTypes [5][5]*Type // [elemKind][n]
	matTypes [5][5]*Type // [cols][rows]

	builtinTypeNames = map[string]*Type{}
)

var _ = initTypes()

func initTypes() bool {
	for _, e := range []struct {
		k Kind
		p string
	}{{KBool, "bvec"}, {KInt, "ivec"}, {KUint, "uvec"}, {KFloat, "vec"}} {
		for n := 2; n <= 4; n++ {
			t := &Type{Kind: KVec, Elem: e.k, N: n, cells: n, name: fmt.Sprintf("%s%d", e.p, n)}
			vecTypes[e.k][n] = t
			builtinTypeNames[t.name] = t
		}
	}
	vecTypes[KBool][1], vecTypes[KInt][1], vecTypes[KUint][1], vecTypes[KFloat][1] = tBool, tInt, tUint, tFloat
	for c := 2; c <= 4; c++ {
		for r := 2; r <= 4; r++ {
			t := &Type{Kind: KMat, Elem: KFloat, N: r, Cols: c, cells: c * r, name: fmt.Sprintf("mat%dx%d", c, r)}
			matTypes[c][r] = t
			builtinTypeNames[t.name] = t
			if c == r {
				builtinTypeNames[fmt.Sprintf("mat%d", c)] = t
			}
		}
	}
	for _, t := range []*Type{tVoid, tBool, tInt, tUint, tFloat} {
		builtinTypeNames[t.name] = t
	}
	return true
}

// vecOf returns the scalar (n==1) or vector type with element kind k.
func vecOf(k Kind, n int) *Type { return vecTypes[k][n] }

func scalarOf(k Kind) *Type { return vecTypes[k][1] }

// typeTable interns array types for one Program.
type typeTable struct {
	arrays map[arrayKey]*Type
}

type arrayKey struct {
	of *Type
	n  int
}

func (tt *typeTable) arrayOf(of *Type, n int) *Type {
	if tt.arrays == nil {
		tt.arrays = map[arrayKey]*Type{}
	}
	k := arrayKey{of, n}
	if t, ok := tt.arrays[k]; ok {
		return t
	}
	t := &Type{Kind: KArray, Of: of, Len: n}
	if n >= 0 {
		t.cells = n * of.cells
	}
	// GLSL spelling: element base type followed by all dimensions, outermost first.
	base := of
	dims := []string{dimStr(n)}
	for base.Kind == KArray {
		dims = append(dims, dimStr(base.Len))
		base = base.Of
	}
	t.name = base.name + strings.Join(dims, "")
	tt.arrays[k] = t
	return t
}

func dimStr(n int) string {
	if n < 0 {
		return "[]"
	}
	return fmt.Sprintf("[%d]", n)
}

func newStructType(def *StructDef) *Type {
	t := &Type{Kind: KStruct, Struct: def, name: def.Name}
	off := 0
	for i := range def.Members {
		def.Members[i].off = off
		off += def.Members[i].Type.cells
	}
	t.cells = off
	def.typ = t
	return t
}

// containsRuntimeArray reports whether t is or contains an unsized array.
func (t *Type) containsRuntimeArray() bool {
	switch t.Kind {
	case KArray:
		return t.Len < 0 || t.Of.containsRuntimeArray()
	case KStruct:
		for _, m := range t.Struct.Members {
			if m.Type.containsRuntimeArray() {
				return true
			}
		}
	}
	return false
}

// Names of types this package recognises but does not implement (-> *xrt.Unsupported).
var unsupportedTypeNames = map[string]bool{}

func init() {
	for _, s := range strings.Fields(`double dvec2 dvec3 dvec4 dmat2 dmat3 dmat4 dmat2x2 dmat2x3 dmat2x4 dmat3x2 dmat3x3 dmat3x4
		dmat4x2 dmat4x3 dmat4x4 float16_t f16vec2 f16vec3 f16vec4 f16mat2 f16mat3 f16mat4 f16mat2x2 f16mat2x3 f16mat2x4
		f16mat3x2 f16mat3x3 f16mat3x4 f16mat4x2 f16mat4x3 f16mat4x4 float32_t float64_t
		int8_t int16_t int32_t int64_t uint8_t uint16_t uint32_t uint64_t i64vec2 i64vec3 i64vec4 u64vec2 u64vec3 u64vec4
		i16vec2 i16vec3 i16vec4 u16vec2 u16vec3 u16vec4 i8vec2 i8vec3 i8vec4 u8vec2 u8vec3 u8vec4
		atomic_uint sampler samplerShadow accelerationStructureEXT rayQueryEXT`) {
		unsupportedTypeNames[s] = true
	}
}

// isOpaqueTypeName recognises sampler*/image*/texture*/subpass* type names.
func isOpaqueTypeName(s string) bool {
	if unsupportedTypeNames[s] {
		return true
	}
	for _, p := range []string{"sampler1D", "sampler2D", "sampler3D", "samplerCube", "samplerBuffer",
		"image1D", "image2D", "image3D", "imageCube", "imageBuffer",
		"texture1D", "texture2D", "texture3D", "textureCube", "textureBuffer", "subpassInput"} {
		if strings.HasPrefix(s, p) || strings.HasPrefix(s, "i"+p) || strings.HasPrefix(s, "u"+p) {
			return true
		}
	}
	return false
}
