package glslx

import (
	"math"
	"testing"

	"github.com/gogpu/naga/glsl"
)

// Hand-derived conformance tests, group 1: scalars, vectors, matrices, operators, conversions.
// Expected bytes are derived from the WGSL specification, never from an implementation.

const hdrI = `
@group(0) @binding(0) var<storage, read> a: array<i32>;
@group(0) @binding(1) var<storage, read_write> o: array<i32>;
`
const hdrU = `
@group(0) @binding(0) var<storage, read> a: array<u32>;
@group(0) @binding(1) var<storage, read_write> o: array<u32>;
`
const hdrF = `
@group(0) @binding(0) var<storage, read> a: array<f32>;
@group(0) @binding(1) var<storage, read_write> o: array<f32>;
`

const imin = math.MinInt32
const imax = math.MaxInt32

func esOnly(v glsl.Version) bool   { return v.ES }
func coreOnly(v glsl.Version) bool { return !v.ES }

var group1 = []conf{
	{
		name: "i32-arith",
		wgsl: hdrI + `@compute @workgroup_size(1) fn main() {
			let x = a[0]; let y = a[1];
			o[0] = x + y; o[1] = x - y; o[2] = x * y; o[3] = x / y; o[4] = x % y; o[5] = -x;
		}`,
		in:   bmap{bd(0, 0): i32s(7, 3), bd(0, 1): zeros(24)},
		want: bmap{bd(0, 1): i32s(10, 4, 21, 2, 1, -7)},
	},
	{
		// WGSL: truncated division; remainder has the sign of the dividend
		name: "i32-div-rem-negative",
		wgsl: hdrI + `@compute @workgroup_size(1) fn main() {
			o[0] = a[0] / a[1]; o[1] = a[0] % a[1]; o[2] = a[2] / a[1]; o[3] = a[2] % a[1]; o[4] = a[0] % a[3];
		}`,
		in:     bmap{bd(0, 0): i32s(7, -3, -7, 3), bd(0, 1): zeros(20)},
		want:   bmap{bd(0, 1): i32s(-2, 1, 2, -1, 1)},
		defect: "WGSL i32 % with a negative operand is emitted as raw GLSL % (undefined in GLSL 4.60 5.9 / ESSL 3.20 5.9)",
	},
	{
		name: "u32-arith-wrap",
		wgsl: hdrU + `@compute @workgroup_size(1) fn main() {
			let x = a[0]; let y = a[1];
			o[0] = x + y; o[1] = x - y; o[2] = x * y; o[3] = x / y; o[4] = x % y; o[5] = y - x;
		}`,
		in:   bmap{bd(0, 0): u32s(0xFFFFFFFF, 2), bd(0, 1): zeros(24)},
		want: bmap{bd(0, 1): u32s(1, 0xFFFFFFFD, 0xFFFFFFFE, 0x7FFFFFFF, 1, 3)},
	},
	{
		name: "i32-wrap",
		wgsl: hdrI + `@compute @workgroup_size(1) fn main() {
			o[0] = a[0] + 1; o[1] = a[1] - 1; o[2] = -a[1]; o[3] = a[0] * 2; o[4] = a[1] * a[1];
		}`,
		in:   bmap{bd(0, 0): i32s(imax, imin), bd(0, 1): zeros(20)},
		want: bmap{bd(0, 1): i32s(imin, imax, imin, -2, 0)},
	},
	{
		name: "bitwise-shift",
		wgsl: `
@group(0) @binding(0) var<storage, read> a: array<u32>;
@group(0) @binding(1) var<storage, read_write> o: array<u32>;
@compute @workgroup_size(1) fn main() {
	let x = a[0]; let y = a[1]; let s = a[2]; let i = bitcast<i32>(x);
	o[0] = x & y; o[1] = x | y; o[2] = x ^ y; o[3] = ~x;
	o[4] = x << s; o[5] = x >> s; o[6] = bitcast<u32>(i >> s); o[7] = bitcast<u32>(i << s);
	o[8] = bitcast<u32>(~i & 255);
}`,
		in: bmap{bd(0, 0): u32s(0xF0F0F0F0, 0x0FF00FF0, 4), bd(0, 1): zeros(36)},
		want: bmap{bd(0, 1): u32s(0x00F000F0, 0xFFF0FFF0, 0xFF00FF00, 0x0F0F0F0F,
			0x0F0F0F00, 0x0F0F0F0F, 0xFF0F0F0F, 0x0F0F0F00, 0x0F)},
	},
	{
		name: "compare-logical",
		wgsl: hdrI + `@compute @workgroup_size(1) fn main() {
			let x = a[0]; let y = a[1];
			o[0] = i32(x < y); o[1] = i32(x <= y); o[2] = i32(x > y); o[3] = i32(x >= y); o[4] = i32(x == y); o[5] = i32(x != y);
			o[6] = i32(x < y && y < 0); o[7] = i32(x > y || y > 0); o[8] = i32(!(x < y));
			o[9] = select(10, 20, x < y); o[10] = select(10, 20, x > y);
			o[11] = i32((x < y) & (y > 0)); o[12] = i32((x > y) | (y > 0));
		}`,
		in:   bmap{bd(0, 0): i32s(-5, 3), bd(0, 1): zeros(52)},
		want: bmap{bd(0, 1): i32s(1, 1, 0, 0, 0, 1, 0, 1, 0, 20, 10, 1, 1)},
	},
	{
		name: "u32-compare",
		wgsl: hdrU + `@compute @workgroup_size(1) fn main() {
			let x = a[0]; let y = a[1];
			o[0] = u32(x < y); o[1] = u32(x > y); o[2] = u32(x >= y); o[3] = select(x, y, x > y);
		}`,
		in:   bmap{bd(0, 0): u32s(0x80000000, 1), bd(0, 1): zeros(16)},
		want: bmap{bd(0, 1): u32s(0, 1, 1, 1)},
	},
	{
		name: "f32-arith",
		wgsl: hdrF + `@compute @workgroup_size(1) fn main() {
			let x = a[0]; let y = a[1];
			o[0] = x + y; o[1] = x - y; o[2] = x * y; o[3] = a[2] / a[3]; o[4] = a[4] % a[3]; o[5] = a[5] % a[3]; o[6] = -x;
			o[7] = f32(x < y) + f32(x == x);
		}`,
		in:   bmap{bd(0, 0): f32s(1.5, 2.25, 3, 2, 7.5, -7.5), bd(0, 1): zeros(32)},
		want: bmap{bd(0, 1): f32s(3.75, -0.75, 3.375, 1.5, 1.5, -1.5, -1.5, 2)},
	},
	{
		name: "conversions",
		wgsl: `
@group(0) @binding(0) var<storage, read> a: array<f32>;
@group(0) @binding(1) var<storage, read> b: array<i32>;
@group(0) @binding(2) var<storage, read_write> o: array<u32>;
@compute @workgroup_size(1) fn main() {
	o[0] = bitcast<u32>(i32(a[0])); o[1] = bitcast<u32>(i32(a[1])); o[2] = u32(a[2]);
	o[3] = bitcast<u32>(f32(b[0])); o[4] = bitcast<u32>(f32(bitcast<u32>(b[1])));
	o[5] = u32(b[2]); o[6] = bitcast<u32>(i32(bitcast<u32>(b[3])));
	o[7] = u32(true); o[8] = u32(bool(b[4])); o[9] = u32(bool(b[0])); o[10] = bitcast<u32>(f32(b[0] < 0));
	o[11] = u32(bool(a[3])) + u32(bool(a[0]));
}`,
		in: bmap{bd(0, 0): f32s(2.9, -2.9, 3.99, 0), bd(0, 1): u32s(0xFFFFFFFB, 4000000000, 0xFFFFFFFF, 0x80000000, 0), bd(0, 2): zeros(48)},
		want: bmap{bd(0, 2): u32s(2, 0xFFFFFFFE, 3, fb(-5), fb(4e9), 0xFFFFFFFF, 0x80000000,
			1, 0, 1, fb(1), 1)},
	},
	{
		name: "bitcast",
		wgsl: hdrU + `@compute @workgroup_size(1) fn main() {
			let f = bitcast<f32>(a[0]);
			o[0] = bitcast<u32>(f * 2.0);
			o[1] = bitcast<u32>(bitcast<i32>(a[1]) + 1);
			let v = bitcast<vec2<f32>>(vec2<u32>(a[0], a[2]));
			o[2] = bitcast<u32>(v.x + v.y);
			let w = bitcast<vec3<i32>>(vec3<f32>(1.0, -1.0, 0.0));
			o[3] = bitcast<u32>(w.x); o[4] = bitcast<u32>(w.y); o[5] = bitcast<u32>(w.z);
		}`,
		in:   bmap{bd(0, 0): u32s(0x3FC00000, 0xFFFFFFFF, 0x40000000), bd(0, 1): zeros(24)},
		want: bmap{bd(0, 1): u32s(fb(3), 0, fb(3.5), 0x3F800000, 0xBF800000, 0)},
	},
	{
		name: "vec-int-ops",
		wgsl: hdrI + `@compute @workgroup_size(1) fn main() {
			let v = vec3<i32>(a[0], a[1], a[2]); let w = vec3<i32>(a[3], a[4], a[5]);
			let s = v + w; let d = v - w; let p = v * w; let q = w / v; let r = w % v;
			o[0] = s.x; o[1] = s.y; o[2] = s.z; o[3] = d.x; o[4] = d.y; o[5] = d.z;
			o[6] = p.x; o[7] = p.y; o[8] = p.z; o[9] = q.x; o[10] = q.y; o[11] = q.z;
			o[12] = r.x; o[13] = r.y; o[14] = r.z;
			let t = 2 * v; let u = v * 3; let m = w / 2; let n = 100 / v; let k = w % 4; let nn = -v;
			o[15] = t.z; o[16] = u.y; o[17] = m.z; o[18] = n.z; o[19] = k.y; o[20] = nn.x;
			let b = (v & w) | (v ^ vec3<i32>(1)); o[21] = b.x; o[22] = b.y; o[23] = b.z;
			let sh = (w << vec3<u32>(1u, 2u, 3u)) >> vec3<u32>(1u); o[24] = sh.x; o[25] = sh.y; o[26] = sh.z;
		}`,
		in: bmap{bd(0, 0): i32s(1, 2, 3, 10, 20, 31), bd(0, 1): zeros(27 * 4)},
		want: bmap{bd(0, 1): i32s(11, 22, 34, -9, -18, -28, 10, 40, 93, 10, 10, 10, 0, 0, 1,
			6, 6, 15, 33, 0, -1,
			0|0, (2&20)|(2^1), (3&31)|(3^1),
			10, 40, 124)},
	},
	{
		name: "vec-float-ops-swizzle",
		wgsl: hdrF + `@compute @workgroup_size(1) fn main() {
			let v = vec4<f32>(a[0], a[1], a[2], a[3]);
			let w = v.wzyx + v * 2.0;          // (4+2, 3+4, 2+6, 1+8)
			o[0] = w.x; o[1] = w.y; o[2] = w.z; o[3] = w.w;
			let x = v.xx; o[4] = x.x + x.y;     // 2
			let y = 10.0 - v.yzw;               // (8,7,6)
			o[5] = y.x; o[6] = y.y; o[7] = y.z;
			var z = v.xyz; z.y = 9.0; z.x = z.z; // (3,9,3)
			o[8] = z.x; o[9] = z.y; o[10] = z.z;
			let q = v.rgb / vec3<f32>(2.0, 4.0, 8.0); o[11] = q.r; o[12] = q.g; o[13] = q.b;
			let n = -v.zw; o[14] = n.x; o[15] = n.y;
			o[16] = v[2]; var i = 1; o[17] = v[i]; z[i] = 5.0; o[18] = z.y;
		}`,
		in: bmap{bd(0, 0): f32s(1, 2, 3, 4), bd(0, 1): zeros(19 * 4)},
		want: bmap{bd(0, 1): f32s(6, 7, 8, 9, 2, 8, 7, 6, 3, 9, 3, 0.5, 0.5, 0.375, -3, -4,
			3, 2, 5)},
	},
	{
		name: "vec-constructors",
		wgsl: hdrF + `@compute @workgroup_size(1) fn main() {
			let p = vec2<f32>(a[0], a[1]);
			let v = vec4<f32>(p, 7.0, 8.0); let w = vec4<f32>(9.0, p, 10.0); let x = vec4<f32>(vec3<f32>(p, 1.0), 2.0);
			let s = vec3<f32>(a[1]); let z = vec3<f32>(); let c = vec2<f32>(vec2<i32>(3, -4)); let d = vec4<f32>(p, p);
			let e = vec3<i32>(vec3<f32>(1.7, -1.7, 2.0)); let g = vec2<u32>(vec2<f32>(3.9, 0.1));
			let h = vec3<f32>(vec3<bool>(true, false, true));
			o[0] = v.x + v.y * 10.0 + v.z * 100.0 + v.w * 1000.0;  // 1+20+700+8000
			o[1] = w.x + w.y * 10.0 + w.z * 100.0 + w.w * 1000.0;  // 9+10+200+10000
			o[2] = x.x + x.y * 10.0 + x.z * 100.0 + x.w * 1000.0;  // 1+20+100+2000
			o[3] = s.x + s.y + s.z; o[4] = z.x + z.y + z.z; o[5] = c.x * c.y; o[6] = d.z + d.w;
			o[7] = f32(e.x) + f32(e.y) * 10.0 + f32(e.z) * 100.0;    // 1 - 10 + 200
			o[8] = f32(g.x) + f32(g.y); o[9] = h.x + h.y * 10.0 + h.z * 100.0;
		}`,
		in:   bmap{bd(0, 0): f32s(1, 2), bd(0, 1): zeros(40)},
		want: bmap{bd(0, 1): f32s(8721, 10219, 2121, 6, 0, -12, 3, 191, 3, 101)},
	},
	{
		name: "vec-compare-all-any",
		wgsl: hdrI + `@compute @workgroup_size(1) fn main() {
			let v = vec3<i32>(a[0], a[1], a[2]); let w = vec3<i32>(a[3], a[4], a[5]);
			o[0] = i32(all(v < w)); o[1] = i32(any(v < w)); o[2] = i32(all(v == v)); o[3] = i32(any(v != v));
			o[4] = i32(all(v <= w)); o[5] = i32(any(v >= w)); o[6] = i32(any(v > w));
			let b = v < w; o[7] = i32(b.x) + i32(b.y) * 10 + i32(b.z) * 100;
			let nb = !b; o[8] = i32(nb.x) + i32(nb.y) * 10 + i32(nb.z) * 100;
			let f = vec2<f32>(f32(a[0]), 2.5) == vec2<f32>(1.0, 2.5); o[9] = i32(all(f));
			o[10] = i32(all(vec2<u32>(1u, 2u) != vec2<u32>(2u, 1u)));
		}`,
		in:   bmap{bd(0, 0): i32s(1, 5, 3, 2, 5, 1), bd(0, 1): zeros(44)},
		want: bmap{bd(0, 1): i32s(0, 1, 1, 0, 0, 1, 1, 1, 110, 1, 1)},
	},
	{
		name: "vec-select",
		wgsl: hdrI + `@compute @workgroup_size(1) fn main() {
			let v = vec3<i32>(a[0], a[1], a[2]); let w = vec3<i32>(a[3], a[4], a[5]);
			let s = select(v, w, v < w);   // picks w where v<w: (2, 5, 3)
			o[0] = s.x; o[1] = s.y; o[2] = s.z;
			let t = select(v, w, a[0] == 1);  // scalar condition: w
			o[3] = t.x; o[4] = t.y; o[5] = t.z;
		}`,
		in:     bmap{bd(0, 0): i32s(1, 5, 3, 2, 5, 1), bd(0, 1): zeros(24)},
		want:   bmap{bd(0, 1): i32s(2, 5, 3, 2, 5, 1)},
		defect: "select() with a vector condition is emitted as `bvecN ? a : b`; GLSL requires a scalar bool condition for ?: (4.60 section 5.9)",
	},
	{
		name: "mat2x2-ops",
		wgsl: hdrF + `@compute @workgroup_size(1) fn main() {
			let m = mat2x2<f32>(a[0], a[1], a[2], a[3]);       // columns (1,2) (3,4)
			let n = mat2x2<f32>(vec2<f32>(0.0, 1.0), vec2<f32>(1.0, 1.0));
			let v = vec2<f32>(5.0, 6.0);
			let mv = m * v;     // 5*(1,2)+6*(3,4) = (23,34)
			let vm = v * m;     // (dot(v,c0), dot(v,c1)) = (17, 39)
			let mn = m * n;     // col0 = m*(0,1) = (3,4); col1 = m*(1,1) = (4,6)
			let two = a[1]; let ms = m * two; let sm = (two * 0.25) * m; let pl = m + n; let mi = m - n;
			let t = transpose(m); // columns (1,3) (2,4)
			o[0] = mv.x; o[1] = mv.y; o[2] = vm.x; o[3] = vm.y;
			o[4] = mn[0].x; o[5] = mn[0].y; o[6] = mn[1].x; o[7] = mn[1].y;
			o[8] = ms[1][0]; o[9] = sm[0][1]; o[10] = pl[1].y; o[11] = mi[0][0];
			o[12] = t[0].y; o[13] = t[1].x; o[14] = determinant(m);
			var mm = m; mm[1] = vec2<f32>(7.0, 8.0); mm[0][1] = 9.0; var i = 1; mm[i].x = 10.0;
			o[15] = mm[0][0]; o[16] = mm[0][1]; o[17] = mm[1][0]; o[18] = mm[1][1];
		}`,
		in: bmap{bd(0, 0): f32s(1, 2, 3, 4), bd(0, 1): zeros(19 * 4)},
		want: bmap{bd(0, 1): f32s(23, 34, 17, 39, 3, 4, 4, 6, 6, 1, 5, 1, 3, 2, -2,
			1, 9, 10, 8)},
	},
	{
		name: "mat-nonsquare",
		wgsl: hdrF + `@compute @workgroup_size(1) fn main() {
			// mat2x3: 2 columns of vec3
			let m = mat2x3<f32>(vec3<f32>(a[0], a[1], a[2]), vec3<f32>(a[3], a[4], a[5])); // c0=(1,2,3) c1=(4,5,6)
			let v2 = vec2<f32>(1.0, 2.0); let v3 = vec3<f32>(1.0, 0.0, 2.0);
			let mv = m * v2;   // 1*(1,2,3)+2*(4,5,6) = (9,12,15)
			let vm = v3 * m;   // (dot(v3,c0), dot(v3,c1)) = (7, 16)
			let k = mat3x2<f32>(vec2<f32>(1.0, 0.0), vec2<f32>(0.0, 1.0), vec2<f32>(1.0, 1.0));
			let p = m * k;     // mat3x3: col j = m * k[j]: (1,2,3) (4,5,6) (5,7,9)
			let q = k * m;     // mat2x2: col j = k * m[j]: k*(1,2,3) = (1+3, 2+3) = (4,5); k*(4,5,6) = (10, 11)
			let t = mat3x2<f32>(vec2<f32>(1.0, 4.0), vec2<f32>(2.0, 5.0), vec2<f32>(3.0, 6.0));
			o[0] = mv.x; o[1] = mv.y; o[2] = mv.z; o[3] = vm.x; o[4] = vm.y;
			o[5] = p[2].x; o[6] = p[2].y; o[7] = p[2].z; o[8] = p[1].z;
			o[9] = q[0].x; o[10] = q[0].y; o[11] = q[1].x; o[12] = q[1].y;
			o[13] = t[2].x; o[14] = t[2].y; o[15] = t[0].y;
			let m43 = mat4x3<f32>(v3, v3 * 2.0, v3 * 3.0, v3 * 4.0);
			let r = m43 * vec4<f32>(1.0, 1.0, 1.0, 1.0);  // 10 * v3 = (10, 0, 20)
			o[16] = r.x; o[17] = r.y; o[18] = r.z;
			let l = vec3<f32>(1.0, 1.0, 1.0) * m43;   // (3, 6, 9, 12)
			o[19] = l.x + l.y + l.z + l.w;
			let m24 = mat2x4<f32>(vec4<f32>(1.0, 2.0, 3.0, 4.0), vec4<f32>(5.0, 6.0, 7.0, 8.0));
			let m42 = mat4x2<f32>(vec2<f32>(1.0, 5.0), vec2<f32>(2.0, 6.0), vec2<f32>(3.0, 7.0), vec2<f32>(4.0, 8.0));
			o[20] = m42[3].x + m42[3].y * 10.0; o[21] = (m24 * vec2<f32>(1.0, 1.0)).w;
			let m34 = mat3x4<f32>(); let m44 = mat4x4<f32>(vec4<f32>(1.0), vec4<f32>(2.0), vec4<f32>(3.0), vec4<f32>(4.0));
			o[22] = m34[2].w + (m44 * vec4<f32>(1.0, 0.0, 0.0, 1.0)).z;  // 0 + 1+4
			let m32 = mat3x2<f32>(1.0, 2.0, 3.0, 4.0, 5.0, 6.0);
			o[23] = (m32 * vec3<f32>(1.0, 1.0, 1.0)).y;  // 2+4+6
		}`,
		in: bmap{bd(0, 0): f32s(1, 2, 3, 4, 5, 6), bd(0, 1): zeros(24 * 4)},
		want: bmap{bd(0, 1): f32s(9, 12, 15, 7, 16, 5, 7, 9, 6, 4, 5, 10, 11, 3, 6, 4,
			10, 0, 20, 30, 84, 12, 5, 12)},
	},
	{
		name: "compound-assign-incdec",
		wgsl: hdrI + `@compute @workgroup_size(1) fn main() {
			var x = a[0];
			x += 5; o[0] = x; x -= 2; o[1] = x; x *= 3; o[2] = x; x /= 4; o[3] = x; x %= 5; o[4] = x;
			x <<= 3u; o[5] = x; x >>= 1u; o[6] = x; x |= 1; o[7] = x; x &= 6; o[8] = x; x ^= 15; o[9] = x;
			x++; o[10] = x; x--; x--; o[11] = x;
			var v = vec2<i32>(1, 2); v += vec2<i32>(10, 20); v *= 2; o[12] = v.x; o[13] = v.y; v.x += 1; v.y -= 1; o[14] = v.x + v.y;
			var f = vec3<f32>(1.0, 2.0, 3.0); f *= 2.0; f -= vec3<f32>(1.0); o[15] = i32(f.x + f.y + f.z);
			o[16] += 7; o[16] *= 2;
		}`,
		// x: 10 -> 15 -> 13 -> 39 -> 9 -> 4 -> 32 -> 16 -> 17 -> 0 (17&6=0) -> 15 -> 16 -> 14
		in:   bmap{bd(0, 0): i32s(10), bd(0, 1): cat(zeros(64), i32s(3))},
		want: bmap{bd(0, 1): i32s(15, 13, 39, 9, 4, 32, 16, 17, 0, 15, 16, 14, 22, 44, 66, 9, 20)},
	},
	{
		name: "let-var-const",
		wgsl: `
const K: i32 = 3 * 4 + 1;
const V = vec2<i32>(K, K * 2);
const ARR = array<i32, 3>(10, 20, 30);
@group(0) @binding(0) var<storage, read> a: array<i32>;
@group(0) @binding(1) var<storage, read_write> o: array<i32>;
@compute @workgroup_size(1) fn main() {
	const L = K - 3;
	let x = a[0] + L;
	var y: i32; var z = x;
	y = z + V.y; z = 0;
	o[0] = K; o[1] = x; o[2] = y; o[3] = z; o[4] = ARR[a[1]] + ARR[2]; o[5] = V.x;
	var arr = array<i32, 4>(1, 2, 3, 4); arr[a[1]] = 9; o[6] = arr[0] + arr[1] * 10 + arr[2] * 100 + arr[3] * 1000;
	var zz = array<vec2<f32>, 2>(); o[7] = i32(zz[1].y);
}`,
		in:   bmap{bd(0, 0): i32s(5, 1), bd(0, 1): zeros(32)},
		want: bmap{bd(0, 1): i32s(13, 15, 41, 0, 50, 13, 4391, 0)},
	},
	{
		name: "short-circuit-order",
		wgsl: `
var<private> cnt: i32 = 0;
fn bump(r: bool) -> bool { cnt = cnt * 10 + 1; return r; }
fn bump2(r: bool) -> bool { cnt = cnt * 10 + 2; return r; }
@group(0) @binding(0) var<storage, read> a: array<i32>;
@group(0) @binding(1) var<storage, read_write> o: array<i32>;
@compute @workgroup_size(1) fn main() {
	let t = a[0] == 1; let f = a[0] == 0;
	let r0 = bump(f) && bump2(t); o[0] = cnt; o[1] = i32(r0); cnt = 0;
	let r1 = bump(t) && bump2(f); o[2] = cnt; o[3] = i32(r1); cnt = 0;
	let r2 = bump(t) || bump2(f); o[4] = cnt; o[5] = i32(r2); cnt = 0;
	let r3 = bump(f) || bump2(t); o[6] = cnt; o[7] = i32(r3); cnt = 0;
	let r4 = bump(f) & bump2(t); o[8] = cnt; o[9] = i32(r4);
}`,
		in:   bmap{bd(0, 0): i32s(1), bd(0, 1): zeros(40)},
		want: bmap{bd(0, 1): i32s(1, 0, 12, 0, 1, 1, 12, 1, 12, 0)},
	},
	{
		name: "shift-edge",
		wgsl: hdrU + `@compute @workgroup_size(1) fn main() {
			o[0] = a[0] << a[1]; o[1] = a[0] >> a[1]; o[2] = bitcast<u32>(bitcast<i32>(a[0]) >> a[1]); o[3] = 1u << a[2];
		}`,
		in:   bmap{bd(0, 0): u32s(0x80000001, 31, 0), bd(0, 1): zeros(16)},
		want: bmap{bd(0, 1): u32s(0x80000000, 1, 0xFFFFFFFF, 1)},
	},
	{
		// WGSL: the shift count is taken modulo the bit width: x << 33 == x << 1
		name: "shift-count-modulo",
		wgsl: hdrU + `@compute @workgroup_size(1) fn main() {
			o[0] = a[0] << a[1]; o[1] = a[0] >> a[1];
		}`,
		in:     bmap{bd(0, 0): u32s(6, 33), bd(0, 1): zeros(8)},
		want:   bmap{bd(0, 1): u32s(12, 3)},
		defect: "WGSL defines x << n as a shift by n mod 32; naga emits a raw GLSL shift, undefined for n >= 32 (GLSL 4.60 section 5.9)",
	},
	{
		name: "zero-values-and-let-snapshot",
		wgsl: hdrI + `
struct S { a: i32, v: vec3<f32>, arr: array<vec2<u32>, 2>, m: mat2x2<f32> }
@compute @workgroup_size(1) fn main() {
	var s = S(); var arr = array<i32, 3>(); var m = mat3x2<f32>(); var v = vec4<i32>(); var b = bool(); var u = u32(); var f = f32();
	o[0] = s.a + i32(s.v.z) + i32(s.arr[1].y) + i32(s.m[1][1]) + arr[2] + i32(m[2].y) + v.w + i32(b) + i32(u) + i32(f) + 1;
	var x = a[0]; let snap = x; x = 5; o[1] = snap; o[2] = x;
	let sv = s; s.a = 9; o[3] = sv.a + s.a;
	var w = vec2<i32>(1, 2); let ws = w.yx; w.x = 7; o[4] = ws.y * 10 + w.x;
	let e = a[1] + x; x = 0; o[5] = e;
}`,
		in:   bmap{bd(0, 0): i32s(3, 4), bd(0, 1): zeros(24)},
		want: bmap{bd(0, 1): i32s(1, 3, 5, 9, 17, 9)},
	},
	{
		name: "bool-vectors",
		wgsl: hdrI + `@compute @workgroup_size(1) fn main() {
			let v = vec3<i32>(a[0], a[1], a[2]); let w = vec3<i32>(a[3], a[4], a[5]);
			let p = v < w; let q = v == w;                 // (T,F,F) (F,T,F)
			let r = p & q; let s = p | q; let e = p == q; let n = p != q;
			o[0] = i32(all(r)) + i32(any(s)) + i32(all(e)) + i32(any(n));
			let bs = select(false, true, a[0] > 0); let t = vec2<bool>(bs, !bs); o[1] = i32(t.x) + i32(t.y) * 10;
			let u = vec3<u32>(p); let f = vec3<f32>(q); let i = vec3<i32>(s); o[2] = i32(u.x) + i32(f.y) * 10 + i.z * 100;
			let sc = ((a[0] > 1) & (a[1] > 1)) | (a[2] > 1); o[3] = i32(sc);
			var pv = vec3<bool>(); pv.y = true; o[4] = i32(pv.y) + i32(pv.x) * 10;
			let neg = -v; let cmpl = ~v; let um = -(w.x); o[5] = neg.x + cmpl.y + um;
		}`,
		in:   bmap{bd(0, 0): i32s(1, 5, 3, 2, 5, 1), bd(0, 1): zeros(24)},
		want: bmap{bd(0, 1): i32s(2, 1, 11, 1, 1, -9)},
	},
	{
		name: "mat-times-abstract-literal",
		wgsl: hdrF + `@compute @workgroup_size(1) fn main() {
			let m = mat2x2<f32>(a[0], a[1], a[2], a[3]);
			let ms = m * 2.0; let sm = 0.5 * m;
			o[0] = ms[1][0]; o[1] = sm[0][1];
		}`,
		in:     bmap{bd(0, 0): f32s(1, 2, 3, 4), bd(0, 1): zeros(8)},
		want:   bmap{bd(0, 1): f32s(6, 1)},
		defect: "matrix * abstract-float literal keeps an f64 literal: emitted as `2.0LF` (a double in GLSL 4.x: mat2*double does not convert back to mat2; a syntax error in ESSL)",
	},
	{
		name: "transpose-nonsquare",
		wgsl: hdrF + `@compute @workgroup_size(1) fn main() {
			let m = mat2x3<f32>(vec3<f32>(a[0], a[1], a[2]), vec3<f32>(a[3], a[4], a[5]));
			let t = transpose(m); // mat3x2: columns (1,4) (2,5) (3,6)
			o[0] = t[2].x; o[1] = t[2].y; o[2] = t[0].y;
		}`,
		in:     bmap{bd(0, 0): f32s(1, 2, 3, 4, 5, 6), bd(0, 1): zeros(12)},
		want:   bmap{bd(0, 1): f32s(3, 6, 4)},
		defect: "transpose() of a non-square matrix is typed with the operand's shape: `mat2x3 t = transpose(m23)` (the value is a mat3x2) - a GLSL type error",
	},
}

func TestConformGroup1(t *testing.T) {
	for _, c := range group1 {
		c := c
		t.Run(c.name, func(t *testing.T) { runConf(t, c) })
	}
}
