package glslx

// Layout-only parsing (added for the static memory-layout check C07/F3x): the declarations of a
// shader — structures, interface blocks, global variables — are parsed and laid out as usual, but
// function definitions are skipped without being checked, and the 16-bit float types of
// GL_EXT_shader_explicit_arithmetic_types_float16 / GL_EXT_shader_16bit_storage (float16_t,
// f16vecN, f16matCxR) may be declared. Those types have a layout (scalar size 2 in rules 1-10 of the
// std140/std430 section) but no semantics in this package, which is why Parse keeps rejecting them:
// nothing that is executed or type-checked ever sees them.

import "fmt"

var halfTypeNames = buildHalfTypes()

func buildHalfTypes() map[string]*Type {
	m := map[string]*Type{}
	m["float16_t"] = &Type{Kind: KFloat, Elem: KFloat, N: 1, cells: 1, name: "float16_t", half: true}
	for n := 2; n <= 4; n++ {
		t := &Type{Kind: KVec, Elem: KFloat, N: n, cells: n, name: fmt.Sprintf("f16vec%d", n), half: true}
		m[t.name] = t
	}
	for c := 2; c <= 4; c++ {
		for r := 2; r <= 4; r++ {
			t := &Type{Kind: KMat, Elem: KFloat, N: r, Cols: c, cells: c * r, name: fmt.Sprintf("f16mat%dx%d", c, r), half: true}
			m[t.name] = t
			if c == r {
				m[fmt.Sprintf("f16mat%d", c)] = t
			}
		}
	}
	return m
}

// ParseLayout parses only the declarations of src (see the file comment). The returned Program
// supports Blocks, BindingOf, Decls, Version and LocalSize; it must not be executed.
func ParseLayout(src string) (*Program, error) { return parse(src, true) }

// skipFunction skips `name ( ... )` followed by `;` or a brace-balanced body.
func (p *parser) skipFunction() {
	start := p.next()
	depth := 0
	for {
		t := p.next()
		if t.kind == tkEOF {
			p.fail(start.line, "unterminated parameter list of %q", start.text)
		}
		if t.kind == tkPunct && t.text == "(" {
			depth++
		}
		if t.kind == tkPunct && t.text == ")" {
			depth--
			if depth == 0 {
				break
			}
		}
	}
	if p.accept(";") {
		return
	}
	if !p.isPunct("{") {
		p.fail(p.peek().line, "expected a function body after %q(...)", start.text)
	}
	depth = 0
	for {
		t := p.next()
		if t.kind == tkEOF {
			p.fail(start.line, "unterminated body of function %q", start.text)
		}
		if t.kind == tkPunct && t.text == "{" {
			depth++
		}
		if t.kind == tkPunct && t.text == "}" {
			depth--
			if depth == 0 {
				return
			}
		}
	}
}
