package glslx

import (
	"strings"
)

// ---- implicit conversions (GLSL 4.60 section 4.1.10; ESSL has none) ----

func (p *parser) implicitOK(from, to Kind) bool {
	if from == to {
		return true
	}
	if p.prog.es {
		return false
	}
	v := p.prog.version
	switch {
	case from == KInt && to == KUint:
		return v >= 400
	case from == KInt && to == KFloat:
		return v >= 120
	case from == KUint && to == KFloat:
		return v >= 130
	}
	return false
}

func sameShape(a, b *Type) bool {
	return a.Kind == b.Kind && a.N == b.N && a.Cols == b.Cols ||
		a.isScalar() && b.isScalar()
}

// canConvert: can a value of type from be implicitly converted to type to?
func (p *parser) canConvert(from, to *Type) bool {
	if from == to {
		return true
	}
	if !(from.isScalar() || from.isVec() || from.isMat()) || !(to.isScalar() || to.isVec() || to.isMat()) {
		return false
	}
	if from.isScalar() != to.isScalar() || from.isVec() != to.isVec() || from.N != to.N || from.Cols != to.Cols {
		return false
	}
	return p.implicitOK(from.Elem, to.Elem)
}

func withElem(t *Type, k Kind) *Type {
	switch {
	case t.isScalar():
		return scalarOf(k)
	case t.isVec():
		return vecOf(k, t.N)
	}
	return t
}

func (p *parser) convertTo(e *Expr, to *Type, what string, line int) *Expr {
	if e.typ == to {
		return e
	}
	if !p.canConvert(e.typ, to) {
		p.fail(line, "%s: cannot convert %s to %s", what, e.typ, to)
	}
	return p.fold(&Expr{op: xConvert, typ: to, a: e, line: line, fx: e.fx, cx: e.k()})
}

// ---- constant folding ----

const foldLimit = 4096

// fold replaces a constant expression by its value when it can be evaluated without a trap.
func (p *parser) fold(e *Expr) *Expr {
	if !e.cx || e.op == xConst {
		return e
	}
	if e.typ.cells == 0 || e.typ.cells > foldLimit {
		e.cx, e.kx = false, true
		return e
	}
	v, ok := p.kev.constEval(e)
	if !ok {
		// still a constant expression by the language's rules; it is evaluated (and may trap) at run time
		e.cx, e.kx = false, true
		return e
	}
	return &Expr{op: xConst, typ: e.typ, val: v, line: e.line, cx: true}
}

// k: is e a constant expression (folded, foldable or left unfolded)?
func (e *Expr) k() bool { return e.cx || e.kx }

func (p *parser) tryConst(e *Expr) ([]cell, bool) {
	if e.op == xConst {
		return e.val, true
	}
	return nil, false
}

func (p *parser) constInt(e *Expr, what string) int64 {
	v, ok := p.tryConst(e)
	if !ok || (e.typ != tInt && e.typ != tUint) {
		p.fail(e.line, "%s must be a constant integer expression", what)
	}
	if e.typ == tInt {
		return int64(int32(v[0].bits()))
	}
	return int64(v[0].bits())
}

func constExpr(t *Type, line int, bits ...uint32) *Expr {
	v := make([]cell, len(bits))
	for i, b := range bits {
		v[i] = cell(b)
	}
	return &Expr{op: xConst, typ: t, val: v, line: line, cx: true}
}

// ---- expressions ----

func (p *parser) parseExpr() *Expr {
	e := p.parseAssign()
	for p.isPunct(",") {
		t := p.next()
		r := p.parseAssign()
		e = &Expr{op: xComma, typ: r.typ, a: e, b: r, line: t.line, fx: e.fx || r.fx}
	}
	return e
}

var assignOps = map[string]int{"=": -1, "+=": int(bAdd), "-=": int(bSub), "*=": int(bMul), "/=": int(bDiv), "%=": int(bMod),
	"<<=": int(bShl), ">>=": int(bShr), "&=": int(bAnd), "|=": int(bOr), "^=": int(bXor)}

func (p *parser) parseAssign() *Expr {
	lhs := p.parseTernary()
	t := p.peek()
	if t.kind != tkPunct {
		return lhs
	}
	op, ok := assignOps[t.text]
	if !ok {
		return lhs
	}
	p.pos++
	rhs := p.parseAssign()
	p.checkWritable(lhs, t.line, "left operand of "+t.text)
	if lhs.typ.containsRuntimeArray() {
		p.fail(t.line, "assignment to an unsized array")
	}
	e := &Expr{op: xAssign, typ: lhs.typ, a: lhs, line: t.line, fx: true}
	if op < 0 {
		e.b = p.convertTo(rhs, lhs.typ, "assignment", t.line)
		return e
	}
	hole := &Expr{op: xHole, typ: lhs.typ, line: t.line}
	r := p.mkBinary(binop(op), hole, rhs, t.line)
	if r.typ != lhs.typ {
		p.fail(t.line, "%s: result type %s does not match the left operand's type %s", t.text, r.typ, lhs.typ)
	}
	e.b = r
	e.sub = 1
	return e
}

func (p *parser) checkWritable(e *Expr, line int, what string) {
	if !e.lv {
		p.fail(line, "%s is not an l-value", what)
	}
	switch e.sp {
	case spConst:
		p.fail(line, "%s: %s is read-only (const or built-in input)", what, e.rootName())
	case spBuffer:
		b := e.rootBlk
		if b != nil && b.storage == "uniform" {
			p.fail(line, "%s: member of uniform block %s is read-only", what, b.name)
		}
		if b != nil && b.readonly {
			p.fail(line, "%s: member of readonly block %s is written", what, b.name)
		}
	}
}

func (e *Expr) rootName() string {
	for x := e; x != nil; x = x.a {
		if x.name != "" {
			return x.name
		}
	}
	return "expression"
}

func (p *parser) parseTernary() *Expr {
	c := p.parseBinary(0)
	if !p.isPunct("?") {
		return c
	}
	t := p.next()
	if c.typ != tBool {
		p.fail(t.line, "condition of ?: has type %s; it must be a scalar bool", c.typ)
	}
	a := p.parseExpr()
	p.expect(":")
	b := p.parseAssign()
	if a.typ != b.typ {
		switch {
		case p.canConvert(a.typ, b.typ):
			a = p.convertTo(a, b.typ, "?:", t.line)
		case p.canConvert(b.typ, a.typ):
			b = p.convertTo(b, a.typ, "?:", t.line)
		default:
			p.fail(t.line, "operands of ?: have different types %s and %s", a.typ, b.typ)
		}
	}
	if a.typ.Kind == KVoid {
		p.fail(t.line, "operands of ?: have type void")
	}
	return p.fold(&Expr{op: xTernary, typ: a.typ, a: c, b: a, c: b, line: t.line, fx: c.fx || a.fx || b.fx, cx: c.k() && a.k() && b.k()})
}

type binInfo struct {
	prec int
	op   int // binop, or -1 && , -2 || , -3 ^^
}

var binOps = map[string]binInfo{
	"||": {1, -2}, "^^": {2, -3}, "&&": {3, -1},
	"|": {4, int(bOr)}, "^": {5, int(bXor)}, "&": {6, int(bAnd)},
	"==": {7, int(bEq)}, "!=": {7, int(bNe)},
	"<": {8, int(bLt)}, ">": {8, int(bGt)}, "<=": {8, int(bLe)}, ">=": {8, int(bGe)},
	"<<": {9, int(bShl)}, ">>": {9, int(bShr)},
	"+": {10, int(bAdd)}, "-": {10, int(bSub)},
	"*": {11, int(bMul)}, "/": {11, int(bDiv)}, "%": {11, int(bMod)},
}

func (p *parser) parseBinary(minPrec int) *Expr {
	lhs := p.parseUnary()
	for {
		t := p.peek()
		if t.kind != tkPunct {
			return lhs
		}
		bi, ok := binOps[t.text]
		if !ok || bi.prec <= minPrec {
			return lhs
		}
		p.pos++
		rhs := p.parseBinary(bi.prec)
		if bi.op < 0 {
			if lhs.typ != tBool || rhs.typ != tBool {
				p.fail(t.line, "operands of %s must be scalar bool, found %s and %s", t.text, lhs.typ, rhs.typ)
			}
			op := xLogAnd
			if bi.op == -2 {
				op = xLogOr
			} else if bi.op == -3 {
				op = xLogXor
			}
			lhs = p.fold(&Expr{op: op, typ: tBool, a: lhs, b: rhs, line: t.line, fx: lhs.fx || rhs.fx, cx: lhs.k() && rhs.k()})
			continue
		}
		lhs = p.mkBinary(binop(bi.op), lhs, rhs, t.line)
	}
}

var binopText = [...]string{"+", "-", "*", "/", "%", "<<", ">>", "&", "|", "^", "<", ">", "<=", ">=", "==", "!="}

// unify applies the implicit conversions for binary operators: float if either is float, else
// uint if either is uint (GLSL 4.60 section 4.1.10).
func (p *parser) unify(op binop, a, b *Expr, line int) (*Expr, *Expr) {
	ka, kb := a.typ.Elem, b.typ.Elem
	if ka == kb {
		return a, b
	}
	var target Kind
	switch {
	case ka == KFloat || kb == KFloat:
		target = KFloat
	case ka == KUint || kb == KUint:
		target = KUint
	default:
		target = KInt
	}
	if ka == KBool || kb == KBool || !p.implicitOK(ka, target) || !p.implicitOK(kb, target) {
		p.fail(line, "operands of %s have incompatible types %s and %s (no implicit conversion)", binopText[op], a.typ, b.typ)
	}
	if ka != target {
		a = p.convertTo(a, withElem(a.typ, target), "operand", line)
	}
	if kb != target {
		b = p.convertTo(b, withElem(b.typ, target), "operand", line)
	}
	return a, b
}

func (p *parser) mkBinary(op binop, a, b *Expr, line int) *Expr {
	bad := func() {
		p.fail(line, "operator %s cannot be applied to %s and %s", binopText[op], a.typ, b.typ)
	}
	e := &Expr{op: xBinary, sub: uint8(op), line: line, fx: a.fx || b.fx, cx: a.k() && b.k()}
	ta, tb := a.typ, b.typ
	arith := func(t *Type) bool { return t.isNumeric() }
	switch op {
	case bAdd, bSub, bMul, bDiv:
		if !arith(ta) || !arith(tb) {
			bad()
		}
		if (ta.isMat() || tb.isMat()) && (ta.Elem != KFloat || tb.Elem != KFloat) {
			// integer operand with a matrix: convert to float when allowed
			if !p.implicitOK(ta.Elem, KFloat) || !p.implicitOK(tb.Elem, KFloat) {
				bad()
			}
		}
		a, b = p.unify(op, a, b, line)
		ta, tb = a.typ, b.typ
		switch {
		case ta.isScalar() && tb.isScalar():
			e.typ, e.shape = ta, shSame
		case ta.isScalar():
			e.typ, e.shape = tb, shScalarL
		case tb.isScalar():
			e.typ, e.shape = ta, shScalarR
		case ta.isVec() && tb.isVec():
			if ta.N != tb.N {
				bad()
			}
			e.typ, e.shape = ta, shSame
		case ta.isMat() && tb.isMat():
			if op == bMul {
				// (A: Ca x Ra) * (B: Cb x Rb) needs Ca == Rb; result Cb x Ra
				if ta.Cols != tb.N {
					bad()
				}
				e.typ, e.shape = matTypes[tb.Cols][ta.N], shMatMat
			} else {
				if ta != tb {
					bad()
				}
				e.typ, e.shape = ta, shSame
			}
		case ta.isMat() && tb.isVec():
			if op != bMul || ta.Cols != tb.N {
				bad()
			}
			e.typ, e.shape = vecOf(KFloat, ta.N), shMatVec
		case ta.isVec() && tb.isMat():
			if op != bMul || ta.N != tb.N {
				bad()
			}
			e.typ, e.shape = vecOf(KFloat, tb.Cols), shVecMat
		default:
			bad()
		}
	case bMod:
		if !ta.isInt() || !tb.isInt() {
			bad()
		}
		a, b = p.unify(op, a, b, line)
		ta, tb = a.typ, b.typ
		e.typ, e.shape = p.vecShape(ta, tb, bad)
	case bShl, bShr:
		if !ta.isInt() || !tb.isInt() {
			bad()
		}
		switch {
		case ta.isScalar() && !tb.isScalar():
			bad()
		case ta.isVec() && tb.isVec() && ta.N != tb.N:
			bad()
		}
		e.typ = ta
		e.shape = shSame
		if ta.isVec() && tb.isScalar() {
			e.shape = shScalarR
		}
	case bAnd, bOr, bXor:
		if !ta.isInt() || !tb.isInt() || ta.Elem != tb.Elem {
			bad()
		}
		e.typ, e.shape = p.vecShape(ta, tb, bad)
	case bLt, bGt, bLe, bGe:
		if !ta.isScalar() || !tb.isScalar() || ta.Elem == KBool || tb.Elem == KBool {
			bad()
		}
		a, b = p.unify(op, a, b, line)
		e.typ, e.shape = tBool, shSame
	case bEq, bNe:
		if ta != tb {
			if !(arith(ta) && arith(tb)) {
				bad()
			}
			a, b = p.unify(op, a, b, line)
			if a.typ != b.typ {
				bad()
			}
		}
		if a.typ.Kind == KVoid || a.typ.containsRuntimeArray() {
			bad()
		}
		e.typ, e.shape = tBool, shSame
	}
	e.a, e.b = a, b
	return p.fold(e)
}

func (p *parser) vecShape(ta, tb *Type, bad func()) (*Type, shape) {
	switch {
	case ta.isScalar() && tb.isScalar():
		return ta, shSame
	case ta.isScalar():
		return tb, shScalarL
	case tb.isScalar():
		return ta, shScalarR
	case ta.N == tb.N:
		return ta, shSame
	}
	bad()
	return nil, 0
}

func (p *parser) parseUnary() *Expr {
	t := p.peek()
	if t.kind == tkPunct {
		switch t.text {
		case "+", "-", "!", "~":
			p.pos++
			a := p.parseUnary()
			var op unop
			switch t.text {
			case "+":
				op = uPlus
				if !a.typ.isNumeric() {
					p.fail(t.line, "unary + on %s", a.typ)
				}
			case "-":
				op = uNeg
				if !a.typ.isNumeric() {
					p.fail(t.line, "unary - on %s", a.typ)
				}
			case "!":
				op = uNot
				if a.typ != tBool {
					p.fail(t.line, "operand of ! has type %s; it must be a scalar bool", a.typ)
				}
			case "~":
				op = uBitNot
				if !a.typ.isInt() {
					p.fail(t.line, "operand of ~ has type %s; it must be an integer", a.typ)
				}
			}
			return p.fold(&Expr{op: xUnary, sub: uint8(op), typ: a.typ, a: a, line: t.line, fx: a.fx, cx: a.k()})
		case "++", "--":
			p.pos++
			a := p.parseUnary()
			return p.mkIncDec(a, t.text == "--", false, t.line)
		}
	}
	return p.parsePostfix()
}

func (p *parser) mkIncDec(a *Expr, dec, post bool, line int) *Expr {
	if !a.typ.isNumeric() {
		p.fail(line, "++/-- on %s", a.typ)
	}
	p.checkWritable(a, line, "operand of ++/--")
	var sub uint8
	if dec {
		sub |= 1
	}
	if post {
		sub |= 2
	}
	return &Expr{op: xIncDec, sub: sub, typ: a.typ, a: a, line: line, fx: true}
}

func (p *parser) parsePostfix() *Expr {
	e := p.parsePrimary()
	for {
		t := p.peek()
		if t.kind != tkPunct {
			return e
		}
		switch t.text {
		case "[":
			p.pos++
			idx := p.parseExpr()
			p.expect("]")
			e = p.mkIndex(e, idx, t.line)
		case ".":
			p.pos++
			ft := p.expectIdent("member name")
			if ft.text == "length" && p.isPunct("(") {
				p.pos++
				p.expect(")")
				e = p.mkLength(e, t.line)
				continue
			}
			e = p.mkMember(e, ft.text, ft.line)
		case "++", "--":
			p.pos++
			e = p.mkIncDec(e, t.text == "--", true, t.line)
		default:
			return e
		}
	}
}

func (p *parser) noBlockInst(e *Expr, line int) {
	if e.op == xBlockInst {
		p.fail(line, "block instance %q used without a member selection", e.name)
	}
}

func (p *parser) mkLength(e *Expr, line int) *Expr {
	p.noBlockInst(e, line)
	t := e.typ
	switch {
	case t.Kind == KArray && t.Len >= 0:
		return constExpr(tInt, line, uint32(t.Len))
	case t.Kind == KArray:
		if e.op != xBlockMember {
			p.fail(line, ".length() of an unsized array that is not a buffer block member")
		}
		return &Expr{op: xLength, typ: tInt, a: e, line: line}
	case t.isVec() && (!p.prog.es && p.prog.version >= 420):
		return constExpr(tInt, line, uint32(t.N))
	case t.isMat() && (!p.prog.es && p.prog.version >= 420):
		return constExpr(tInt, line, uint32(t.Cols))
	}
	p.fail(line, ".length() on %s", t)
	return nil
}

func (p *parser) mkIndex(a, idx *Expr, line int) *Expr {
	p.noBlockInst(a, line)
	if idx.typ != tInt && idx.typ != tUint {
		p.fail(line, "array index has type %s; it must be a scalar integer", idx.typ)
	}
	t := a.typ
	var rt *Type
	n := 0
	switch {
	case t.Kind == KArray:
		rt, n = t.Of, t.Len
	case t.isVec():
		rt, n = scalarOf(t.Elem), t.N
	case t.isMat():
		rt, n = vecOf(KFloat, t.N), t.Cols
	default:
		p.fail(line, "indexing a value of type %s", t)
	}
	if v, ok := p.tryConst(idx); ok {
		iv := int64(v[0].bits())
		if idx.typ == tInt {
			iv = int64(int32(v[0].bits()))
		}
		if iv < 0 || n >= 0 && iv >= int64(n) {
			p.fail(line, "constant index %d is out of range for %s", iv, t)
		}
	}
	e := &Expr{op: xIndex, typ: rt, a: a, b: idx, line: line, lv: a.lv && a.op != xSwizzle, sp: a.sp, rootBlk: a.rootBlk,
		fx: a.fx || idx.fx, cx: a.k() && idx.k()}
	return p.fold(e)
}

func swizzleIndex(c byte) (set, idx int) {
	if i := strings.IndexByte("xyzw", c); i >= 0 {
		return 0, i
	}
	if i := strings.IndexByte("rgba", c); i >= 0 {
		return 1, i
	}
	if i := strings.IndexByte("stpq", c); i >= 0 {
		return 2, i
	}
	return -1, -1
}

func (p *parser) mkMember(a *Expr, name string, line int) *Expr {
	t := a.typ
	if a.op == xBlockInst {
		blk := a.blk
		for i, m := range blk.members {
			if m.Name == name {
				return p.blockMemberExpr(blk, i, line)
			}
		}
		p.fail(line, "block %s has no member %q", blk.name, name)
	}
	if t.Kind == KStruct {
		for i, m := range t.Struct.Members {
			if m.Name == name {
				e := &Expr{op: xMember, typ: m.Type, a: a, slot: i, line: line, lv: a.lv, sp: a.sp, rootBlk: a.rootBlk, fx: a.fx, cx: a.k()}
				return p.fold(e)
			}
		}
		p.fail(line, "struct %s has no member %q", t, name)
	}
	if t.isVec() || t.isScalar() && !p.prog.es && p.prog.version >= 420 {
		if len(name) > 4 {
			p.fail(line, "swizzle %q has more than four components", name)
		}
		swz := make([]uint8, len(name))
		set0 := -1
		dup := false
		var seen [4]bool
		for i := 0; i < len(name); i++ {
			set, idx := swizzleIndex(name[i])
			if set < 0 {
				p.fail(line, "bad swizzle %q on %s", name, t)
			}
			if set0 >= 0 && set != set0 {
				p.fail(line, "swizzle %q mixes component name sets", name)
			}
			set0 = set
			if idx >= t.comps() {
				p.fail(line, "swizzle %q selects a component outside %s", name, t)
			}
			if seen[idx] {
				dup = true
			}
			seen[idx] = true
			swz[i] = uint8(idx)
		}
		base := a
		if a.op == xSwizzle {
			// compose swizzles
			for i := range swz {
				swz[i] = a.swz[swz[i]]
			}
			base = a.a
			dup = false
			var s2 [4]bool
			for _, c := range swz {
				if s2[c] {
					dup = true
				}
				s2[c] = true
			}
		}
		e := &Expr{op: xSwizzle, typ: vecOf(t.Elem, len(swz)), a: base, swz: swz, line: line,
			lv: base.lv && !dup, sp: base.sp, rootBlk: base.rootBlk, fx: base.fx, cx: base.k()}
		return p.fold(e)
	}
	p.fail(line, "member selection .%s on a value of type %s", name, t)
	return nil
}

func (p *parser) blockMemberExpr(blk *blockInfo, i int, line int) *Expr {
	e := &Expr{op: xBlockMember, typ: blk.members[i].Type, blk: blk, slot: i, line: line, lv: true, sp: spBuffer,
		rootBlk: blk, name: blk.members[i].Name}
	if blk.layouts != nil {
		e.lay = blk.layouts[i]
	}
	return e
}

var builtinVars = map[string]builtinVar{
	"gl_NumWorkGroups":        bvNumWorkGroups,
	"gl_WorkGroupSize":        bvWorkGroupSize,
	"gl_WorkGroupID":          bvWorkGroupID,
	"gl_LocalInvocationID":    bvLocalInvocationID,
	"gl_GlobalInvocationID":   bvGlobalInvocationID,
	"gl_LocalInvocationIndex": bvLocalInvocationIndex,
}

func builtinVarType(v builtinVar) *Type {
	if v == bvLocalInvocationIndex {
		return tUint
	}
	return vecOf(KUint, 3)
}

func (p *parser) parsePrimary() *Expr {
	t := p.next()
	switch t.kind {
	case tkInt:
		return constExpr(tInt, t.line, t.val)
	case tkUint:
		return constExpr(tUint, t.line, t.val)
	case tkFloat:
		return constExpr(tFloat, t.line, t.val)
	case tkPunct:
		if t.text == "(" {
			e := p.parseExpr()
			p.expect(")")
			if e.op == xSwizzle || e.lv {
				return e
			}
			return e
		}
		p.fail(t.line, "unexpected %q in expression", t.text)
	case tkEOF:
		p.fail(t.line, "unexpected end of input in expression")
	}
	// identifier
	switch t.text {
	case "true":
		return constExpr(tBool, t.line, 1)
	case "false":
		return constExpr(tBool, t.line, 0)
	}
	sym := p.lookup(t.text)
	isTypeName := sym != nil && sym.kind == skType || sym == nil && (builtinTypeNames[t.text] != nil || isOpaqueTypeName(t.text))
	if isTypeName {
		if !p.isPunct("(") && !p.isPunct("[") {
			p.fail(t.line, "type %q used as an expression", t.text)
		}
		ty := p.typeByName(t)
		ty = p.arrayDims(ty)
		lp := p.expect("(")
		args := p.parseArgs()
		return p.mkConstruct(ty, args, lp.line)
	}
	if p.isPunct("(") {
		if sym != nil && sym.kind != skFunc {
			p.fail(t.line, "%q is not a function", t.text)
		}
		p.pos++
		args := p.parseArgs()
		return p.mkCall(t, sym, args)
	}
	if sym == nil {
		if strings.HasPrefix(t.text, "gl_") {
			if bv, ok := builtinVars[t.text]; ok {
				return &Expr{op: xBuiltinVar, sub: uint8(bv), typ: builtinVarType(bv), line: t.line, lv: true, sp: spConst, name: t.text}
			}
			p.unsup(t.line, "built-in variable %s (not available in compute shaders or not implemented)", t.text)
		}
		p.fail(t.line, "undeclared identifier %q", t.text)
	}
	switch sym.kind {
	case skVar:
		if sym.constVal != nil {
			return &Expr{op: xConst, typ: sym.typ, val: sym.constVal, line: t.line, cx: true, name: sym.name}
		}
		e := &Expr{typ: sym.typ, slot: sym.slot, line: t.line, lv: true, sp: sym.sp, name: sym.name}
		switch {
		case sym.blk != nil:
			return p.blockMemberExpr(sym.blk, sym.member, t.line)
		case sym.sp == spShared:
			e.op = xShared
		case sym.global:
			e.op = xGlobal
		default:
			e.op = xLocal
		}
		return e
	case skBlockInst:
		if !p.isPunct(".") {
			p.fail(t.line, "block instance %q used without a member selection", t.text)
		}
		return &Expr{op: xBlockInst, typ: tVoid, blk: sym.blk, line: t.line, name: t.text}
	case skType:
		p.fail(t.line, "type %q used as an expression", t.text)
	case skFunc:
		p.fail(t.line, "function %q used without a call", t.text)
	case skBlockName:
		p.fail(t.line, "block name %q used as an expression", t.text)
	}
	return nil
}

func (p *parser) parseArgs() []*Expr {
	var args []*Expr
	if p.accept(")") {
		return nil
	}
	if p.isWord("void") && p.peekN(1).kind == tkPunct && p.peekN(1).text == ")" {
		p.pos += 2
		return nil
	}
	for {
		a := p.parseAssign()
		p.noBlockInst(a, a.line)
		args = append(args, a)
		if !p.accept(",") {
			break
		}
	}
	p.expect(")")
	return args
}

// ---- constructors (GLSL 4.60 section 5.4) ----

func (p *parser) mkConstruct(ty *Type, args []*Expr, line int) *Expr {
	e := &Expr{op: xConstruct, typ: ty, args: args, line: line, cx: true}
	for _, a := range args {
		e.fx = e.fx || a.fx
		e.cx = e.cx && a.k()
		if a.typ.Kind == KVoid {
			p.fail(line, "constructor argument of type void")
		}
	}
	basic := func(t *Type) bool { return t.isScalar() || t.isVec() || t.isMat() }
	switch {
	case ty.Kind == KVoid:
		p.fail(line, "constructor of void")
	case ty.isScalar():
		if len(args) != 1 || !basic(args[0].typ) {
			p.fail(line, "%s constructor needs one scalar, vector or matrix argument", ty)
		}
		e.sub = uint8(cConv)
	case ty.isVec():
		if len(args) == 0 {
			p.fail(line, "%s constructor without arguments", ty)
		}
		if len(args) == 1 && args[0].typ.isScalar() {
			e.sub = uint8(cSplat)
			break
		}
		p.checkComponents(ty, args, line, false)
		e.sub = uint8(cComps)
	case ty.isMat():
		if len(args) == 0 {
			p.fail(line, "%s constructor without arguments", ty)
		}
		if len(args) == 1 && args[0].typ.isScalar() {
			e.sub = uint8(cMatDiag)
			break
		}
		if len(args) == 1 && args[0].typ.isMat() {
			e.sub = uint8(cMatMat)
			break
		}
		p.checkComponents(ty, args, line, true)
		e.sub = uint8(cComps)
	case ty.Kind == KArray:
		if ty.Len < 0 {
			if len(args) == 0 {
				p.fail(line, "array constructor without arguments")
			}
			ty = p.prog.types.arrayOf(ty.Of, len(args))
			e.typ = ty
		}
		if len(args) != ty.Len {
			p.fail(line, "%s constructor needs %d arguments, found %d", ty, ty.Len, len(args))
		}
		for i := range args {
			args[i] = p.convertTo(args[i], ty.Of, "array constructor argument", line)
		}
		e.sub = uint8(cAggregate)
	case ty.Kind == KStruct:
		ms := ty.Struct.Members
		if len(args) != len(ms) {
			p.fail(line, "%s constructor needs %d arguments, found %d", ty, len(ms), len(args))
		}
		for i := range args {
			args[i] = p.convertTo(args[i], ms[i].Type, "struct constructor argument", line)
		}
		e.sub = uint8(cAggregate)
	}
	return p.fold(e)
}

func (p *parser) checkComponents(ty *Type, args []*Expr, line int, isMat bool) {
	need := ty.cells
	have := 0
	for i, a := range args {
		if !(a.typ.isScalar() || a.typ.isVec() || a.typ.isMat()) {
			p.fail(line, "%s constructor argument %d has type %s", ty, i+1, a.typ)
		}
		if isMat && a.typ.isMat() {
			p.fail(line, "%s constructor: a matrix argument must be the only argument", ty)
		}
		if have >= need {
			p.fail(line, "%s constructor: argument %d is unused (too many arguments)", ty, i+1)
		}
		have += a.typ.cells
	}
	if have < need {
		p.fail(line, "%s constructor: not enough components (%d of %d)", ty, have, need)
	}
}

// ---- calls ----

type candidate struct {
	params []*Type
	quals  []paramQual
	fn     *Function
	bi     *builtinSig
}

func (p *parser) mkCall(nt token, sym *symbol, args []*Expr) *Expr {
	name := nt.text
	var cands []candidate
	if sym != nil {
		// a user declaration hides every built-in function of that name (GLSL 4.60 section 4.2.2)
		for i := len(sym.funcs) - 1; i >= 0; i-- {
			f := sym.funcs[i]
			c := candidate{fn: f}
			dupl := false
			for _, o := range cands {
				if sameParams(o.fn, f) {
					dupl = true
				}
			}
			if dupl {
				continue
			}
			for _, pr := range f.Params {
				c.params = append(c.params, pr.Type)
				c.quals = append(c.quals, pr.Qual)
			}
			cands = append(cands, c)
		}
	} else if sigs, ok := builtinTable[name]; ok {
		for _, s := range sigs {
			c := candidate{bi: s, params: s.params}
			for _, o := range s.out {
				q := pqIn
				if o {
					q = pqOut
					if s.mem {
						q = pqInout
					}
				}
				c.quals = append(c.quals, q)
			}
			cands = append(cands, c)
		}
	} else {
		if unsupportedBuiltinFamily(name) {
			p.unsup(nt.line, "built-in function %s", name)
		}
		p.fail(nt.line, "call of undeclared function %q", name)
	}
	for _, a := range args {
		if a.typ.Kind == KVoid {
			p.fail(nt.line, "argument of type void in call of %s", name)
		}
	}
	// viable candidates and their per-argument conversion levels
	type viable struct {
		c      candidate
		levels []int
	}
	var vs []viable
	for _, c := range cands {
		if len(c.params) != len(args) {
			continue
		}
		lv := make([]int, len(args))
		ok := true
		for i, a := range args {
			pt := c.params[i]
			switch c.quals[i] {
			case pqIn:
				if a.typ == pt {
					lv[i] = 0
				} else if p.canConvert(a.typ, pt) {
					lv[i] = 1
				} else {
					ok = false
				}
			case pqOut:
				if a.typ == pt {
					lv[i] = 0
				} else if p.canConvert(pt, a.typ) {
					lv[i] = 1
				} else {
					ok = false
				}
			case pqInout:
				if a.typ != pt {
					ok = false
				}
			}
		}
		if ok {
			vs = append(vs, viable{c, lv})
		}
	}
	if len(vs) == 0 {
		var ts []string
		for _, a := range args {
			ts = append(ts, a.typ.String())
		}
		p.fail(nt.line, "no matching overload for %s(%s)", name, strings.Join(ts, ", "))
	}
	best := -1
	for i := range vs {
		better := true
		for j := range vs {
			if i == j {
				continue
			}
			strictly := false
			for k := range vs[i].levels {
				if vs[i].levels[k] > vs[j].levels[k] {
					better = false
				}
				if vs[i].levels[k] < vs[j].levels[k] {
					strictly = true
				}
			}
			if !strictly {
				better = false
			}
		}
		if better {
			best = i
			break
		}
	}
	if best < 0 {
		p.unsup(nt.line, "ambiguous overload resolution for %s", name)
	}
	c := vs[best].c
	e := &Expr{line: nt.line, fx: true, name: name}
	for i, a := range args {
		switch c.quals[i] {
		case pqIn:
			args[i] = p.convertTo(a, c.params[i], "argument", nt.line)
		default:
			p.checkWritable(a, nt.line, "out/inout argument of "+name)
			if a.typ != c.params[i] {
				p.unsup(nt.line, "implicit conversion on an out argument")
			}
		}
	}
	e.args = args
	if c.fn != nil {
		e.op, e.fn, e.typ = xCallUser, c.fn, c.fn.Ret
		if p.fn != nil {
			p.fn.calls = append(p.fn.calls, c.fn)
		}
		return e
	}
	s := c.bi
	e.op, e.bi, e.typ = xCallBuiltin, s, s.ret
	if s.mem {
		m := args[0]
		if m.sp != spBuffer && m.sp != spShared {
			p.fail(nt.line, "%s: the memory argument must be a buffer or shared variable", name)
		}
		if m.op == xSwizzle {
			p.fail(nt.line, "%s: the memory argument cannot be a swizzle", name)
		}
	}
	switch s.id {
	case biBarrier:
		p.prog.usesBar = true
		if p.fn != nil && p.fn.Name != "main" {
			// barrier() is allowed only in main() in some versions; accept but remember
			p.prog.usesBar = true
		}
	}
	pure := true
	for _, o := range s.out {
		if o {
			pure = false
		}
	}
	if pure && s.id != biBarrier && s.id != biMemoryBarrier {
		e.fx = false
		e.cx = true
		for _, a := range args {
			e.fx = e.fx || a.fx
			e.cx = e.cx && a.k()
		}
		return p.fold(e)
	}
	return e
}
