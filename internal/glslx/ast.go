package glslx

// cell is one 32-bit scalar component plus a poison flag (bit 32).
type cell uint64

const poisonBit cell = 1 << 32

func (c cell) bits() uint32   { return uint32(c) }
func (c cell) poisoned() bool { return c&poisonBit != 0 }

type opcode uint8

const (
	xConst opcode = iota
	xLocal
	xGlobal
	xShared
	xBlockMember
	xBuiltinVar
	xIndex
	xMember
	xSwizzle
	xUnary
	xBinary
	xAssign
	xIncDec
	xTernary
	xLogAnd
	xLogOr
	xLogXor
	xComma
	xCallUser
	xCallBuiltin
	xConstruct
	xConvert
	xLength
	xHole      // current value of the left operand inside a compound assignment
	xBlockInst // interface block instance name; only valid as the base of a member selection
)

// storage class of the root of an l-value
type space uint8

const (
	spNone space = iota
	spLocal
	spGlobal
	spShared
	spBuffer
	spConst // const-qualified variable or parameter, or a built-in input
)

type binop uint8

const (
	bAdd binop = iota
	bSub
	bMul
	bDiv
	bMod
	bShl
	bShr
	bAnd
	bOr
	bXor
	bLt
	bGt
	bLe
	bGe
	bEq
	bNe
)

type unop uint8

const (
	uNeg unop = iota
	uPlus
	uNot
	uBitNot
)

// how the operands of a binary arithmetic operator combine
type shape uint8

const (
	shSame    shape = iota // component-wise, equal cell counts
	shScalarL              // scalar op aggregate
	shScalarR              // aggregate op scalar
	shMatMat               // linear-algebra products
	shMatVec
	shVecMat
)

type ctorKind uint8

const (
	cConv      ctorKind = iota // scalar <- first component of the argument, converted
	cSplat                     // vector <- one scalar
	cComps                     // vector or matrix <- components of the arguments, in order
	cMatDiag                   // matrix <- one scalar
	cMatMat                    // matrix <- matrix
	cAggregate                 // array or struct <- one argument per element / member
)

type builtinVar uint8

const (
	bvNumWorkGroups builtinVar = iota
	bvWorkGroupSize
	bvWorkGroupID
	bvLocalInvocationID
	bvGlobalInvocationID
	bvLocalInvocationIndex
)

// Expr is a typed, scope-resolved expression.
type Expr struct {
	op      opcode
	typ     *Type
	line    int
	a, b, c *Expr
	args    []*Expr
	sub     uint8 // binop / unop / ctorKind / builtinVar / inc-dec flags
	shape   shape
	slot    int     // xLocal/xGlobal/xShared: cell offset; xMember: member index
	swz     []uint8 // xSwizzle
	val     []cell  // xConst
	fn      *Function
	bi      *builtinSig
	blk     *blockInfo // xBlockMember
	lay     *Layout    // xBlockMember: layout of the member (Offset relative to the block start)
	lv      bool       // is an l-value
	sp      space      // storage class of the root variable (l-values)
	fx      bool       // evaluation may have side effects
	cx      bool       // constant expression (candidate for folding)
	kx      bool       // constant expression that could not be folded (too large, or evaluation traps)
	name    string     // for diagnostics
	rootBlk *blockInfo // block at the root of a buffer l-value
}

type stmtKind uint8

const (
	sExpr stmtKind = iota
	sDecl
	sBlock
	sIf
	sWhile
	sDoWhile
	sFor
	sSwitch
	sBreak
	sContinue
	sReturn
	sDiscard
	sEmpty
)

type caseLabel struct {
	val       uint32
	isDefault bool
	index     int // first statement of the case in Stmt.body
}

// Stmt is a statement.
type Stmt struct {
	kind  stmtKind
	line  int
	e     *Expr   // expression, condition, return value, switch selector, decl initialiser
	init  []*Stmt // for
	post  *Expr   // for
	body  []*Stmt
	els   []*Stmt
	slot  int   // sDecl: frame offset
	typ   *Type // sDecl
	cases []caseLabel
}

type paramQual uint8

const (
	pqIn paramQual = iota
	pqOut
	pqInout
)

// Param is a function parameter.
type Param struct {
	Name  string
	Type  *Type
	Qual  paramQual
	Const bool
	slot  int
}

// Function is a user-defined function.
type Function struct {
	Name      string
	Ret       *Type
	Params    []Param
	body      []*Stmt
	frameSize int
	defined   bool
	line      int
	calls     []*Function
}

type blockInfo struct {
	index    int
	name     string
	instance string
	storage  string
	quals    []string
	packing  string
	binding  int
	readonly bool
	wronly   bool
	members  []StructMember
	layouts  []*Layout
	size     int
	line     int
}

type globalInit struct {
	sp   space
	slot int
	typ  *Type
	init *Expr // nil: uninitialised
}
