package glslx

import (
	"bytes"
	"strings"
	"testing"

	"verif/internal/xrt"
)

// Tests on hand-written GLSL: typing rules, GLSL-specific semantics, the UB model.

const pre430 = "#version 430 core\nlayout(local_size_x = 1) in;\n"
const pre310 = "#version 310 es\nprecision highp float;\nprecision highp int;\nlayout(local_size_x = 1) in;\n"
const outBlk = "layout(std430) buffer O { int o[]; };\n"

func parseKind(src string) (string, error) {
	_, err := Parse(src)
	return errKind(err), err
}

func TestTypingRules(t *testing.T) {
	type tc struct {
		name string
		body string // placed at global scope, must define main
		k430 string // expected error kind under #version 430 core
		kES  string // expected error kind under #version 310 es
	}
	m := func(stmts string) string { return "void main() {\n" + stmts + "\n}\n" }
	cases := []tc{
		{"int-to-uint-init", m("uint u = 1;"), "", "malformed"},
		{"uint-to-int-init", m("int i = 1u;"), "malformed", "malformed"},
		{"int-to-float-init", m("float f = 1;"), "", "malformed"},
		{"float-to-int-init", m("int i = 1.0;"), "malformed", "malformed"},
		{"mixed-add", m("uint u = 1u + 1;"), "", "malformed"},
		{"mixed-add-result-is-uint", m("int i = 1u + 1;"), "malformed", "malformed"},
		{"int-plus-float", m("float f = 1 + 1.5;"), "", "malformed"},
		{"bvec-ternary", m("bvec3 c = bvec3(true); ivec3 v = c ? ivec3(1) : ivec3(2);"), "malformed", "malformed"},
		{"ternary-arms-differ", m("bool c = true; int v = c ? 1 : 2u;"), "malformed", "malformed"},
		{"vec-too-few", m("vec3 v = vec3(1.0, 2.0);"), "malformed", "malformed"},
		{"vec-unused-arg", m("vec2 v = vec2(1.0, 2.0, 3.0);"), "malformed", "malformed"},
		{"vec-truncating-last-arg-ok", m("vec3 v = vec3(1.0, vec3(2.0));"), "", ""},
		{"if-int-condition", m("if (1) { }"), "malformed", "malformed"},
		{"float-modulo", m("float f = 1.0 % 2.0;"), "malformed", "malformed"},
		{"const-index-oob", m("int a[3]; a[3] = 1;"), "malformed", "malformed"},
		{"const-index-negative", m("vec3 v = vec3(0.0); float f = v[-1];"), "malformed", "malformed"},
		{"undeclared", m("x = 1;"), "malformed", "malformed"},
		{"mat-vec-mismatch", m("mat2 k = mat2(1.0); vec3 v = k * vec3(1.0);"), "malformed", "malformed"},
		{"mat2x3-times-vec2-ok", m("mat2x3 k = mat2x3(1.0); vec3 v = k * vec2(1.0); vec2 w = vec3(1.0) * k;"), "", ""},
		{"bitand-mixed-sign", m("uint u = 1u & 1;"), "malformed", "malformed"},
		{"shift-mixed-sign-ok", m("int i = 1 << 2u; uint u = 1u >> 2;"), "", ""},
		{"shift-scalar-by-vector", m("ivec2 v = 1 << ivec2(1, 2);"), "malformed", "malformed"},
		{"relational-on-vectors", m("bool b = vec2(1.0) < vec2(2.0);"), "malformed", "malformed"},
		{"equality-on-vectors-ok", m("bool b = vec2(1.0) == vec2(2.0);"), "", ""},
		{"logical-not-on-bvec", m("bvec2 b = !bvec2(true);"), "malformed", "malformed"},
		{"and-on-ints", m("bool b = 1 && 2;"), "malformed", "malformed"},
		{"const-assign", m("const int c = 1; c = 2;"), "malformed", "malformed"},
		{"readonly-write", "layout(std430) readonly buffer R { int r[]; };\n" + m("r[0] = 1;"), "malformed", "malformed"},
		{"uniform-write", "layout(std140) uniform U { int u; };\n" + m("u = 1;"), "malformed", "malformed"},
		{"readonly-atomic", "layout(std430) readonly buffer R { int r[]; };\n" + m("atomicAdd(r[0], 1);"), "malformed", "malformed"},
		{"atomic-on-local", m("int x = 0; atomicAdd(x, 1);"), "malformed", "malformed"},
		{"out-arg-not-lvalue", "void f(out int a) { a = 1; }\n" + m("f(3);"), "malformed", "malformed"},
		{"inout-const-arg", "void f(inout int a) { a = 1; }\n" + m("const int c = 2; f(c);"), "malformed", "malformed"},
		{"recursion", "int f(int);\nint g(int x) { return f(x); }\nint f(int x) { return g(x); }\n" + m("f(1);"), "malformed", "malformed"},
		{"undefined-function", "int f(int);\n" + m("f(1);"), "malformed", "malformed"},
		{"unknown-function", m("int i = nosuch(1);"), "malformed", "malformed"},
		{"overload-exact", "int f(int x) { return 1; }\nfloat f(float x) { return 2.0; }\n" + m("int a = f(1); float b = f(1.0);"), "", ""},
		{"overload-by-conversion", "float f(float x) { return 2.0; }\n" + m("float b = f(1u);"), "", "malformed"},
		{"user-function-hides-builtins", "float min(float a) { return a; }\n" + m("int i = min(1, 2);"), "malformed", "malformed"},
		{"builtin-int-uint-mix", m("uint u = min(1u, 2);"), "", "malformed"},
		{"discard-in-compute", m("discard;"), "malformed", "malformed"},
		{"struct-ctor-arity", "struct S { int a; float b; };\n" + m("S s = S(1);"), "malformed", "malformed"},
		{"struct-ctor-types", "struct S { int a; float b; };\n" + m("S s = S(1, 2u);"), "", "malformed"},
		{"array-ctor-size", m("int a[3] = int[3](1, 2);"), "malformed", "malformed"},
		{"array-ctor-unsized-ok", m("int a[] = int[](1, 2, 3); int n = a.length();"), "", ""},
		{"return-type", "int f() { return 1.5; }\n" + m(""), "malformed", "malformed"},
		{"return-missing-value", "int f() { return; }\n" + m(""), "malformed", "malformed"},
		{"void-return-value", "void f() { return 1; }\n" + m(""), "malformed", "malformed"},
		{"swizzle-oob", m("vec2 v = vec2(1.0); float f = v.z;"), "malformed", "malformed"},
		{"swizzle-mixed-sets", m("vec4 v = vec4(1.0); vec2 f = v.xg;"), "malformed", "malformed"},
		{"swizzle-dup-write", m("vec4 v = vec4(1.0); v.xx = vec2(1.0);"), "malformed", "malformed"},
		{"scalar-swizzle", m("float f = 1.0; vec3 v = f.xxx;"), "", "malformed"},
		{"vector-length-method", m("vec3 v = vec3(1.0); int n = v.length();"), "", "malformed"},
		{"case-type-mismatch", m("switch (1u) { case 1: break; }"), "", "malformed"},
		{"duplicate-case", m("switch (1) { case 1: break; case 1: break; }"), "malformed", "malformed"},
		{"case-outside-switch", m("case 1: ;"), "malformed", "malformed"},
		{"break-outside-loop", m("break;"), "malformed", "malformed"},
		{"continue-in-switch-only", m("switch (1) { default: continue; }"), "malformed", "malformed"},
		{"switch-float", m("switch (1.0) { default: break; }"), "malformed", "malformed"},
		{"switch-empty-tail", m("switch (1) { case 1: }"), "malformed", "malformed"},
		{"sampler", "uniform sampler2D s;\n" + m(""), "unsupported", "unsupported"},
		{"image", "layout(rgba8) uniform image2D s;\n" + m(""), "unsupported", "unsupported"},
		{"double", m("double d = 1.0lf;"), "unsupported", "unsupported"},
		{"texture-call", m("vec4 c = texture(1, vec2(0.0));"), "unsupported", "unsupported"},
		{"std430-on-uniform", "layout(std430) uniform U { int u; };\n" + m(""), "malformed", "malformed"},
		{"unsized-not-last", "layout(std430) buffer B { int a[]; int b; };\n" + m(""), "malformed", "malformed"},
		{"unsized-in-uniform", "layout(std140) uniform B { int a[]; };\n" + m(""), "malformed", "malformed"},
		{"shared-initialiser", "shared int s = 1;\n" + m(""), "malformed", "malformed"},
		{"integer-literal-too-big", m("uint u = 4294967296u;"), "malformed", "malformed"},
		{"hex-literal-sign-bit", m("int i = 0xFFFFFFFF; int j = -2147483648;"), "", ""},
		{"incdec-on-bool", m("bool b = true; b++;"), "malformed", "malformed"},
		{"array-equality-ok", m("int a[2] = int[2](1, 2); bool b = a == int[2](1, 2);"), "", ""},
		{"array-size-mismatch-assign", m("int a[2]; a = int[3](1, 2, 3);"), "malformed", "malformed"},
		{"member-of-scalar", m("int i = 1; int j = i.foo;"), "malformed", "malformed"},
		{"no-such-member", "struct S { int a; };\n" + m("S s = S(1); int j = s.b;"), "malformed", "malformed"},
		{"compound-assign-result-type", m("int i = 1; i += 1.5;"), "malformed", "malformed"},
		{"vec-times-mat-assign-ok", m("vec2 v = vec2(1.0); v *= mat2(2.0);"), "", ""},
		{"const-init-traps-when-folded", "const int z = 1 / 0;\n" + m("const int y = 7 % -2;"), "", ""},
		{"const-init-not-constant", m("int g = 1; const int c = g; int arr[2]; arr[0] = c;"), "", "malformed"},
		{"array-size-not-constant", m("int g = 2; int arr[g];"), "malformed", "malformed"},
		{"array-size-const-expr", "const int N = 2 * 3;\n" + m("int arr[N + 1]; arr[6] = 1; ivec2 v[N / 3];"), "", ""},
		{"unterminated", "void main() { int x = 1;", "malformed", "malformed"},
		{"version-define", "#define X 1\nvoid main() {}", "unsupported", "unsupported"},
	}
	for _, c := range cases {
		t.Run(c.name, func(t *testing.T) {
			if k, err := parseKind(pre430 + c.body); k != c.k430 {
				t.Errorf("430 core: got %q (%v), want %q", k, err, c.k430)
			}
			if k, err := parseKind(pre310 + c.body); k != c.kES {
				t.Errorf("310 es: got %q (%v), want %q", k, err, c.kES)
			}
		})
	}
}

func TestNotCompute(t *testing.T) {
	for _, src := range []string{
		"#version 430 core\nvoid main() { }",
		"#version 430 core\nin vec3 pos;\nvoid main() { gl_Position = vec4(pos, 1.0); }",
		"#version 430 core\nlayout(location = 0) out vec4 c;\nvoid main() { c = vec4(1.0); }",
	} {
		if k, err := parseKind(src); k != "unsupported" {
			t.Errorf("%q: got %q (%v), want unsupported", src, k, err)
		}
	}
}

// execGLSL runs src with one int output buffer of n words at binding (0,0) and returns the words.
func execGLSL(t *testing.T, src string, n int, o Opts, extra bmap) ([]int32, error) {
	t.Helper()
	p, err := Parse(src)
	if err != nil {
		t.Fatalf("Parse: %v\n%s", err, src)
	}
	bufs := xrt.Buffers{bd(0, 0): make([]byte, 4*n)}
	for k, v := range extra {
		bufs[k] = append([]byte(nil), v...)
	}
	if o.BlockBinding == nil {
		o.BlockBinding = map[string]xrt.Binding{}
	}
	o.BlockBinding["O"] = bd(0, 0)
	err = p.Exec(bufs, o)
	w := words(bufs[bd(0, 0)])
	out := make([]int32, len(w))
	for i := range w {
		out[i] = int32(w[i])
	}
	for k := range extra {
		extra[k] = bufs[k]
	}
	return out, err
}

func wantInts(t *testing.T, got []int32, err error, want ...int32) {
	t.Helper()
	if err != nil {
		t.Fatalf("Exec: %v", err)
	}
	for i, w := range want {
		if got[i] != w {
			t.Fatalf("o[%d] = %d, want %d\n got  %v\n want %v", i, got[i], w, got, want)
		}
	}
}

func TestGLSLSemantics(t *testing.T) {
	t.Run("switch-fallthrough", func(t *testing.T) {
		src := pre430 + outBlk + `
int f(int s) { int x = 0; switch (s) { case 1: x += 1; case 2: x += 10; break; case 3: { x += 1000; } default: x += 100; } return x; }
void main() { o[0] = f(1); o[1] = f(2); o[2] = f(3); o[3] = f(9); }`
		got, err := execGLSL(t, src, 4, Opts{}, nil)
		wantInts(t, got, err, 11, 10, 1100, 100)
	})
	t.Run("loops-incdec-comma-ternary", func(t *testing.T) {
		src := pre430 + outBlk + `
int g = 0;
int side(int v) { g += 1; return v; }
void main() {
	int i = 0; int s = 0;
	do { s += i; i++; } while (i < 4);          // 0+1+2+3
	o[0] = s;
	int a = 5; int b = a++ + ++a;               // 5 + 7, a = 7
	o[1] = b; o[2] = a; o[3] = a-- - --a;       // 7 - 5
	int k, j; for (k = 0, j = 10; k < 3; k++, j--) { } o[4] = k * 100 + j;
	o[5] = true ? side(1) : side(2); o[6] = g;  // only one arm evaluated
	o[7] = int(true ^^ false) + int(true ^^ true) * 10;
	float f = 1.0; f++; --f; f += 0.5; o[8] = int(f * 2.0);
	ivec2 v = ivec2(1, 2); v++; o[9] = v.x + v.y * 10;
}`
		got, err := execGLSL(t, src, 10, Opts{}, nil)
		wantInts(t, got, err, 6, 12, 7, 2, 307, 1, 1, 1, 3, 32)
	})
	t.Run("matrix-constructors-and-indexing", func(t *testing.T) {
		src := pre430 + outBlk + `
void main() {
	mat2 d = mat2(3.0);                                  // diagonal
	o[0] = int(d[0][0] + d[1][1] * 10.0 + d[0][1] * 100.0 + d[1][0] * 1000.0);
	mat2x3 m = mat2x3(1.0, 2.0, 3.0, 4.0, 5.0, 6.0);     // columns (1,2,3) (4,5,6)
	o[1] = int(m[1][0]) * 10 + int(m[0][2]);             // 43
	mat3 big = mat3(mat2(1.0, 2.0, 3.0, 4.0));           // upper-left from mat2, rest identity
	o[2] = int(big[0][0] + big[1][1] + big[2][2] + big[0][2] + big[2][0]);   // 1 + 4 + 1
	mat2 small = mat2(mat3(1.0, 2.0, 3.0, 4.0, 5.0, 6.0, 7.0, 8.0, 9.0));
	o[3] = int(small[0][0] + small[0][1] * 10.0 + small[1][0] * 100.0 + small[1][1] * 1000.0);  // 1 + 20 + 400 + 5000
	mat2 fromVecs = mat2(vec2(1.0, 2.0), 3.0, 4.0);
	o[4] = int(fromVecs[1].x + fromVecs[1].y);
	mat2 cm = matrixCompMult(mat2(1.0, 2.0, 3.0, 4.0), mat2(2.0));   // (2,0,0,8)
	mat2 lm = mat2(1.0, 2.0, 3.0, 4.0) * mat2(2.0);                  // (2,4,6,8)
	o[5] = int(cm[0][0] + cm[0][1] + cm[1][0] + cm[1][1]); o[6] = int(lm[0][0] + lm[0][1] + lm[1][0] + lm[1][1]);
	mat3x2 op = outerProduct(vec2(1.0, 2.0), vec3(3.0, 4.0, 5.0));   // 3 columns: c*r[j]
	o[7] = int(op[2].y);                                               // 2*5
	mat2 inv = inverse(mat2(2.0, 0.0, 0.0, 4.0)); o[8] = int(inv[0][0] * 100.0 + inv[1][1] * 1000.0);  // 50 + 250
	m[1] = vec3(7.0); m[0].y = 9.0; o[9] = int(m[1].z + m[0].y);
	vec3 col = m[0]; o[10] = int(col.x);
	mat2 neg = -mat2(1.0, 2.0, 3.0, 4.0); neg += mat2(1.0); neg *= 2.0; o[11] = int(neg[0][0] + neg[1][1]);   // (0 + -3)*2
	o[12] = int(float(mat2(5.0, 6.0, 7.0, 8.0)));           // first component
	o[13] = m.length() * 10 + m[0].length();
}`
		got, err := execGLSL(t, src, 14, Opts{}, nil)
		wantInts(t, got, err, 33, 43, 6, 5421, 7, 10, 20, 10, 300, 16, 1, -6, 5, 23)
	})
	t.Run("swizzles", func(t *testing.T) {
		src := pre430 + outBlk + `
void main() {
	ivec4 v = ivec4(1, 2, 3, 4);
	v.zx = ivec2(30, 10);            // (10,2,30,4)
	v.xy = v.yx;                     // (2,10,30,4)
	o[0] = v.x + v.y * 100 + v.z * 10000;
	ivec2 w = v.wz.yx;               // (v.z, v.w)
	o[1] = w.x * 10 + w.y;
	v.wzyx.x = 7;                    // writes v.w
	o[2] = v.w;
	int s = 5; ivec3 sp = s.xxx; o[3] = sp.x + sp.y + sp.z;
	o[4] = ivec4(1, 2, 3, 4).rgba.a + ivec4(1, 2, 3, 4).stpq.p * 10;
	v.y += 1; v.zw *= 2; o[5] = v.y + v.z + v.w;   // 11 + 60 + 14
}`
		got, err := execGLSL(t, src, 6, Opts{}, nil)
		wantInts(t, got, err, 301002, 304, 7, 15, 34, 85)
	})
	t.Run("aggregates-by-value-and-equality", func(t *testing.T) {
		src := pre430 + outBlk + `
struct In { int a; vec2 v; };
struct S { In i; int arr[3]; };
void modify(S s, inout S t, out S u) { s.i.a = 100; t.arr[1] = 200; u = t; u.i.v.y = 2.5; }
void both(inout int a, inout int b) { a += 1; b += 10; }
void main() {
	S s = S(In(1, vec2(1.0, 2.0)), int[3](4, 5, 6)); S t = s; S u;
	modify(s, t, u);
	o[0] = s.i.a; o[1] = t.arr[1]; o[2] = int(u.i.v.y * 2.0) + u.arr[1];
	o[3] = int(s == t) + int(s != t) * 10 + int(s == S(In(1, vec2(1.0, 2.0)), int[3](4, 5, 6))) * 100;
	int x = 1; both(x, x); o[4] = x;             // copy-in 1,1; copy-out a then b -> 11
	int aa[2][3] = int[2][3](int[3](1, 2, 3), int[3](4, 5, 6)); o[5] = aa[1][2] + aa.length() * 10 + aa[0].length() * 100;
	int row[3] = aa[1]; row[0] = 9; o[6] = row[0] + aa[1][0];
	o[7] = int(aa[0] == int[3](1, 2, 3)) + int(vec2(1.0, 0.0 / 0.0) == vec2(1.0, 0.0 / 0.0)) * 10;   // NaN != NaN
}`
		got, err := execGLSL(t, src, 8, Opts{}, nil)
		wantInts(t, got, err, 1, 200, 205, 110, 11, 326, 13, 1)
	})
	t.Run("literals-and-bit-casts", func(t *testing.T) {
		src := pre430 + outBlk + `
const int K[3] = int[3](10, 20, 30);
const uint BIG = 4294967295u;
void main() {
	o[0] = 0xFFFFFFFF; o[1] = -2147483648; o[2] = int(BIG); o[3] = 017; o[4] = int(-1u);
	o[5] = floatBitsToInt(1.0); o[6] = int(floatBitsToUint(-2.0) >> 24); o[7] = int(intBitsToFloat(0x40400000)); o[8] = int(uintBitsToFloat(0x40800000u));
	o[9] = int(isnan(0.0 / 0.0)) + int(isinf(1.0 / 0.0)) * 10 + int(isinf(-1.0 / 0.0)) * 100 + int(isnan(1.0)) * 1000;
	o[10] = K[1] + K.length(); o[11] = int(1e2) + int(.5e1) + int(1.5E+1) + int(2.f);
	ivec2 m = mix(ivec2(1, 2), ivec2(3, 4), bvec2(true, false)); o[12] = m.x * 10 + m.y;
	o[13] = int(mix(1.0, 2.0, true)) + int(roundEven(2.5)) * 10 + int(roundEven(3.5)) * 100 + int(mod(-1.0, 3.0)) * 1000;
	o[14] = int(atan(1.0, 1.0) * 4.0 * 1000.0);      // pi*1000
	o[15] = int(inversesqrt(0.25));
}`
		got, err := execGLSL(t, src, 16, Opts{}, nil)
		wantInts(t, got, err, -1, -2147483648, -1, 15, -1, 0x3F800000, 0xC0, 3, 4, 111, 23, 122, 32, 2422, 3141, 2)
	})
	t.Run("extended-integer-builtins", func(t *testing.T) {
		src := pre430 + "layout(std430) buffer O { uint o[]; };\n" + `
void main() {
	uint c; o[0] = uaddCarry(0xFFFFFFFFu, 2u, c); o[1] = c;
	uint b; o[2] = usubBorrow(1u, 2u, b); o[3] = b;
	uint hi, lo; umulExtended(0xFFFFFFFFu, 0xFFFFFFFFu, hi, lo); o[4] = hi; o[5] = lo;
	int ih, il; imulExtended(-2, 0x7FFFFFFF, ih, il); o[6] = uint(ih); o[7] = uint(il);
	o[8] = bitfieldInsert(0u, 0xFFu, 4, 4); o[9] = uint(bitfieldExtract(-16, 4, 4)); o[10] = bitfieldExtract(0xF0u, 4, 4);
	o[11] = uint(bitCount(0xFFu)) + uint(findMSB(0x80u)) * 100u + uint(findLSB(0x80u)) * 10000u;
	o[12] = uint(findMSB(-1)) ; o[13] = uint(findMSB(0u)); o[14] = uint(findMSB(-9)); o[15] = bitfieldReverse(0x1u);
}`
		p, err := Parse(src)
		if err != nil {
			t.Fatal(err)
		}
		bufs := xrt.Buffers{bd(0, 0): make([]byte, 64)}
		if err := p.Exec(bufs, Opts{BlockBinding: map[string]xrt.Binding{"O": bd(0, 0)}}); err != nil {
			t.Fatal(err)
		}
		want := []uint32{1, 1, 0xFFFFFFFF, 1, 0xFFFFFFFE, 1, 0xFFFFFFFF, 2, 0xF0, 0xFFFFFFFF, 0xF,
			8 + 700 + 70000, 0xFFFFFFFF, 0xFFFFFFFF, 3, 0x80000000}
		if got := words(bufs[bd(0, 0)]); !equalU32(got, want) {
			t.Fatalf("got  %v\nwant %v", got, want)
		}
	})
	t.Run("out-param-and-undefined-return", func(t *testing.T) {
		src := pre430 + outBlk + `
int noret(int x) { if (x > 0) { return 5; } }
void outs(out int a, out vec2 b) { a = 3; b = vec2(1.0, 2.0); }
void main() { int a; vec2 b; outs(a, b); o[0] = a + int(b.y); o[1] = noret(1); int junk = noret(-1); o[2] = 7; }`
		got, err := execGLSL(t, src, 3, Opts{Opts: xrtPoison()}, nil)
		wantInts(t, got, err, 5, 5, 7)
	})
}

func equalU32(a, b []uint32) bool {
	if len(a) != len(b) {
		return false
	}
	for i := range a {
		if a[i] != b[i] {
			return false
		}
	}
	return true
}

func TestUBModel(t *testing.T) {
	inBlk := "layout(std430) readonly buffer I { int a[]; };\n"
	run := func(body string, in []int32, o Opts) error {
		src := pre430 + outBlk + inBlk + "void main() {\n" + body + "\n}\n"
		p, err := Parse(src)
		if err != nil {
			return err
		}
		bufs := xrt.Buffers{bd(0, 0): make([]byte, 16), bd(0, 1): i32s(in...)}
		o.BlockBinding = map[string]xrt.Binding{"O": bd(0, 0), "I": bd(0, 1)}
		return p.Exec(bufs, o)
	}
	poison := Opts{Opts: xrtPoison()}
	cases := []struct {
		name string
		body string
		in   []int32
		o    Opts
		want string
	}{
		{"div0", "o[0] = a[0] / a[1];", []int32{1, 0}, Opts{}, "trap:div0"},
		{"mod0", "o[0] = a[0] % a[1];", []int32{1, 0}, Opts{}, "trap:div0"},
		{"udiv0", "o[0] = int(uint(a[0]) / uint(a[1]));", []int32{1, 0}, Opts{}, "trap:div0"},
		{"vector-div0", "ivec2 v = ivec2(a[0]) / ivec2(1, a[1]); o[0] = v.x;", []int32{1, 0}, Opts{}, "trap:div0"},
		{"sdiv-overflow", "o[0] = a[0] / a[1];", []int32{imin, -1}, Opts{}, "trap:sdiv-overflow"},
		{"mod-negative-lhs", "o[0] = a[0] % a[1];", []int32{-7, 2}, Opts{}, "trap:mod-negative"},
		{"mod-negative-rhs", "o[0] = a[0] % a[1];", []int32{7, -2}, Opts{}, "trap:mod-negative"},
		{"mod-nonneg-ok", "o[0] = a[0] % a[1];", []int32{7, 2}, Opts{}, ""},
		{"shift-32", "o[0] = a[0] << a[1];", []int32{1, 32}, Opts{}, "trap:shift-range"},
		{"shift-neg", "o[0] = a[0] >> a[1];", []int32{1, -1}, Opts{}, "trap:shift-range"},
		{"shift-31-ok", "o[0] = a[0] << uint(a[1]);", []int32{1, 31}, Opts{}, ""},
		{"signed-overflow-wraps", "o[0] = a[0] + a[1]; o[1] = a[0] * a[0]; o[2] = -a[1] - a[0]; o[3] = abs(a[2]);", []int32{imax, 1, imin}, Opts{}, ""},
		{"f2i-nan", "o[0] = int(float(a[0]) / float(a[0]));", []int32{0}, Opts{}, "trap:f2i-range"},
		{"f2i-inf", "o[0] = int(1.0 / float(a[0]));", []int32{0}, Opts{}, "trap:f2i-range"},
		{"f2i-big", "o[0] = int(float(a[0]) * 4.0);", []int32{imax}, Opts{}, "trap:f2i-range"},
		{"f2u-negative", "o[0] = int(uint(float(a[0])));", []int32{-2}, Opts{}, "trap:f2i-range"},
		{"f2i-edge-ok", "o[0] = int(-2147483648.0); o[1] = int(uint(4294967040.0) >> 1);", nil, Opts{}, ""},
		{"oob-local-array", "int l[3] = int[3](1, 2, 3); o[0] = l[a[0]];", []int32{3}, Opts{}, "trap:oob-read"},
		{"oob-local-array-neg", "int l[3] = int[3](1, 2, 3); o[0] = l[a[0]];", []int32{-1}, Opts{}, "trap:oob-read"},
		{"oob-local-write", "int l[3] = int[3](1, 2, 3); l[a[0]] = 1; o[0] = l[0];", []int32{3}, Opts{}, "trap:oob-write"},
		{"oob-vector", "vec3 v = vec3(1.0); o[0] = int(v[a[0]]);", []int32{3}, Opts{}, "trap:oob-read"},
		{"oob-matrix-column", "mat2 k = mat2(1.0); k[a[0]] = vec2(1.0); o[0] = 1;", []int32{2}, Opts{}, "trap:oob-write"},
		{"oob-uint-index", "int l[3] = int[3](1, 2, 3); o[0] = l[uint(a[0])];", []int32{-1}, Opts{}, "trap:oob-read"},
		{"oob-buffer-read", "o[0] = a[a[0]];", []int32{1}, Opts{}, "trap:oob-read"},
		{"oob-buffer-write", "o[a[0]] = 1;", []int32{4}, Opts{}, "trap:oob-write"},
		{"buffer-last-ok", "o[a[0]] = 1;", []int32{3}, Opts{}, ""},
		{"poison-arith", "int x; o[0] = x + 1;", nil, poison, "trap:poison"},
		{"poison-off-is-zero", "int x; o[0] = x + 1;", nil, Opts{}, ""},
		{"poison-copy-ok", "int x; int y = x; ivec2 v = ivec2(x, 1); o[0] = v.y;", nil, poison, ""},
		{"poison-store-to-buffer", "int x; int y = x; o[0] = y;", nil, poison, "trap:poison"},
		{"poison-branch", "bool b; if (b) { o[0] = 1; }", nil, poison, "trap:poison"},
		{"poison-index", "int i; int l[2] = int[2](1, 2); o[0] = l[i];", nil, poison, "trap:poison"},
		{"poison-per-component", "vec3 v; v.x = 1.0; v.z = 2.0; o[0] = int(v.x + v.z);", nil, poison, ""},
		{"poison-per-component-bad", "vec3 v; v.x = 1.0; o[0] = int(v.x + v.y);", nil, poison, "trap:poison"},
		{"poison-struct-member-pattern", "struct R { int old; bool ex; }; R r; r.old = 3; r.ex = (r.old == 3); o[0] = r.old + int(r.ex);", nil, poison, ""},
		{"poison-switch", "int s; switch (s) { default: o[0] = 1; }", nil, poison, "trap:poison"},
		{"poison-compare", "float f; bool b = f < 1.0; o[0] = 1;", nil, poison, "trap:poison"},
		{"poison-redeclared-in-loop", "for (int i = 0; i < 2; i++) { int x; if (i == 0) { x = 5; } o[i] = x; }", nil, poison, "trap:poison"},
		{"bitfield-range", "o[0] = bitfieldExtract(a[0], a[1], 8);", []int32{1, 30}, Opts{}, "trap:bitfield-range"},
		{"clamp-range", "o[0] = clamp(a[0], 5, a[1]);", []int32{1, 2}, Opts{}, "trap:clamp-range"},
		{"step-limit", "while (true) { o[0] += 1; }", nil, Opts{Opts: xrt.Opts{StepLimit: 1000}}, "steplimit"},
	}
	for _, c := range cases {
		t.Run(c.name, func(t *testing.T) {
			err := run(c.body, c.in, c.o)
			if k := errKind(err); k != c.want {
				t.Fatalf("got %q (%v), want %q", k, err, c.want)
			}
		})
	}
	t.Run("global-and-shared-poison", func(t *testing.T) {
		src := pre430 + outBlk + "int g;\nshared int s;\nvoid main() { o[0] = 1; int c = g; int d = s; o[1] = d; }"
		_, err := execGLSL(t, src, 2, poison, nil)
		if errKind(err) != "trap:poison" {
			t.Fatalf("got %v", err)
		}
		_, err = execGLSL(t, src, 2, Opts{}, nil)
		if err != nil {
			t.Fatalf("got %v", err)
		}
	})
	t.Run("writeonly-read", func(t *testing.T) {
		src := pre430 + "layout(std430) writeonly buffer O { int o[]; };\nvoid main() { o[0] = 1; int x = o[0]; }"
		_, err := execGLSL(t, src, 1, Opts{}, nil)
		if errKind(err) != "malformed" {
			t.Fatalf("got %v", err)
		}
	})
	t.Run("barrier-divergence", func(t *testing.T) {
		src := "#version 430 core\nlayout(local_size_x = 2) in;\n" + outBlk + "void main() { if (gl_LocalInvocationIndex == 0u) { barrier(); } o[0] = 1; }"
		_, err := execGLSL(t, src, 1, Opts{}, nil)
		if errKind(err) != "trap:barrier-divergence" {
			t.Fatalf("got %v", err)
		}
	})
	t.Run("missing-buffer", func(t *testing.T) {
		src := pre430 + "layout(std430) buffer Q { int q[]; };\n" + outBlk + "void main() { o[0] = 1; q[0] = 2; }"
		_, err := execGLSL(t, src, 1, Opts{}, nil)
		if err == nil || !strings.Contains(err.Error(), "Q") {
			t.Fatalf("got %v", err)
		}
	})
}

func TestBlockMemoryGLSL(t *testing.T) {
	t.Run("row-major-and-explicit-offsets", func(t *testing.T) {
		src := pre430 + outBlk + `
layout(std430, row_major) buffer M { mat2x3 rm; layout(column_major) mat2x3 cm; layout(offset = 96) float f; layout(align = 32) float g; float h; } m;
void main() {
	o[0] = int(m.rm[1][2]);          // row-major: row 2, column 1 -> offset 2*8 + 4 = 20
	o[1] = int(m.cm[1][2]);          // column-major at 32: 32 + 16 + 8 = 56 -> (float index 14)
	o[2] = int(m.f + m.g + m.h);
	m.rm[0] = vec3(7.0, 8.0, 9.0);   // scattered writes: offsets 0, 8, 16
	vec3 c = m.rm[1]; o[3] = int(c.x + c.y + c.z);
	mat2x3 whole = m.rm; o[4] = int(whole[0].z + whole[1].x);
}`
		// rm: 3 rows of vec2 (stride 8): size 24, align 8 -> offset 0; cm: align 16 -> offset 32, size 32; f at 96; g at roundUp(100, 32) = 128; h at 132
		data := make([]float32, 40)
		for i := range data {
			data[i] = float32(i)
		}
		extra := bmap{bd(0, 1): f32s(data...)}
		p, err := Parse(src)
		if err != nil {
			t.Fatal(err)
		}
		bl := p.Blocks()[1]
		offs := []int{}
		for _, f := range bl.Members {
			offs = append(offs, f.Offset)
		}
		if want := []int{0, 32, 96, 128, 132}; !equalInts(offs, want) {
			t.Fatalf("offsets %v, want %v", offs, want)
		}
		var tr []xrt.Access
		o := Opts{BlockBinding: map[string]xrt.Binding{"M": bd(0, 1)}}
		o.Trace = &tr
		got, err := execGLSL(t, src, 5, o, extra)
		// rm rows: (0,1) (2,3) (4,5): rm[1] = column 1 = (1,3,5); rm[1][2] = 5
		// after rm[0] = (7,8,9): rows (7,1) (8,3) (9,5): c = (1,3,5) -> 9 ; whole[0].z + whole[1].x = 9 + 1
		wantInts(t, got, err, 5, 14, 24+32+33, 9, 10)
		w := words(extra[bd(0, 1)])
		if w[0] != fb(7) || w[2] != fb(8) || w[4] != fb(9) || w[1] != fb(1) {
			t.Fatalf("row-major column write landed wrong: % x", w[:6])
		}
		// the first access is the single component read at byte 20 of (0,1)
		if len(tr) == 0 || tr[0] != (xrt.Access{B: bd(0, 1), Off: 20, Len: 4}) {
			t.Fatalf("trace[0] = %+v", tr[0])
		}
	})
	t.Run("std140-array-stride-and-trace", func(t *testing.T) {
		src := pre430 + outBlk + `
struct S { float f; vec2 v; };
layout(std140) uniform U { float arr[3]; S s[2]; vec3 t; float z; };
void main() { o[0] = int(arr[2]); o[1] = int(s[1].v.y); o[2] = int(t.z + z); S c = s[0]; o[3] = int(c.f + c.v.x); }`
		// arr: stride 16, size 48; S: f@0 v@8 size 16 (align 16): s@48 stride 16; t@80; z@92
		data := make([]float32, 24)
		for i := range data {
			data[i] = float32(i)
		}
		var tr []xrt.Access
		o := Opts{BlockBinding: map[string]xrt.Binding{"U": bd(0, 1)}}
		o.Trace = &tr
		got, err := execGLSL(t, src, 4, o, bmap{bd(0, 1): f32s(data...)})
		wantInts(t, got, err, 8, 19, 22+23, 12+14)
		var reads []xrt.Access
		for _, a := range tr {
			if a.B == bd(0, 1) {
				reads = append(reads, a)
			}
		}
		want := []xrt.Access{{B: bd(0, 1), Off: 32, Len: 4}, {B: bd(0, 1), Off: 76, Len: 4}, {B: bd(0, 1), Off: 88, Len: 4},
			{B: bd(0, 1), Off: 92, Len: 4}, {B: bd(0, 1), Off: 48, Len: 4}, {B: bd(0, 1), Off: 56, Len: 8}}
		if len(reads) != len(want) {
			t.Fatalf("trace %+v", reads)
		}
		for i := range want {
			if reads[i] != want[i] {
				t.Fatalf("trace[%d] = %+v, want %+v", i, reads[i], want[i])
			}
		}
	})
	t.Run("binding-resolution", func(t *testing.T) {
		src := pre430 + `
layout(std430, binding = 3) buffer A { int x; } _group_1_binding_2_cs;
layout(std430, binding = 4) buffer B { int _group_0_binding_7_cs; };
void main() { _group_1_binding_2_cs.x = 11; _group_0_binding_7_cs = 22; }`
		p, err := Parse(src)
		if err != nil {
			t.Fatal(err)
		}
		bufs := xrt.Buffers{bd(1, 2): make([]byte, 4), bd(0, 7): make([]byte, 4), bd(5, 5): make([]byte, 4), bd(6, 6): make([]byte, 4)}
		if err := p.Exec(bufs, Opts{}); err != nil {
			t.Fatal(err)
		}
		if words(bufs[bd(1, 2)])[0] != 11 || words(bufs[bd(0, 7)])[0] != 22 {
			t.Fatal("default naming not honoured")
		}
		o := Opts{BindingSlots: map[int]xrt.Binding{3: bd(5, 5)}, BlockBinding: map[string]xrt.Binding{"binding=4": bd(6, 6)}}
		if err := p.Exec(bufs, o); err != nil {
			t.Fatal(err)
		}
		if words(bufs[bd(5, 5)])[0] != 11 || words(bufs[bd(6, 6)])[0] != 22 {
			t.Fatal("BindingSlots / BlockBinding not honoured")
		}
		if b, err := p.BindingOf("A", o); err != nil || b != bd(5, 5) {
			t.Fatalf("BindingOf = %v %v", b, err)
		}
	})
	t.Run("shared-layout-unsupported", func(t *testing.T) {
		src := pre430 + "buffer O { int o[]; };\nvoid main() { o[0] = 1; }"
		_, err := execGLSL(t, src, 1, Opts{}, nil)
		if errKind(err) != "unsupported" {
			t.Fatalf("got %v", err)
		}
	})
	t.Run("bytes-untouched-outside-accesses", func(t *testing.T) {
		src := pre430 + "layout(std430) buffer O { vec3 a; float b; vec3 c[2]; } o;\nvoid main() { o.a = vec3(1.0); o.c[1] = vec3(2.0); }"
		p, err := Parse(src)
		if err != nil {
			t.Fatal(err)
		}
		buf := bytes.Repeat([]byte{0xAA}, 48)
		bufs := xrt.Buffers{bd(0, 0): buf}
		if err := p.Exec(bufs, Opts{BlockBinding: map[string]xrt.Binding{"O": bd(0, 0)}}); err != nil {
			t.Fatal(err)
		}
		want := cat(f32s(1, 1, 1), pad, pad, pad, pad, pad, f32s(2, 2, 2), pad)
		if !bytes.Equal(buf, want) {
			t.Fatalf("got  % x\nwant % x", buf, want)
		}
	})
}

func equalInts(a, b []int) bool {
	if len(a) != len(b) {
		return false
	}
	for i := range a {
		if a[i] != b[i] {
			return false
		}
	}
	return true
}
