package glslx

import (
	"os"
	"path/filepath"
	"sort"
	"strings"
	"testing"

	"github.com/gogpu/naga/ir"

	"verif/internal/xrt"
)

// knownCorpusMalformed lists corpus outputs that this package rejects because naga's GLSL really
// is invalid GLSL (see the final report); key = file/entry/version-class.
var knownCorpusMalformed = map[string]string{
	"atomicOps-float32.wgsl/cs_main": "atomic<f32> is declared as GLSL uint but assigned / atomicAdd'ed with float values (type error in every GLSL version)",
}

// TestCorpusParses parses (and smoke-executes) the GLSL naga emits for every compute entry point of
// every corpus shader: no panic, no internal error; Malformed results must be triaged.
func TestCorpusParses(t *testing.T) {
	files, _ := filepath.Glob("/repo/snapshot/testdata/in/*.wgsl")
	if len(files) == 0 {
		t.Skip("corpus not found")
	}
	sort.Strings(files)
	nParsed, nUnsup, nMal, nExec, nExecErr := 0, 0, 0, 0, 0
	malformed := map[string][]string{}
	for _, f := range files {
		srcb, _ := os.ReadFile(f)
		m, err := lowerWGSL(string(srcb))
		if err != nil {
			continue
		}
		for _, ep := range m.EntryPoints {
			if ep.Stage != ir.StageCompute {
				continue
			}
			for _, v := range testVersions {
				g, err := emitGLSL(m, v, ep.Name)
				if err != nil {
					continue
				}
				id := filepath.Base(f) + "/" + ep.Name + "/" + v.String()
				prog, err := Parse(g)
				switch errKind(err) {
				case "":
					nParsed++
				case "unsupported":
					if strings.Contains(err.Error(), "internal") {
						t.Errorf("%s: %v", id, err)
					}
					nUnsup++
					continue
				case "malformed":
					nMal++
					malformed[err.Error()] = append(malformed[err.Error()], id)
					continue
				default:
					t.Errorf("%s: unexpected Parse error %v", id, err)
					continue
				}
				// observations must not panic
				_ = prog.Decls()
				_ = prog.Blocks()
				_ = prog.Problems()
				// smoke execution over zeroed buffers
				bufs := xrt.Buffers{}
				o := Opts{}
				o.StepLimit = 20000
				o.BlockBinding = map[string]xrt.Binding{}
				for i, b := range prog.Blocks() {
					k := xrt.Binding{Group: 9, Binding: uint32(i)}
					o.BlockBinding[b.Name] = k
					bufs[k] = make([]byte, 1024)
				}
				err = prog.Exec(bufs, o)
				nExec++
				if err != nil {
					nExecErr++
					if strings.Contains(err.Error(), "internal") || errKind(err) == "error" {
						t.Errorf("%s: Exec: %v", id, err)
					}
				}
			}
		}
	}
	t.Logf("parsed %d, unsupported %d, malformed %d; executed %d (%d ended with trap/limit/unsupported)", nParsed, nUnsup, nMal, nExec, nExecErr)
	var keys []string
	for k := range malformed {
		keys = append(keys, k)
	}
	sort.Strings(keys)
	for _, k := range keys {
		ids := malformed[k]
		known := true
		for _, id := range ids {
			parts := strings.Split(id, "/")
			if _, ok := knownCorpusMalformed[parts[0]+"/"+parts[1]]; !ok {
				known = false
			}
		}
		if known {
			t.Logf("known invalid GLSL from naga: %s  <- %v", k, ids)
		} else {
			t.Errorf("untriaged Malformed: %s  <- %v", k, ids)
		}
	}
}
