package glslx

import (
	"fmt"
	"math"
	"strconv"
	"strings"

	"verif/internal/xrt"
)

type tokKind uint8

const (
	tkEOF tokKind = iota
	tkIdent
	tkInt   // int literal, bits in val
	tkUint  // uint literal
	tkFloat // float literal, bits in val
	tkPunct
)

type token struct {
	text string
	val  uint32
	line int
	kind tokKind
}

func malformed(line int, f string, a ...any) *xrt.Malformed {
	return &xrt.Malformed{What: fmt.Sprintf("line %d: ", line) + fmt.Sprintf(f, a...)}
}

func unsupported(line int, f string, a ...any) *xrt.Unsupported {
	return &xrt.Unsupported{What: fmt.Sprintf("line %d: ", line) + fmt.Sprintf(f, a...)}
}

type directive struct {
	line int
	text string
}

// lex tokenises src. Preprocessor lines are collected separately and otherwise ignored.
func lex(src string) ([]token, []directive, error) {
	toks := make([]token, 0, len(src)/5+16)
	var dirs []directive
	line := 1
	i := 0
	n := len(src)
	lineStart := true // only whitespace seen so far on this line
	for i < n {
		c := src[i]
		switch {
		case c == '\n':
			line++
			i++
			lineStart = true
			continue
		case c == ' ' || c == '\t' || c == '\r' || c == '\f' || c == '\v':
			i++
			continue
		case c == '/' && i+1 < n && src[i+1] == '/':
			for i < n && src[i] != '\n' {
				i++
			}
			continue
		case c == '/' && i+1 < n && src[i+1] == '*':
			j := strings.Index(src[i+2:], "*/")
			if j < 0 {
				return nil, nil, malformed(line, "unterminated comment")
			}
			line += strings.Count(src[i:i+2+j+2], "\n")
			i += 2 + j + 2
			continue
		case c == '#':
			if !lineStart {
				return nil, nil, malformed(line, "'#' not at the start of a line")
			}
			j := i
			for j < n && src[j] != '\n' {
				if src[j] == '\\' && j+1 < n && src[j+1] == '\n' {
					line++
					j++
				}
				j++
			}
			dirs = append(dirs, directive{line, strings.TrimSpace(src[i:j])})
			i = j
			continue
		}
		lineStart = false
		switch {
		case c == '_' || c >= 'a' && c <= 'z' || c >= 'A' && c <= 'Z':
			j := i + 1
			for j < n && (src[j] == '_' || src[j] >= 'a' && src[j] <= 'z' || src[j] >= 'A' && src[j] <= 'Z' || src[j] >= '0' && src[j] <= '9') {
				j++
			}
			toks = append(toks, token{kind: tkIdent, text: src[i:j], line: line})
			i = j
		case c >= '0' && c <= '9' || c == '.' && i+1 < n && src[i+1] >= '0' && src[i+1] <= '9':
			t, j, err := lexNumber(src, i, line)
			if err != nil {
				return nil, nil, err
			}
			toks = append(toks, t)
			i = j
		default:
			if c >= 0x80 {
				return nil, nil, malformed(line, "non-ASCII character %q outside a comment", c)
			}
			p := lexPunct(src[i:])
			if p == "" {
				return nil, nil, malformed(line, "unexpected character %q", c)
			}
			toks = append(toks, token{kind: tkPunct, text: p, line: line})
			i += len(p)
		}
	}
	toks = append(toks, token{kind: tkEOF, line: line})
	return toks, dirs, nil
}

var puncts3 = []string{"<<=", ">>="}
var puncts2 = []string{"<<", ">>", "++", "--", "<=", ">=", "==", "!=", "&&", "||", "^^", "+=", "-=", "*=", "/=", "%=", "&=", "^=", "|="}

func lexPunct(s string) string {
	for _, p := range puncts3 {
		if strings.HasPrefix(s, p) {
			return p
		}
	}
	for _, p := range puncts2 {
		if strings.HasPrefix(s, p) {
			return p
		}
	}
	if strings.IndexByte("(){}[].,;:?+-*/%<>=!~&|^", s[0]) >= 0 {
		return s[:1]
	}
	return ""
}

func isDigit(c byte) bool { return c >= '0' && c <= '9' }
func isHex(c byte) bool {
	return isDigit(c) || c >= 'a' && c <= 'f' || c >= 'A' && c <= 'F'
}

func lexNumber(src string, i, line int) (token, int, error) {
	n := len(src)
	j := i
	// hexadecimal
	if src[j] == '0' && j+1 < n && (src[j+1] == 'x' || src[j+1] == 'X') {
		j += 2
		k := j
		for j < n && isHex(src[j]) {
			j++
		}
		if j == k {
			return token{}, 0, malformed(line, "bad hexadecimal literal")
		}
		v, err := strconv.ParseUint(src[k:j], 16, 64)
		if err != nil || v > math.MaxUint32 {
			return token{}, 0, malformed(line, "integer literal %s does not fit in 32 bits", src[i:j])
		}
		return intSuffix(src, i, j, uint32(v), line)
	}
	for j < n && isDigit(src[j]) {
		j++
	}
	isFloat := false
	if j < n && src[j] == '.' {
		isFloat = true
		j++
		for j < n && isDigit(src[j]) {
			j++
		}
	}
	if j < n && (src[j] == 'e' || src[j] == 'E') {
		k := j + 1
		if k < n && (src[k] == '+' || src[k] == '-') {
			k++
		}
		if k < n && isDigit(src[k]) {
			isFloat = true
			for k < n && isDigit(src[k]) {
				k++
			}
			j = k
		}
	}
	if isFloat {
		text := src[i:j]
		end := j
		if end < n && (src[end] == 'f' || src[end] == 'F') {
			end++
		} else if end+1 < n && (src[end:end+2] == "lf" || src[end:end+2] == "LF") {
			return token{}, 0, unsupported(line, "double-precision literal %s", src[i:end+2])
		}
		if end < n && (src[end] == '_' || src[end] >= 'a' && src[end] <= 'z' || src[end] >= 'A' && src[end] <= 'Z') {
			return token{}, 0, malformed(line, "bad suffix on floating literal %s", src[i:end+1])
		}
		f, err := strconv.ParseFloat(text, 32)
		if err != nil {
			// out of range: ParseFloat returns ±Inf with ErrRange, which is what GLSL 4.x prescribes
			if ne, ok := err.(*strconv.NumError); !ok || ne.Err != strconv.ErrRange {
				return token{}, 0, malformed(line, "bad floating literal %s", text)
			}
		}
		return token{kind: tkFloat, text: src[i:end], val: math.Float32bits(float32(f)), line: line}, end, nil
	}
	text := src[i:j]
	var v uint64
	var err error
	if len(text) > 1 && text[0] == '0' {
		v, err = strconv.ParseUint(text[1:], 8, 64)
	} else {
		v, err = strconv.ParseUint(text, 10, 64)
	}
	if err != nil || v > math.MaxUint32 {
		return token{}, 0, malformed(line, "integer literal %s does not fit in 32 bits", text)
	}
	return intSuffix(src, i, j, uint32(v), line)
}

func intSuffix(src string, i, j int, v uint32, line int) (token, int, error) {
	n := len(src)
	k := tkInt
	if j < n && (src[j] == 'u' || src[j] == 'U') {
		k = tkUint
		j++
	}
	if j < n && (src[j] == '_' || src[j] >= 'a' && src[j] <= 'z' || src[j] >= 'A' && src[j] <= 'Z' || isDigit(src[j])) {
		if j < n && (src[j] == 'l' || src[j] == 'L') {
			return token{}, 0, unsupported(line, "64-bit integer literal")
		}
		return token{}, 0, malformed(line, "bad suffix on integer literal %s", src[i:j+1])
	}
	return token{kind: k, text: src[i:j], val: v, line: line}, j, nil
}
