package glslx

import (
	"testing"

	"verif/internal/xrt"
)

// Group 3: memory. Offsets are derived from the WGSL layout rules (WGSL spec "Memory Layout":
// AlignOf/SizeOf tables, struct member offsets = roundUp(align, previous end), array stride =
// roundUp(AlignOf(E), SizeOf(E))).

var pad = []byte{0xAA, 0xAA, 0xAA, 0xAA}

var group3 = []conf{
	{
		name: "storage-fixed-array-dynamic-index",
		wgsl: `
struct B { arr: array<i32, 4>, k: i32 }
@group(0) @binding(0) var<storage, read_write> b: B;
@compute @workgroup_size(1) fn main() {
	b.arr[b.k] = 7; b.arr[0] = b.arr[3] + 1; b.k = b.arr[b.k] * 2;
}`,
		in:   bmap{bd(0, 0): i32s(1, 2, 3, 4, 2)},
		want: bmap{bd(0, 0): i32s(5, 2, 7, 4, 14)},
	},
	{
		name: "runtime-array-length",
		wgsl: `
struct S { hdr: vec3<f32>, n: u32, items: array<vec3<u32>> }   // items at offset 16, stride 16
@group(0) @binding(0) var<storage, read> a: array<vec2<f32>>;       // stride 8
@group(0) @binding(1) var<storage, read_write> s: S;
@group(0) @binding(2) var<storage, read_write> o: array<u32>;
@compute @workgroup_size(1) fn main() {
	o[0] = arrayLength(&a); o[1] = arrayLength(&s.items); o[2] = arrayLength(&o);
	s.n = arrayLength(&s.items) + 100u;
	let last = arrayLength(&s.items) - 1u;
	s.items[last] = vec3<u32>(7u, 8u, 9u);
	o[3] = u32(a[arrayLength(&a) - 1u].y);
}`,
		// a: 40 bytes -> 5 elements; s: 16 + 3*16 + 8 spare bytes = 72 -> floor(56/16) = 3; o: 16 bytes -> 4
		in: bmap{bd(0, 0): f32s(0, 1, 2, 3, 4, 5, 6, 7, 8, 9), bd(0, 1): zeros(72), bd(0, 2): zeros(16)},
		want: bmap{bd(0, 1): cat(zeros(12), u32s(103), zeros(32), u32s(7, 8, 9), zeros(12)),
			bd(0, 2): u32s(5, 3, 4, 9)},
	},
	{
		name: "vec3-array-stride-16",
		wgsl: `
struct T { v: array<vec3<f32>, 2>, f: f32 }      // v[0]@0 v[1]@16 f@32, size 48
@group(0) @binding(0) var<storage, read_write> t: T;
@compute @workgroup_size(1) fn main() {
	t.f = t.v[1].z; t.v[0] = vec3<f32>(7.0, 8.0, 9.0); t.v[1].x = t.v[1].y + 1.0;
}`,
		in:   bmap{bd(0, 0): cat(f32s(1, 2, 3), pad, f32s(4, 5, 6), pad, f32s(0), pad, pad, pad)},
		want: bmap{bd(0, 0): cat(f32s(7, 8, 9), pad, f32s(6, 5, 6), pad, f32s(6), pad, pad, pad)},
	},
	{
		name: "struct-vec3-f32-packing",
		wgsl: `
struct U { a: vec3<f32>, b: f32, c: vec2<f32>, d: f32 }    // a@0 b@12 c@16 d@24 size 32
@group(0) @binding(0) var<storage, read> x: U;
@group(0) @binding(1) var<storage, read_write> y: U;
@compute @workgroup_size(1) fn main() {
	y.b = x.a.x + x.a.y + x.a.z; y.a = vec3<f32>(x.b, x.c.y, x.d); y.c = x.c * 2.0; y.d = x.c.x;
}`,
		in:   bmap{bd(0, 0): cat(f32s(1, 2, 3, 4, 5, 6, 7), pad), bd(0, 1): cat(zeros(28), pad)},
		want: bmap{bd(0, 1): cat(f32s(4, 6, 7, 6, 10, 12, 5), pad)},
	},
	{
		name: "struct-align-size-attributes",
		wgsl: `
struct In { x: f32, @size(12) y: f32 }                       // x@0 y@4 (size 12) -> size 16, align 4
struct Out { @align(16) p: In, q: u32, @align(8) r: u32, s: array<In, 2> }
// p@0 q@16 r@24 s@28 (stride 16: s[0]@28 s[1]@44) -> end 60, align 16 -> size 64
@group(0) @binding(0) var<storage, read_write> b: Out;
@compute @workgroup_size(1) fn main() {
	b.q = u32(b.p.y + b.s[1].x); b.r = 77u; b.s[0].y = b.p.x;
}`,
		in:     bmap{bd(0, 0): cat(f32s(1.5, 2), zeros(8), u32s(0), zeros(4), u32s(0), f32s(10, 11), zeros(8), f32s(20, 21), zeros(8), zeros(4))},
		want:   bmap{bd(0, 0): cat(f32s(1.5, 2), zeros(8), u32s(22), zeros(4), u32s(77), f32s(10, 1.5), zeros(8), f32s(20, 21), zeros(8), zeros(4))},
		defect: "@align/@size struct attributes are dropped by the GLSL backend: members are declared back to back in a std430 block, so every member after the attribute sits at the wrong offset",
	},
	{
		name: "array-of-structs",
		wgsl: `
struct P { pos: vec3<f32>, id: u32, vel: vec2<f32> }        // pos@0 id@12 vel@16, size 32
@group(0) @binding(0) var<storage, read_write> ps: array<P>;
@group(0) @binding(1) var<storage, read> idx: array<u32>;
@compute @workgroup_size(1) fn main() {
	let i = idx[0]; let j = idx[1];
	ps[i].vel.y = ps[j].pos.z; ps[i].id = ps[j].id + arrayLength(&ps);
	let tmp = ps[j]; ps[j] = ps[i]; ps[i].pos = tmp.pos * 2.0;
}`,
		in: bmap{bd(0, 0): cat(
			f32s(1, 2, 3), u32s(10), f32s(4, 5), pad, pad,
			f32s(6, 7, 8), u32s(20), f32s(9, 10), pad, pad),
			bd(0, 1): u32s(1, 0)},
		// i=1, j=0: ps[1].vel.y = 3; ps[1].id = 12; tmp = ps[0]; ps[0] = ps[1] (after edits); ps[1].pos = (2,4,6)
		want: bmap{bd(0, 0): cat(
			f32s(6, 7, 8), u32s(12), f32s(9, 3), pad, pad,
			f32s(2, 4, 6), u32s(12), f32s(9, 3), pad, pad)},
	},
	{
		name: "uniform-std140-compatible",
		wgsl: `
struct UU { a: vec3<f32>, b: f32, m: mat3x3<f32>, n: mat4x4<f32>, arr: array<vec4<f32>, 2>, t: i32 }
// a@0 b@12 m@16 (3 columns, stride 16) n@64 arr@128 t@160 size 176
@group(0) @binding(0) var<uniform> u: UU;
@group(0) @binding(1) var<storage, read_write> o: array<f32>;
@compute @workgroup_size(1) fn main() {
	o[0] = u.a.z; o[1] = u.b; o[2] = u.m[2][1]; o[3] = u.n[3][2]; o[4] = u.arr[u.t].w; o[5] = f32(u.t);
	let mv = u.m * u.a;     // identity-like check below
	o[6] = mv.x; o[7] = mv.y; o[8] = mv.z;
	let c = u.m[1]; o[9] = c.x + c.y + c.z;
}`,
		in: bmap{bd(0, 0): cat(
			f32s(1, 2, 3, 4),                                           // a, b
			f32s(1, 0, 0), pad, f32s(0, 2, 0), pad, f32s(5, 6, 3), pad, // m columns
			f32s(0, 0, 0, 0, 0, 0, 0, 0, 0, 0, 0, 0, 10, 11, 12, 13), // n
			f32s(20, 21, 22, 23, 30, 31, 32, 33),                     // arr
			i32s(1), pad, pad, pad),
			bd(0, 1): zeros(40)},
		// m*a = 1*(1,0,0) + 2*(0,2,0) + 3*(5,6,3) = (16, 22, 9)
		want: bmap{bd(0, 1): f32s(3, 4, 6, 12, 33, 1, 16, 22, 9, 2)},
	},
	{
		name: "uniform-mat2x2-in-struct",
		wgsl: `
struct M2 { m: mat2x2<f32>, k: f32 }          // WGSL: m columns at 0 and 8, k@16, size 24
@group(0) @binding(0) var<uniform> u: M2;
@group(0) @binding(1) var<storage, read_write> o: array<f32>;
@compute @workgroup_size(1) fn main() { o[0] = u.m[0].x; o[1] = u.m[0].y; o[2] = u.m[1].x; o[3] = u.m[1].y; o[4] = u.k; }`,
		in:     bmap{bd(0, 0): cat(f32s(1, 2, 3, 4, 5), pad), bd(0, 1): zeros(20)},
		want:   bmap{bd(0, 1): f32s(1, 2, 3, 4, 5)},
		defect: "mat2x2<f32> inside a var<uniform> struct is declared in a std140 block (column stride 16) while WGSL's column stride is 8: column 1 and every later member are read from the wrong bytes",
	},
	{
		name: "uniform-mat4x2-direct",
		wgsl: `
@group(0) @binding(0) var<uniform> u: mat4x2<f32>;      // WGSL: 4 columns, stride 8, size 32
@group(0) @binding(1) var<storage, read_write> o: array<f32>;
@compute @workgroup_size(1) fn main() { o[0] = u[0].x; o[1] = u[1].y; o[2] = u[2].x; o[3] = u[3].y; }`,
		in:     bmap{bd(0, 0): f32s(1, 2, 3, 4, 5, 6, 7, 8), bd(0, 1): zeros(16)},
		want:   bmap{bd(0, 1): f32s(1, 4, 5, 8)},
		defect: "matCx2 as a var<uniform> is declared in a std140 block (column stride 16, WGSL 8)",
	},
	{
		name: "uniform-array-dynamic-and-struct-array",
		wgsl: `
struct E { v: vec4<f32>, w: vec2<u32> }          // v@0 w@16 size 32 (align 16)
struct UA { es: array<E, 2>, ks: array<vec4<i32>, 3> }   // es@0 (stride 32) ks@64 (stride 16) size 112
@group(0) @binding(0) var<uniform> u: UA;
@group(0) @binding(1) var<storage, read_write> o: array<i32>;
@compute @workgroup_size(1) fn main() {
	let i = u.ks[0].x;
	o[0] = u.ks[i].z; o[1] = i32(u.es[i - 1].w.y); o[2] = i32(u.es[1].v.w); o[3] = u.ks[2][u.ks[0].y];
}`,
		in: bmap{bd(0, 0): cat(
			f32s(1, 2, 3, 4), u32s(5, 6), pad, pad,
			f32s(7, 8, 9, 10), u32s(11, 12), pad, pad,
			i32s(2, 3, 0, 0, 20, 21, 22, 23, 30, 31, 32, 33)),
			bd(0, 1): zeros(16)},
		want: bmap{bd(0, 1): i32s(32, 12, 10, 33)},
	},
	{
		name: "storage-matrices",
		wgsl: `
struct MS { m2: mat2x2<f32>, m3: mat3x3<f32>, m23: mat2x3<f32>, m42: mat4x2<f32> }
// m2@0 (stride 8, size 16) m3@16 (stride 16, size 48) m23@64 (stride 16, size 32) m42@96 (stride 8, size 32) -> 128
@group(0) @binding(0) var<storage, read_write> s: MS;
@group(0) @binding(1) var<storage, read_write> o: array<f32>;
@compute @workgroup_size(1) fn main() {
	o[0] = s.m2[1][0]; o[1] = s.m3[2][1]; o[2] = s.m23[1].z; o[3] = s.m42[3].y;
	var c = 1; var r = 2;
	o[4] = s.m3[c][r];
	s.m2[1] = vec2<f32>(100.0, 101.0); s.m3[c][r] = 102.0; s.m42[c + 1] = s.m2[0]; s.m23[0].y = 103.0;
	let whole = s.m3; o[5] = whole[0].x + whole[1].z + whole[2].z;
	s.m23 = mat2x3<f32>(vec3<f32>(1.0, 2.0, 3.0), vec3<f32>(4.0, 5.0, 6.0));
	let v = s.m2 * vec2<f32>(1.0, 1.0); o[6] = v.x; o[7] = v.y;
}`,
		in: bmap{bd(0, 0): cat(
			f32s(1, 2, 3, 4),
			f32s(10, 11, 12), pad, f32s(13, 14, 15), pad, f32s(16, 17, 18), pad,
			f32s(20, 21, 22), pad, f32s(23, 24, 25), pad,
			f32s(30, 31, 32, 33, 34, 35, 36, 37)),
			bd(0, 1): zeros(32)},
		want: bmap{
			bd(0, 0): cat(
				f32s(1, 2, 100, 101),
				f32s(10, 11, 12), pad, f32s(13, 14, 102), pad, f32s(16, 17, 18), pad,
				f32s(1, 2, 3), pad, f32s(4, 5, 6), pad,
				f32s(30, 31, 32, 33, 1, 2, 36, 37)),
			bd(0, 1): f32s(3, 17, 25, 37, 15, 10+102+18, 101, 103)},
	},
	{
		name: "whole-value-copies",
		wgsl: `
struct S { v: vec3<i32>, arr: array<i32, 3>, m: mat2x2<f32> }   // v@0 arr@12 (size 12) m@24 size 40 -> 48
@group(0) @binding(0) var<storage, read> src: S;
@group(0) @binding(1) var<storage, read_write> dst: S;
@group(0) @binding(2) var<storage, read_write> dst2: S;
@group(0) @binding(3) var<uniform> usrc: array<vec4<i32>, 2>;
@group(0) @binding(4) var<storage, read_write> o: array<vec4<i32>, 2>;
var<private> pp: S;
var<workgroup> ww: array<i32, 3>;
@compute @workgroup_size(1) fn main() {
	dst = src;                        // storage -> storage
	var loc = src; loc.arr[1] = 99; loc.v.x = -1; pp = loc;     // storage -> function -> private
	ww = pp.arr; ww[2] = 77;
	var loc2 = pp; loc2.arr = ww; dst2 = loc2;
	var ua = usrc; ua[1].w = 5; o = ua;
}`,
		in: bmap{bd(0, 0): cat(i32s(1, 2, 3, 4, 5, 6), f32s(7, 8, 9, 10), pad, pad), bd(0, 1): cat(zeros(40), pad, pad), bd(0, 2): cat(zeros(40), pad, pad),
			bd(0, 3): i32s(1, 2, 3, 4, 5, 6, 7, 8), bd(0, 4): zeros(32)},
		want: bmap{bd(0, 1): cat(i32s(1, 2, 3, 4, 5, 6), f32s(7, 8, 9, 10), pad, pad),
			bd(0, 2): cat(i32s(-1, 2, 3, 4, 99, 77), f32s(7, 8, 9, 10), pad, pad),
			bd(0, 4): i32s(1, 2, 3, 4, 5, 6, 7, 5)},
		opts: Opts{Opts: xrtPoison()},
	},
	{
		name: "pointer-let",
		wgsl: `
struct S { a: array<vec2<i32>, 3>, k: i32 }      // a@0 stride 8, k@24
@group(0) @binding(0) var<storage, read_write> s: S;
@compute @workgroup_size(1) fn main() {
	let i = s.k;
	let p = &s.a[i]; (*p).y = (*p).x + 1; *p = *p + vec2<i32>(10, 10);
	let q = &s.a[0].x; *q = 5; *q += 1;
	var loc = array<i32, 3>(1, 2, 3); let r = &loc[i]; *r = 40; s.k = loc[0] + loc[1] + loc[2];
}`,
		in:   bmap{bd(0, 0): i32s(1, 2, 3, 4, 5, 6, 1)},
		want: bmap{bd(0, 0): i32s(6, 2, 13, 14, 5, 6, 44)},
	},
	{
		name: "workgroup-barrier-local-size-4",
		wgsl: `
var<workgroup> w: array<u32, 4>;
@group(0) @binding(0) var<storage, read> a: array<u32>;
@group(0) @binding(1) var<storage, read_write> o: array<u32>;
@compute @workgroup_size(4) fn main(@builtin(local_invocation_index) li: u32) {
	w[li] = a[li] * 10u;
	workgroupBarrier();
	o[li] = w[(li + 1u) % 4u] + w[(li + 3u) % 4u];
	workgroupBarrier();
	w[li] = o[li];
	workgroupBarrier();
	if li == 0u { o[4] = w[0] + w[1] + w[2] + w[3]; }
}`,
		in:   bmap{bd(0, 0): u32s(1, 2, 3, 4), bd(0, 1): zeros(20)},
		want: bmap{bd(0, 1): u32s(60, 40, 60, 40, 200)},
		opts: Opts{Opts: xrtPoison()},
	},
	{
		name: "atomics-storage",
		wgsl: `
struct A { u: atomic<u32>, i: atomic<i32>, arr: array<atomic<u32>, 2> }
@group(0) @binding(0) var<storage, read_write> x: A;
@group(0) @binding(1) var<storage, read_write> o: array<u32>;
@compute @workgroup_size(1) fn main() {
	o[0] = atomicAdd(&x.u, 5u);            // 10 -> 15
	o[1] = atomicSub(&x.u, 20u);           // 15 -> 0xFFFFFFFB
	o[2] = atomicMax(&x.u, 3u);            // stays
	o[3] = atomicMin(&x.u, 7u);            // -> 7
	o[4] = atomicAnd(&x.u, 5u);            // 7 -> 5
	o[5] = atomicOr(&x.u, 8u);             // 5 -> 13
	o[6] = atomicXor(&x.u, 1u);            // 13 -> 12
	o[7] = atomicExchange(&x.u, 100u);     // 12 -> 100
	o[8] = atomicLoad(&x.u);
	atomicStore(&x.arr[1], 55u);
	o[9] = bitcast<u32>(atomicMin(&x.i, -3));   // -1 -> -3
	o[10] = bitcast<u32>(atomicMax(&x.i, 2));   // -3 -> 2
	o[11] = bitcast<u32>(atomicAdd(&x.i, -5));  // 2 -> -3
	let r = atomicCompareExchangeWeak(&x.arr[0], 9u, 1u);   // arr[0] = 9 -> 1
	o[12] = r.old_value; o[13] = u32(r.exchanged);
	let r2 = atomicCompareExchangeWeak(&x.arr[0], 9u, 2u);  // fails
	o[14] = r2.old_value; o[15] = u32(r2.exchanged);
	o[16] = bitcast<u32>(atomicSub(&x.i, 1));   // -3 -> -4
}`,
		in: bmap{bd(0, 0): u32s(10, 0xFFFFFFFF, 9, 0), bd(0, 1): zeros(17 * 4)},
		want: bmap{bd(0, 0): u32s(100, 0xFFFFFFFC, 1, 55),
			bd(0, 1): u32s(10, 15, 0xFFFFFFFB, 0xFFFFFFFB, 7, 5, 13, 12, 100, 0xFFFFFFFF, 0xFFFFFFFD, 2, 9, 1, 1, 0, 0xFFFFFFFD)},
	},
	{
		name: "atomics-workgroup-4-invocations",
		wgsl: `
var<workgroup> cnt: atomic<u32>;
var<workgroup> mx: atomic<i32>;
@group(0) @binding(0) var<storage, read> a: array<i32>;
@group(0) @binding(1) var<storage, read_write> o: array<u32>;
@compute @workgroup_size(2, 2, 1) fn main(@builtin(local_invocation_index) li: u32, @builtin(local_invocation_id) lid: vec3<u32>) {
	let before = atomicAdd(&cnt, li + 1u);
	atomicMax(&mx, a[li]);
	o[li] = before;
	workgroupBarrier();
	if lid.x == 1u && lid.y == 1u { o[4] = atomicLoad(&cnt); o[5] = bitcast<u32>(atomicLoad(&mx)); o[6] = li; }
}`,
		in:   bmap{bd(0, 0): i32s(-5, 9, 3, -1), bd(0, 1): zeros(28)},
		want: bmap{bd(0, 1): u32s(0, 1, 3, 6, 10, 9, 3)},
		opts: Opts{Opts: xrtPoison()},
	},
	{
		name: "builtin-ids",
		wgsl: `
@group(0) @binding(0) var<storage, read_write> o: array<u32>;
@compute @workgroup_size(4, 2, 1) fn main(@builtin(global_invocation_id) gid: vec3<u32>, @builtin(local_invocation_id) lid: vec3<u32>,
	@builtin(local_invocation_index) li: u32, @builtin(workgroup_id) wid: vec3<u32>, @builtin(num_workgroups) nw: vec3<u32>) {
	let flat = (wid.y * nw.x + wid.x) * 8u + li;
	o[flat] = gid.x + gid.y * 100u + lid.x * 10000u + lid.y * 100000u + wid.x * 1000000u + wid.y * 10000000u + nw.x * 100000000u;
}`,
		in: bmap{bd(0, 0): zeros(4 * 32)},
		want: bmap{bd(0, 0): func() []byte {
			var out []uint32
			for wy := uint32(0); wy < 2; wy++ {
				for wx := uint32(0); wx < 2; wx++ {
					for ly := uint32(0); ly < 2; ly++ {
						for lx := uint32(0); lx < 4; lx++ {
							gx, gy := wx*4+lx, wy*2+ly
							out = append(out, gx+gy*100+lx*10000+ly*100000+wx*1000000+wy*10000000+2*100000000)
						}
					}
				}
			}
			return u32s(out...)
		}()},
		opts: Opts{Opts: xrt.Opts{NumWorkgroups: [3]uint32{2, 2, 1}}},
	},
	{
		name: "two-entry-points-first",
		wgsl: twoEP,
		ep:   "first",
		in:   bmap{bd(0, 0): i32s(3, 0, 0), bd(0, 1): i32s(100)},
		want: bmap{bd(0, 0): i32s(3, 14, 0), bd(0, 1): i32s(100)},
	},
	{
		name: "two-entry-points-second",
		wgsl: twoEP,
		ep:   "second",
		in:   bmap{bd(0, 0): i32s(3, 0, 0), bd(0, 1): i32s(100)},
		want: bmap{bd(0, 0): i32s(3, 0, 1023), bd(0, 1): i32s(101)},
	},
	{
		name: "storage-barrier-and-order",
		wgsl: `
@group(0) @binding(0) var<storage, read_write> o: array<u32>;
@compute @workgroup_size(4) fn main(@builtin(local_invocation_index) li: u32) {
	o[li] = li + 1u;
	storageBarrier();
	workgroupBarrier();
	let s = o[0] + o[1] + o[2] + o[3];
	workgroupBarrier();
	o[li + 4u] = s * (li + 1u);
}`,
		in:   bmap{bd(0, 0): zeros(32)},
		want: bmap{bd(0, 0): u32s(1, 2, 3, 4, 10, 20, 30, 40)},
	},
	{
		name: "workgroup-zero-init",
		wgsl: `
struct W { a: array<i32, 3>, v: vec2<f32>, f: u32 }
var<workgroup> w: W;
var<workgroup> m: mat2x2<f32>;
var<workgroup> k: atomic<u32>;
@group(0) @binding(0) var<storage, read_write> o: array<i32>;
@compute @workgroup_size(2) fn main(@builtin(local_invocation_index) li: u32) {
	o[li * 4u] = w.a[2] + i32(w.v.y) + i32(w.f) + 1; o[li * 4u + 1u] = i32(m[1][1]) + 2; o[li * 4u + 2u] = i32(atomicLoad(&k)) + 3;
	workgroupBarrier();
	w.a[li] = 5;
}`,
		in:   bmap{bd(0, 0): zeros(32)},
		want: bmap{bd(0, 0): i32s(1, 2, 3, 0, 1, 2, 3, 0)},
		opts: Opts{Opts: xrtPoison()},
	},
	{
		name: "nested-arrays-and-array-of-matrices",
		wgsl: `
struct N { g: array<array<f32, 2>, 3>, ms: array<mat2x2<f32>, 2>, vs: array<vec3<f32>, 2> }
// g@0 (inner stride 4, outer stride 8, size 24) ms@24 (align 8, stride 16, size 32) vs@64 (align 16, stride 16, size 32) -> 96
@group(0) @binding(0) var<storage, read_write> n: N;
@group(0) @binding(1) var<storage, read_write> o: array<f32>;
@compute @workgroup_size(1) fn main() {
	var i = 2; var j = 1;
	o[0] = n.g[i][j]; o[1] = n.ms[1][0].y; o[2] = n.vs[1].z; o[3] = n.ms[j][j][0];
	n.g[1] = array<f32, 2>(50.0, 51.0); n.ms[0][1] = vec2<f32>(52.0, 53.0); n.vs[0] = n.vs[1];
	let row = n.g[i]; o[4] = row[0] + row[1];
	var f = n.vs; f[1].x = 9.0; n.vs = f;
}`,
		in: bmap{bd(0, 0): cat(f32s(1, 2, 3, 4, 5, 6), f32s(10, 11, 12, 13, 14, 15, 16, 17), pad, pad, f32s(20, 21, 22), pad, f32s(23, 24, 25), pad),
			bd(0, 1): zeros(20)},
		want: bmap{bd(0, 0): cat(f32s(1, 2, 50, 51, 5, 6), f32s(10, 11, 52, 53, 14, 15, 16, 17), pad, pad, f32s(23, 24, 25), pad, f32s(9, 24, 25), pad),
			bd(0, 1): f32s(6, 15, 25, 16, 11)},
	},
	{
		name: "struct-member-swizzle-write",
		wgsl: `
struct S { v: vec4<f32>, w: vec3<i32> }
@group(0) @binding(0) var<storage, read_write> s: S;
var<private> ps: S;
@compute @workgroup_size(1) fn main() {
	s.v.y = s.v.x + 0.5; s.w.z = s.w.x * 2; s.v.w = s.v.z;
	ps = s; ps.v.x = 8.0; ps.w.y = ps.w.z + 1; s.w = ps.w; s.v.x = ps.v.x;
}`,
		in:   bmap{bd(0, 0): cat(f32s(1, 2, 3, 4), i32s(5, 6, 7), pad)},
		want: bmap{bd(0, 0): cat(f32s(8, 1.5, 3, 3), i32s(5, 11, 10), pad)},
	},
	{
		name: "readonly-storage-and-uniform-scalars",
		wgsl: `
@group(0) @binding(0) var<uniform> k: u32;
@group(0) @binding(1) var<uniform> v: vec3<f32>;
@group(1) @binding(0) var<storage, read> r: vec4<i32>;
@group(1) @binding(1) var<storage, read_write> o: array<i32, 4>;
@compute @workgroup_size(1) fn main() { o[0] = i32(k) + r.w; o[1] = i32(v.z) + r[1]; o[k] = r.x; o[3] = i32(v.x + v.y); }`,
		in:   bmap{bd(0, 0): u32s(2), bd(0, 1): cat(f32s(1.5, 2.5, 7), pad), bd(1, 0): i32s(10, 20, 30, 40), bd(1, 1): zeros(16)},
		want: bmap{bd(1, 1): i32s(42, 27, 10, 4)},
	},
}

const twoEP = `
var<private> acc: i32 = 7;
@group(0) @binding(0) var<storage, read_write> buf: array<i32, 3>;
@group(0) @binding(1) var<storage, read_write> other: i32;
fn shared_helper(x: i32) -> i32 { acc += x; return acc * 2 - buf[0] * 2; }
fn only_second(x: i32) -> i32 { other += 1; return x + 1000; }
@compute @workgroup_size(1) fn first() { buf[1] = shared_helper(buf[0]); }            // acc = 10 -> 20 - 6 = 14
@compute @workgroup_size(1) fn second() { buf[2] = only_second(shared_helper(buf[0] * 2) + 3); } // acc = 13 -> 26 - 6 = 20; +3 = 23; other = 101; 1023
`

func TestConformGroup3(t *testing.T) {
	for _, c := range group3 {
		c := c
		t.Run(c.name, func(t *testing.T) { runConf(t, c) })
	}
}
