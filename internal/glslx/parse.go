package glslx

import (
	"fmt"
	"strconv"
	"strings"

	"verif/internal/xrt"
)

// Decl is one declared identifier.
type Decl struct {
	Name          string
	Kind          string // "struct","member","function","param","local","global","block","block-member"
	ScopeID       int
	ParentScopeID int // -1 for the global scope
	Line          int
}

// Program is a parsed, scope-resolved and type-checked translation unit.
type Program struct {
	version   int
	es        bool
	localSize [3]uint32
	hasLocal  bool
	decls     []Decl
	problems  []string
	blocks    []*blockInfo
	funcs     []*Function
	mainFn    *Function
	globals   []globalInit // in declaration order
	nGlobal   int          // cells of private globals
	nShared   int          // cells of shared variables
	usesBar   bool
	types     typeTable
	lc        layoutCalc
	maxFrame  int
}

type symKind uint8

const (
	skVar symKind = iota
	skFunc
	skType
	skBlockInst
	skBlockName
)

type symbol struct {
	kind     symKind
	name     string
	typ      *Type
	sp       space
	slot     int
	constVal []cell
	funcs    []*Function
	blk      *blockInfo
	member   int
	global   bool
	line     int
}

type scope struct {
	id     int
	parent *scope
	syms   map[string]*symbol
}

type parser struct {
	toks     []token
	pos      int
	prog     *Program
	scope    *scope
	nScopes  int
	fn       *Function
	loops    int
	switches int
	// default layout qualifiers set by "layout(...) uniform;" / "layout(...) buffer;"
	defUniform, defBuffer blockDefaults
	kev                   *inv // constant evaluator
	layoutOnly            bool // ParseLayout: function bodies are skipped, 16-bit float types are declarable
}

type blockDefaults struct {
	packing  string
	rowMajor bool
}

type parseAbort struct{ err error }

func (p *parser) fail(line int, f string, a ...any) {
	panic(parseAbort{malformed(line, f, a...)})
}

func (p *parser) unsup(line int, f string, a ...any) {
	panic(parseAbort{unsupported(line, f, a...)})
}

// Parse parses and checks a GLSL compute shader.
func Parse(src string) (prog *Program, err error) { return parse(src, false) }

func parse(src string, layoutOnly bool) (prog *Program, err error) {
	defer func() {
		if r := recover(); r != nil {
			prog = nil
			if pa, ok := r.(parseAbort); ok {
				err = pa.err
				return
			}
			if ea, ok := r.(execAbort); ok {
				err = ea.err
				return
			}
			err = &xrt.Unsupported{What: fmt.Sprintf("internal parser error: %v", r)}
		}
	}()
	toks, dirs, lerr := lex(src)
	if lerr != nil {
		return nil, lerr
	}
	p := &parser{toks: toks, prog: &Program{version: 110}, layoutOnly: layoutOnly}
	p.defUniform.packing, p.defBuffer.packing = "shared", "shared"
	for _, d := range dirs {
		p.directive(d)
	}
	p.scope = &scope{id: 0, syms: map[string]*symbol{}}
	p.nScopes = 1
	p.kev = newConstEvaluator(p.prog)
	p.translationUnit()
	if !layoutOnly {
		p.finish()
	}
	return p.prog, nil
}

func (p *parser) directive(d directive) {
	f := strings.Fields(strings.TrimPrefix(d.text, "#"))
	if len(f) == 0 {
		return
	}
	switch f[0] {
	case "version":
		if len(f) < 2 {
			p.fail(d.line, "#version without a number")
		}
		v, err := strconv.Atoi(f[1])
		if err != nil {
			p.fail(d.line, "bad #version %q", f[1])
		}
		p.prog.version = v
		if len(f) > 2 {
			switch f[2] {
			case "es":
				p.prog.es = true
			case "core", "compatibility":
			default:
				p.fail(d.line, "bad #version profile %q", f[2])
			}
		}
		if len(p.toks) > 0 && p.toks[0].kind != tkEOF && p.toks[0].line < d.line {
			p.fail(d.line, "#version must precede all tokens")
		}
	case "extension", "pragma", "line":
	case "define", "undef", "if", "ifdef", "ifndef", "else", "elif", "endif", "error", "include":
		p.unsup(d.line, "preprocessor directive #%s", f[0])
	default:
		p.fail(d.line, "unknown preprocessor directive #%s", f[0])
	}
}

// ---- token helpers ----

func (p *parser) peek() token { return p.toks[p.pos] }
func (p *parser) peekN(n int) token {
	if p.pos+n < len(p.toks) {
		return p.toks[p.pos+n]
	}
	return p.toks[len(p.toks)-1]
}
func (p *parser) next() token {
	t := p.toks[p.pos]
	if t.kind != tkEOF {
		p.pos++
	}
	return t
}
func (p *parser) isPunct(s string) bool {
	t := p.toks[p.pos]
	return t.kind == tkPunct && t.text == s
}
func (p *parser) isWord(s string) bool {
	t := p.toks[p.pos]
	return t.kind == tkIdent && t.text == s
}
func (p *parser) accept(s string) bool {
	if p.isPunct(s) {
		p.pos++
		return true
	}
	return false
}
func (p *parser) acceptWord(s string) bool {
	if p.isWord(s) {
		p.pos++
		return true
	}
	return false
}
func (p *parser) expect(s string) token {
	t := p.peek()
	if !p.isPunct(s) {
		p.fail(t.line, "expected %q, found %q", s, tokText(t))
	}
	p.pos++
	return t
}
func tokText(t token) string {
	if t.kind == tkEOF {
		return "end of input"
	}
	return t.text
}
func (p *parser) expectIdent(what string) token {
	t := p.peek()
	if t.kind != tkIdent {
		p.fail(t.line, "expected %s, found %q", what, tokText(t))
	}
	p.pos++
	return t
}

// ---- scopes and declarations ----

func (p *parser) pushScope() *scope {
	s := &scope{id: p.nScopes, parent: p.scope, syms: map[string]*symbol{}}
	p.nScopes++
	p.scope = s
	return s
}
func (p *parser) popScope() { p.scope = p.scope.parent }

func (p *parser) lookup(name string) *symbol {
	for s := p.scope; s != nil; s = s.parent {
		if sym, ok := s.syms[name]; ok {
			return sym
		}
	}
	return nil
}

func (p *parser) problem(f string, a ...any) {
	p.prog.problems = append(p.prog.problems, fmt.Sprintf(f, a...))
}

// checkName records identifier-level problems (GLSL 4.60 section 3.7 "Identifiers", 3.6 "Keywords").
func (p *parser) checkName(name, kind string, line int) {
	if keywordSet[name] {
		p.problem("line %d: %s %q is a GLSL keyword or reserved word", line, kind, name)
	}
	if strings.HasPrefix(name, "gl_") {
		p.problem("line %d: %s %q starts with the reserved prefix gl_", line, kind, name)
	}
	if strings.Contains(name, "__") {
		p.problem("line %d: %s %q contains two consecutive underscores (reserved)", line, kind, name)
	}
}

func (p *parser) recordDecl(name, kind string, sc *scope, line int) {
	parent := -1
	if sc.parent != nil {
		parent = sc.parent.id
	}
	p.prog.decls = append(p.prog.decls, Decl{Name: name, Kind: kind, ScopeID: sc.id, ParentScopeID: parent, Line: line})
	p.checkName(name, kind, line)
}

// declare enters sym into the current scope. Variables, structure names, block names and functions
// of one scope share one name space (GLSL 4.60 section 4.2.2).
func (p *parser) declare(sym *symbol, kind string) {
	p.recordDecl(sym.name, kind, p.scope, sym.line)
	if old, ok := p.scope.syms[sym.name]; ok {
		p.problem("line %d: %s %q redeclares the %s declared at line %d in the same scope", sym.line, kind, sym.name, symKindName(old), old.line)
	}
	p.scope.syms[sym.name] = sym
}

func symKindName(s *symbol) string {
	switch s.kind {
	case skFunc:
		return "function"
	case skType:
		return "struct"
	case skBlockInst:
		return "block instance"
	case skBlockName:
		return "block"
	}
	return "variable"
}

// ---- qualifiers ----

type qualifiers struct {
	line                                    int
	layout                                  []layoutID
	hasLayout                               bool
	isConst, shared, uniform, buffer        bool
	in, out, inout                          bool
	readonly, writeonly                     bool
	coherent, volatile_, restrict           bool
	interp, invariant, precise_, subroutine bool
	any                                     bool
	words                                   []string
}

type layoutID struct {
	name   string
	val    int
	hasVal bool
}

var precisionWords = map[string]bool{"highp": true, "mediump": true, "lowp": true}

func (p *parser) parseQualifiers() qualifiers {
	var q qualifiers
	q.line = p.peek().line
	for {
		t := p.peek()
		if t.kind != tkIdent {
			return q
		}
		switch t.text {
		case "layout":
			p.pos++
			q.hasLayout = true
			p.expect("(")
			for {
				id := p.expectIdent("layout qualifier name")
				l := layoutID{name: id.text}
				if p.accept("=") {
					e := p.parseTernary()
					v := p.constInt(e, "layout qualifier value")
					l.val, l.hasVal = int(v), true
				}
				q.layout = append(q.layout, l)
				if !p.accept(",") {
					break
				}
			}
			p.expect(")")
		case "const":
			q.isConst = true
			p.pos++
		case "shared":
			q.shared = true
			p.pos++
		case "uniform":
			q.uniform = true
			p.pos++
		case "buffer":
			q.buffer = true
			p.pos++
		case "in":
			q.in = true
			p.pos++
		case "out":
			q.out = true
			p.pos++
		case "inout":
			q.inout = true
			p.pos++
		case "readonly":
			q.readonly = true
			q.words = append(q.words, t.text)
			p.pos++
		case "writeonly":
			q.writeonly = true
			q.words = append(q.words, t.text)
			p.pos++
		case "coherent", "volatile", "restrict":
			q.words = append(q.words, t.text)
			p.pos++
		case "highp", "mediump", "lowp":
			p.pos++
		case "flat", "smooth", "noperspective", "centroid", "patch", "sample":
			q.interp = true
			p.pos++
		case "invariant":
			q.invariant = true
			p.pos++
		case "precise":
			p.pos++
		case "subroutine":
			p.unsup(t.line, "subroutine")
		case "attribute", "varying":
			p.unsup(t.line, "non-compute stage qualifier %q", t.text)
		default:
			return q
		}
		q.any = true
	}
}

// ---- translation unit ----

func (p *parser) translationUnit() {
	for p.peek().kind != tkEOF {
		p.externalDecl()
	}
}

func (p *parser) externalDecl() {
	t := p.peek()
	if p.accept(";") {
		return
	}
	if p.isWord("precision") {
		p.pos++
		pq := p.expectIdent("precision qualifier")
		if !precisionWords[pq.text] {
			p.fail(pq.line, "expected a precision qualifier, found %q", pq.text)
		}
		ty := p.expectIdent("type")
		if _, ok := builtinTypeNames[ty.text]; !ok && !isOpaqueTypeName(ty.text) {
			p.fail(ty.line, "precision statement needs a type, found %q", ty.text)
		}
		p.expect(";")
		return
	}
	q := p.parseQualifiers()
	if p.isPunct(";") {
		p.pos++
		p.qualifierOnly(q)
		return
	}
	if q.any && p.peek().kind == tkIdent && p.peekN(1).kind == tkPunct && p.peekN(1).text == "{" && !p.isWord("struct") {
		p.interfaceBlock(q)
		return
	}
	if q.in || q.out || q.inout {
		p.unsup(t.line, "stage input/output variable (non-compute stage)")
	}
	base := p.parseTypeSpec(true)
	if base == nil { // struct definition followed by ';'
		return
	}
	// function?
	if p.peek().kind == tkIdent && p.peekN(1).kind == tkPunct && p.peekN(1).text == "(" {
		if p.layoutOnly {
			p.skipFunction()
			return
		}
		p.functionDecl(q, base)
		return
	}
	p.globalVars(q, base)
}

func (p *parser) qualifierOnly(q qualifiers) {
	if q.in && q.hasLayout {
		seen := false
		for _, l := range q.layout {
			idx := -1
			switch l.name {
			case "local_size_x":
				idx = 0
			case "local_size_y":
				idx = 1
			case "local_size_z":
				idx = 2
			}
			if idx < 0 {
				p.unsup(q.line, "input layout qualifier %q (non-compute stage)", l.name)
			}
			if !l.hasVal || l.val <= 0 {
				p.fail(q.line, "%s must be a positive integer", l.name)
			}
			if !seen && !p.prog.hasLocal {
				p.prog.localSize = [3]uint32{1, 1, 1}
			}
			seen = true
			if p.prog.hasLocal && p.prog.localSize[idx] != uint32(l.val) {
				p.fail(q.line, "conflicting %s", l.name)
			}
			p.prog.localSize[idx] = uint32(l.val)
		}
		p.prog.hasLocal = true
		return
	}
	if q.hasLayout && (q.uniform || q.buffer) {
		d := &p.defUniform
		if q.buffer {
			d = &p.defBuffer
		}
		for _, l := range q.layout {
			switch l.name {
			case "std140", "std430", "shared", "packed":
				d.packing = l.name
			case "row_major":
				d.rowMajor = true
			case "column_major":
				d.rowMajor = false
			default:
				p.fail(q.line, "layout qualifier %q not allowed in a default layout declaration", l.name)
			}
		}
		return
	}
	if q.out || q.in {
		p.unsup(q.line, "stage interface layout declaration (non-compute stage)")
	}
	if q.invariant || q.precise_ {
		return
	}
	p.fail(q.line, "declaration without a declarator")
}

// parseTypeSpec parses a type specifier with optional array dimensions. When allowStructDef is
// set and a structure is defined and immediately followed by ';', it returns nil.
func (p *parser) parseTypeSpec(allowStructDef bool) *Type {
	t := p.peek()
	if t.kind != tkIdent {
		p.fail(t.line, "expected a type, found %q", tokText(t))
	}
	var base *Type
	if t.text == "struct" {
		base = p.structDef()
		if allowStructDef && p.accept(";") {
			return nil
		}
	} else {
		base = p.typeByName(t)
		if base == nil {
			p.fail(t.line, "unknown type %q", t.text)
		}
		p.pos++
	}
	return p.arrayDims(base)
}

// typeByName resolves a type name; nil when the word does not name a type in scope.
func (p *parser) typeByName(t token) *Type {
	if sym := p.lookup(t.text); sym != nil {
		if sym.kind == skType {
			return sym.typ
		}
		return nil
	}
	if bt, ok := builtinTypeNames[t.text]; ok {
		return bt
	}
	if p.layoutOnly {
		if ht := halfTypeNames[t.text]; ht != nil {
			return ht
		}
	}
	if isOpaqueTypeName(t.text) {
		p.unsup(t.line, "type %s", t.text)
	}
	return nil
}

// isTypeStart reports whether the current token begins a type specifier.
func (p *parser) isTypeStart() bool {
	t := p.peek()
	if t.kind != tkIdent {
		return false
	}
	if t.text == "struct" {
		return true
	}
	if sym := p.lookup(t.text); sym != nil {
		return sym.kind == skType
	}
	if _, ok := builtinTypeNames[t.text]; ok {
		return true
	}
	return isOpaqueTypeName(t.text)
}

// arrayDims parses zero or more "[n]" / "[]" and wraps base; the leftmost dimension is outermost.
func (p *parser) arrayDims(base *Type) *Type {
	var dims []int
	for p.isPunct("[") {
		lt := p.next()
		if p.accept("]") {
			dims = append(dims, -1)
			continue
		}
		e := p.parseTernary()
		n := p.constInt(e, "array size")
		if n <= 0 {
			p.fail(lt.line, "array size must be greater than zero")
		}
		dims = append(dims, int(n))
		p.expect("]")
	}
	if len(dims) == 0 {
		return base
	}
	if base.Kind == KVoid {
		p.fail(p.peek().line, "array of void")
	}
	t := base
	for i := len(dims) - 1; i >= 0; i-- {
		if t.Kind == KArray && t.Len < 0 {
			p.fail(p.peek().line, "only the outermost array dimension may be unsized")
		}
		t = p.prog.types.arrayOf(t, dims[i])
	}
	return t
}

func (p *parser) structDef() *Type {
	st := p.next() // struct
	name := ""
	nameLine := st.line
	if p.peek().kind == tkIdent {
		nt := p.next()
		name, nameLine = nt.text, nt.line
	}
	p.expect("{")
	def := &StructDef{Name: name}
	if name == "" {
		def.Name = fmt.Sprintf("<anonymous struct at line %d>", st.line)
	}
	msc := &scope{id: p.nScopes, parent: p.scope, syms: map[string]*symbol{}}
	p.nScopes++
	for !p.isPunct("}") {
		q := p.parseQualifiers()
		if q.hasLayout || q.isConst || q.shared || q.uniform || q.buffer || q.in || q.out {
			p.fail(q.line, "qualifier not allowed on a structure member")
		}
		base := p.parseTypeSpec(false)
		for {
			mt := p.expectIdent("member name")
			ty := p.arrayDims(base)
			if ty.Kind == KVoid {
				p.fail(mt.line, "member %q has type void", mt.text)
			}
			if ty.containsRuntimeArray() {
				p.fail(mt.line, "structure member %q is an unsized array", mt.text)
			}
			if p.isPunct("=") {
				p.fail(mt.line, "structure members cannot have initialisers")
			}
			p.recordDecl(mt.text, "member", msc, mt.line)
			if _, dup := msc.syms[mt.text]; dup {
				p.problem("line %d: member %q declared twice in struct %s", mt.line, mt.text, def.Name)
			}
			msc.syms[mt.text] = &symbol{name: mt.text, line: mt.line}
			def.Members = append(def.Members, StructMember{Name: mt.text, Type: ty})
			if !p.accept(",") {
				break
			}
		}
		p.expect(";")
	}
	p.expect("}")
	if len(def.Members) == 0 {
		p.fail(st.line, "structure %s has no members", def.Name)
	}
	ty := newStructType(def)
	if name != "" {
		p.declare(&symbol{kind: skType, name: name, typ: ty, line: nameLine}, "struct")
	}
	return ty
}

// ---- interface blocks ----

func (p *parser) interfaceBlock(q qualifiers) {
	nameTok := p.next()
	if q.in || q.out {
		p.unsup(q.line, "in/out interface block (non-compute stage)")
	}
	if !q.uniform && !q.buffer {
		p.fail(q.line, "interface block %q needs a uniform or buffer storage qualifier", nameTok.text)
	}
	if q.uniform && q.buffer {
		p.fail(q.line, "interface block %q is both uniform and buffer", nameTok.text)
	}
	blk := &blockInfo{index: len(p.prog.blocks), name: nameTok.text, binding: -1, line: nameTok.line, storage: "uniform"}
	def := p.defUniform
	if q.buffer {
		blk.storage = "buffer"
		def = p.defBuffer
		if p.prog.es && p.prog.version < 310 || !p.prog.es && p.prog.version < 430 {
			p.fail(q.line, "buffer blocks need GLSL 4.30 / ESSL 3.10")
		}
	} else if q.readonly || q.writeonly {
		p.fail(q.line, "memory qualifier on a uniform block")
	}
	blk.packing = def.packing
	rowMajor := def.rowMajor
	blockAlign := -1
	for _, l := range q.layout {
		s := l.name
		if l.hasVal {
			s += "=" + strconv.Itoa(l.val)
		}
		blk.quals = append(blk.quals, s)
		switch l.name {
		case "std140", "shared", "packed":
			blk.packing = l.name
		case "std430":
			if !q.buffer {
				p.fail(q.line, "std430 is only allowed on buffer blocks")
			}
			blk.packing = l.name
		case "row_major":
			rowMajor = true
		case "column_major":
			rowMajor = false
		case "binding":
			if !l.hasVal || l.val < 0 {
				p.fail(q.line, "binding needs a non-negative value")
			}
			blk.binding = l.val
		case "align":
			if !l.hasVal || l.val <= 0 || l.val&(l.val-1) != 0 {
				p.fail(q.line, "align needs a power-of-two value")
			}
			blockAlign = l.val
		case "set", "push_constant":
			p.unsup(q.line, "Vulkan layout qualifier %q", l.name)
		default:
			p.fail(q.line, "layout qualifier %q not allowed on an interface block", l.name)
		}
	}
	blk.quals = append(blk.quals, q.words...)
	blk.readonly, blk.wronly = q.readonly, q.writeonly
	p.expect("{")
	msc := &scope{id: p.nScopes, parent: p.scope, syms: map[string]*symbol{}}
	p.nScopes++
	type pending struct {
		name string
		line int
	}
	var pend []pending
	var quals []memberQual
	var memRO, memWO []bool
	for !p.isPunct("}") {
		mq := p.parseQualifiers()
		if mq.isConst || mq.shared || mq.in || mq.out {
			p.fail(mq.line, "qualifier not allowed on a block member")
		}
		if mq.uniform && !q.uniform || mq.buffer && !q.buffer {
			p.fail(mq.line, "block member storage qualifier differs from the block's")
		}
		m := memberQual{offset: -1, align: -1}
		for _, l := range mq.layout {
			switch l.name {
			case "offset":
				if !l.hasVal || l.val < 0 {
					p.fail(mq.line, "offset needs a non-negative value")
				}
				m.offset = l.val
			case "align":
				if !l.hasVal || l.val <= 0 || l.val&(l.val-1) != 0 {
					p.fail(mq.line, "align needs a power-of-two value")
				}
				m.align = l.val
			case "row_major":
				m.rowMajor = true
			case "column_major":
				m.colM = true
			default:
				p.fail(mq.line, "layout qualifier %q not allowed on a block member", l.name)
			}
		}
		base := p.parseTypeSpec(false)
		for {
			mt := p.expectIdent("block member name")
			ty := p.arrayDims(base)
			if ty.Kind == KVoid {
				p.fail(mt.line, "block member %q has type void", mt.text)
			}
			if p.isPunct("=") {
				p.fail(mt.line, "block members cannot have initialisers")
			}
			blk.members = append(blk.members, StructMember{Name: mt.text, Type: ty})
			quals = append(quals, m)
			memRO = append(memRO, mq.readonly)
			memWO = append(memWO, mq.writeonly)
			pend = append(pend, pending{mt.text, mt.line})
			if !p.accept(",") {
				break
			}
		}
		p.expect(";")
	}
	p.expect("}")
	if len(blk.members) == 0 {
		p.fail(nameTok.line, "interface block %s has no members", blk.name)
	}
	for i, m := range blk.members {
		unsized := m.Type.Kind == KArray && m.Type.Len < 0
		if unsized && (i != len(blk.members)-1 || !q.buffer) {
			p.fail(pend[i].line, "unsized array %q must be the last member of a buffer block", m.Name)
		}
		if !unsized && m.Type.containsRuntimeArray() {
			p.fail(pend[i].line, "member %q contains an unsized array", m.Name)
		}
	}
	// a memory qualifier on every member is equivalent to one on the block
	allRO, allWO := true, true
	for i := range memRO {
		allRO = allRO && memRO[i]
		allWO = allWO && memWO[i]
	}
	for i := range memRO {
		if memRO[i] != allRO || memWO[i] != allWO {
			p.unsup(nameTok.line, "per-member memory qualifiers in block %s", blk.name)
		}
	}
	blk.readonly = blk.readonly || allRO
	blk.wronly = blk.wronly || allWO

	switch blk.packing {
	case "std140", "std430":
		blk.layouts = p.prog.lc.blockLayout(blk.members, quals, blk.packing == "std140", rowMajor, blockAlign)
		last := blk.layouts[len(blk.layouts)-1]
		blk.size = last.Offset + last.Size
	default:
		// shared / packed layouts are implementation-defined: the block cannot be executed.
		blk.layouts = nil
	}

	// names
	p.declare(&symbol{kind: skBlockName, name: blk.name, blk: blk, line: nameTok.line}, "block")
	if p.peek().kind == tkIdent {
		it := p.next()
		blk.instance = it.text
		if p.isPunct("[") {
			p.unsup(it.line, "array of interface blocks")
		}
		for _, pd := range pend {
			p.recordDecl(pd.name, "block-member", msc, pd.line)
			if _, dup := msc.syms[pd.name]; dup {
				p.problem("line %d: member %q declared twice in block %s", pd.line, pd.name, blk.name)
			}
			msc.syms[pd.name] = &symbol{name: pd.name, line: pd.line}
		}
		p.declare(&symbol{kind: skBlockInst, name: it.text, blk: blk, line: it.line}, "global")
	} else {
		for i, pd := range pend {
			p.declare(&symbol{kind: skVar, name: pd.name, typ: blk.members[i].Type, sp: spBuffer, blk: blk, member: i, line: pd.line}, "block-member")
		}
	}
	p.expect(";")
	p.prog.blocks = append(p.prog.blocks, blk)
}

// ---- global variables ----

func (p *parser) globalVars(q qualifiers, base *Type) {
	if q.uniform || q.buffer {
		p.unsup(q.line, "%s variable outside a block", map[bool]string{true: "uniform", false: "buffer"}[q.uniform])
	}
	if q.hasLayout {
		p.fail(q.line, "layout qualifier on a plain global variable")
	}
	for {
		nt := p.expectIdent("variable name")
		ty := p.arrayDims(base)
		var init *Expr
		if p.accept("=") {
			init = p.parseInitializer(ty)
			ty = p.completeArrayType(ty, init, nt.line)
			init = p.convertTo(init, ty, "initialiser of "+nt.text, nt.line)
		}
		p.checkVarType(ty, nt)
		sym := &symbol{kind: skVar, name: nt.text, typ: ty, line: nt.line, global: true}
		switch {
		case q.isConst:
			if q.shared {
				p.fail(nt.line, "const shared variable")
			}
			if init == nil {
				p.fail(nt.line, "const variable %q needs an initialiser", nt.text)
			}
			sym.sp = spConst
			if v, ok := p.tryConst(init); ok {
				sym.constVal = v
			} else {
				if !init.k() && (p.prog.es || p.prog.version < 420) {
					p.fail(nt.line, "initialiser of const %q is not a constant expression", nt.text)
				}
				// GLSL 4.20+: a const global may have a non-constant initialiser; store it as a read-only global
				sym.slot = p.prog.nGlobal
				p.prog.nGlobal += ty.cells
				p.prog.globals = append(p.prog.globals, globalInit{sp: spGlobal, slot: sym.slot, typ: ty, init: init})
			}
		case q.shared:
			if init != nil {
				p.fail(nt.line, "shared variable %q cannot have an initialiser", nt.text)
			}
			sym.sp = spShared
			sym.slot = p.prog.nShared
			p.prog.nShared += ty.cells
		default:
			sym.sp = spGlobal
			sym.slot = p.prog.nGlobal
			p.prog.nGlobal += ty.cells
			p.prog.globals = append(p.prog.globals, globalInit{sp: spGlobal, slot: sym.slot, typ: ty, init: init})
		}
		p.declare(sym, "global")
		if !p.accept(",") {
			break
		}
	}
	p.expect(";")
}

func (p *parser) checkVarType(ty *Type, nt token) {
	if ty.Kind == KVoid {
		p.fail(nt.line, "variable %q has type void", nt.text)
	}
	if ty.containsRuntimeArray() {
		p.fail(nt.line, "variable %q: unsized arrays are only allowed as the last member of a buffer block", nt.text)
	}
}

// completeArrayType gives "T a[] = T[n](...)" its size from the initialiser.
func (p *parser) completeArrayType(ty *Type, init *Expr, line int) *Type {
	if ty.Kind == KArray && ty.Len < 0 && init.typ.Kind == KArray && init.typ.Len >= 0 && init.typ.Of == ty.Of {
		return init.typ
	}
	return ty
}

func (p *parser) parseInitializer(ty *Type) *Expr {
	if p.isPunct("{") {
		p.unsup(p.peek().line, "brace initialiser list")
	}
	return p.parseAssign()
}

// ---- functions ----

func (p *parser) functionDecl(q qualifiers, ret *Type) {
	nt := p.next()
	if q.isConst || q.shared || q.uniform || q.buffer || q.hasLayout {
		p.fail(nt.line, "qualifier not allowed on function %q", nt.text)
	}
	if ret.Kind == KArray && ret.Len < 0 {
		p.fail(nt.line, "function %q returns an unsized array", nt.text)
	}
	p.expect("(")
	f := &Function{Name: nt.text, Ret: ret, line: nt.line}
	var ptoks []token
	if p.isWord("void") && p.peekN(1).kind == tkPunct && p.peekN(1).text == ")" {
		p.pos++
	}
	for !p.isPunct(")") {
		pq := p.parseQualifiers()
		if pq.hasLayout || pq.shared || pq.uniform || pq.buffer || pq.readonly || pq.writeonly {
			p.fail(pq.line, "qualifier not allowed on a parameter")
		}
		base := p.parseTypeSpec(false)
		par := Param{Type: base, Const: pq.isConst}
		switch {
		case pq.inout:
			par.Qual = pqInout
		case pq.out:
			par.Qual = pqOut
		}
		if par.Const && par.Qual != pqIn {
			p.fail(pq.line, "const cannot be combined with out/inout")
		}
		var pt token
		if p.peek().kind == tkIdent {
			pt = p.next()
			par.Name = pt.text
			par.Type = p.arrayDims(base)
		}
		if par.Type.Kind == KVoid {
			p.fail(pq.line, "parameter of type void")
		}
		if par.Type.containsRuntimeArray() {
			p.fail(pq.line, "parameter with an unsized array type")
		}
		f.Params = append(f.Params, par)
		ptoks = append(ptoks, pt)
		if !p.accept(",") {
			break
		}
	}
	p.expect(")")
	if p.scope.parent != nil {
		p.fail(nt.line, "function declared inside another function")
	}
	isDef := p.isPunct("{")
	target := p.declareFunction(f, isDef)
	if !isDef {
		p.expect(";")
		return
	}
	// definition: parameters and body form one scope
	target.defined = true
	target.Params = f.Params // parameter names of the definition
	p.fn = target
	target.frameSize = 0
	fsc := p.pushScope()
	_ = fsc
	for i := range target.Params {
		par := &target.Params[i]
		par.slot = target.frameSize
		target.frameSize += par.Type.cells
		if par.Name == "" {
			continue
		}
		sp := spLocal
		if par.Const {
			sp = spConst
		}
		p.declare(&symbol{kind: skVar, name: par.Name, typ: par.Type, sp: sp, slot: par.slot, line: ptoks[i].line}, "param")
	}
	p.expect("{")
	target.body = p.stmtList()
	p.expect("}")
	p.popScope()
	p.fn = nil
	if target.frameSize > p.prog.maxFrame {
		p.prog.maxFrame = target.frameSize
	}
}

func sameParams(a, b *Function) bool {
	if len(a.Params) != len(b.Params) {
		return false
	}
	for i := range a.Params {
		if a.Params[i].Type != b.Params[i].Type {
			return false
		}
	}
	return true
}

func (p *parser) declareFunction(f *Function, isDef bool) *Function {
	p.recordDecl(f.Name, "function", p.scope, f.line)
	// clash with a built-in function of the same name and parameter types
	if sigs, ok := builtinTable[f.Name]; ok {
		exact := false
		for _, s := range sigs {
			if len(s.params) == len(f.Params) {
				same := true
				for i := range s.params {
					if s.params[i] != f.Params[i].Type {
						same = false
					}
				}
				if same {
					exact = true
				}
			}
		}
		if exact {
			p.problem("line %d: function %q has the name and parameter types of a built-in function", f.line, f.Name)
		} else if p.prog.es {
			p.problem("line %d: function %q overloads a built-in function (not allowed in GLSL ES)", f.line, f.Name)
		}
	}
	if f.Name == "main" {
		if len(f.Params) != 0 || f.Ret.Kind != KVoid {
			p.fail(f.line, "main must be declared as void main()")
		}
	}
	old, ok := p.scope.syms[f.Name]
	if ok && old.kind != skFunc {
		p.problem("line %d: function %q redeclares the %s declared at line %d in the same scope", f.line, f.Name, symKindName(old), old.line)
		ok = false
	}
	if !ok {
		old = &symbol{kind: skFunc, name: f.Name, line: f.line}
		p.scope.syms[f.Name] = old
	}
	for _, g := range old.funcs {
		if sameParams(g, f) {
			if g.Ret != f.Ret {
				p.fail(f.line, "function %q redeclared with a different return type", f.Name)
			}
			for i := range g.Params {
				if g.Params[i].Qual != f.Params[i].Qual {
					p.fail(f.line, "function %q redeclared with different parameter qualifiers", f.Name)
				}
			}
			if isDef && g.defined {
				p.problem("line %d: function %q with the same parameter types is defined twice (first at line %d)", f.line, f.Name, g.line)
				old.funcs = append(old.funcs, f) // keep both; the later one is used from here on
				p.prog.funcs = append(p.prog.funcs, f)
				return f
			}
			return g
		}
	}
	old.funcs = append(old.funcs, f)
	p.prog.funcs = append(p.prog.funcs, f)
	return f
}

// ---- statements ----

func (p *parser) stmtList() []*Stmt {
	var out []*Stmt
	for !p.isPunct("}") && p.peek().kind != tkEOF {
		out = append(out, p.statement(false))
	}
	return out
}

// scopedStatement parses a sub-statement that forms its own scope.
func (p *parser) scopedStatement() *Stmt {
	p.pushScope()
	defer p.popScope()
	return p.statement(true)
}

// statement parses one statement. noNewScope: a compound statement here does not open a scope of
// its own (the caller already did).
func (p *parser) statement(noNewScope bool) *Stmt {
	t := p.peek()
	if t.kind == tkPunct {
		switch t.text {
		case "{":
			p.pos++
			if !noNewScope {
				p.pushScope()
			}
			body := p.stmtList()
			if !noNewScope {
				p.popScope()
			}
			p.expect("}")
			return &Stmt{kind: sBlock, line: t.line, body: body}
		case ";":
			p.pos++
			return &Stmt{kind: sEmpty, line: t.line}
		}
	}
	if t.kind == tkIdent {
		switch t.text {
		case "if":
			p.pos++
			p.expect("(")
			c := p.parseExpr()
			p.expect(")")
			if c.typ != tBool {
				p.fail(t.line, "if condition has type %s, need bool", c.typ)
			}
			s := &Stmt{kind: sIf, line: t.line, e: c}
			s.body = []*Stmt{p.scopedStatement()}
			if p.acceptWord("else") {
				s.els = []*Stmt{p.scopedStatement()}
			}
			return s
		case "while":
			p.pos++
			p.expect("(")
			p.pushScope()
			defer p.popScope()
			if p.isDeclStart() {
				p.unsup(t.line, "declaration in a while condition")
			}
			c := p.parseExpr()
			p.expect(")")
			if c.typ != tBool {
				p.fail(t.line, "while condition has type %s, need bool", c.typ)
			}
			p.loops++
			body := p.statement(true)
			p.loops--
			return &Stmt{kind: sWhile, line: t.line, e: c, body: []*Stmt{body}}
		case "do":
			p.pos++
			p.loops++
			body := p.scopedStatement()
			p.loops--
			if !p.acceptWord("while") {
				p.fail(p.peek().line, "expected 'while' after do body")
			}
			p.expect("(")
			c := p.parseExpr()
			p.expect(")")
			p.expect(";")
			if c.typ != tBool {
				p.fail(t.line, "do-while condition has type %s, need bool", c.typ)
			}
			return &Stmt{kind: sDoWhile, line: t.line, e: c, body: []*Stmt{body}}
		case "for":
			p.pos++
			p.expect("(")
			p.pushScope()
			defer p.popScope()
			s := &Stmt{kind: sFor, line: t.line}
			if !p.accept(";") {
				if p.isDeclStart() {
					s.init = p.declaration()
				} else {
					e := p.parseExpr()
					p.expect(";")
					s.init = []*Stmt{{kind: sExpr, line: t.line, e: e}}
				}
			}
			if !p.isPunct(";") {
				if p.isDeclStart() {
					p.unsup(t.line, "declaration in a for condition")
				}
				s.e = p.parseExpr()
				if s.e.typ != tBool {
					p.fail(t.line, "for condition has type %s, need bool", s.e.typ)
				}
			}
			p.expect(";")
			if !p.isPunct(")") {
				s.post = p.parseExpr()
			}
			p.expect(")")
			p.loops++
			s.body = []*Stmt{p.statement(true)}
			p.loops--
			return s
		case "switch":
			return p.switchStmt()
		case "case", "default":
			p.fail(t.line, "%s label outside a switch", t.text)
		case "break":
			p.pos++
			p.expect(";")
			if p.loops == 0 && p.switches == 0 {
				p.fail(t.line, "break outside a loop or switch")
			}
			return &Stmt{kind: sBreak, line: t.line}
		case "continue":
			p.pos++
			p.expect(";")
			if p.loops == 0 {
				p.fail(t.line, "continue outside a loop")
			}
			return &Stmt{kind: sContinue, line: t.line}
		case "discard":
			p.pos++
			p.expect(";")
			p.fail(t.line, "discard is only allowed in fragment shaders")
		case "return":
			p.pos++
			s := &Stmt{kind: sReturn, line: t.line}
			if !p.isPunct(";") {
				e := p.parseExpr()
				if p.fn.Ret.Kind == KVoid {
					p.fail(t.line, "return with a value in a void function")
				}
				s.e = p.convertTo(e, p.fn.Ret, "return value", t.line)
			} else if p.fn.Ret.Kind != KVoid {
				p.fail(t.line, "return without a value in function %q returning %s", p.fn.Name, p.fn.Ret)
			}
			p.expect(";")
			return s
		case "else":
			p.fail(t.line, "else without if")
		}
		if p.isDeclStart() {
			ds := p.declaration()
			if len(ds) == 1 {
				return ds[0]
			}
			// several declarators: a block that does NOT open a scope is modelled as sBlock executed inline
			return &Stmt{kind: sBlock, line: t.line, body: ds}
		}
	}
	e := p.parseExpr()
	p.expect(";")
	return &Stmt{kind: sExpr, line: t.line, e: e}
}

// isDeclStart: does a declaration start here (qualifier, struct, or "type name" / "type[..] name")?
func (p *parser) isDeclStart() bool {
	t := p.peek()
	if t.kind != tkIdent {
		return false
	}
	switch t.text {
	case "const", "highp", "mediump", "lowp", "struct", "precise", "invariant", "precision",
		"shared", "uniform", "buffer", "in", "out", "inout", "layout", "coherent", "volatile", "restrict", "readonly", "writeonly":
		return true
	}
	if !p.isTypeStart() {
		return false
	}
	// skip array dimensions after the type name
	i := 1
	for p.peekN(i).kind == tkPunct && p.peekN(i).text == "[" {
		depth := 0
		for {
			tk := p.peekN(i)
			if tk.kind == tkEOF {
				return false
			}
			if tk.kind == tkPunct && tk.text == "[" {
				depth++
			}
			if tk.kind == tkPunct && tk.text == "]" {
				depth--
				if depth == 0 {
					i++
					break
				}
			}
			i++
		}
	}
	return p.peekN(i).kind == tkIdent
}

// declaration parses a local declaration statement (one Stmt per declarator).
func (p *parser) declaration() []*Stmt {
	t := p.peek()
	if p.isWord("precision") {
		p.pos++
		p.expectIdent("precision qualifier")
		p.expectIdent("type")
		p.expect(";")
		return []*Stmt{{kind: sEmpty, line: t.line}}
	}
	q := p.parseQualifiers()
	if q.shared || q.uniform || q.buffer || q.in || q.out || q.inout || q.hasLayout {
		p.fail(q.line, "storage or layout qualifier on a local variable")
	}
	base := p.parseTypeSpec(true)
	if base == nil {
		return []*Stmt{{kind: sEmpty, line: t.line}}
	}
	var out []*Stmt
	for {
		nt := p.expectIdent("variable name")
		ty := p.arrayDims(base)
		var init *Expr
		if p.accept("=") {
			init = p.parseInitializer(ty)
			ty = p.completeArrayType(ty, init, nt.line)
			init = p.convertTo(init, ty, "initialiser of "+nt.text, nt.line)
		}
		p.checkVarType(ty, nt)
		sym := &symbol{kind: skVar, name: nt.text, typ: ty, sp: spLocal, line: nt.line}
		if q.isConst {
			if init == nil {
				p.fail(nt.line, "const variable %q needs an initialiser", nt.text)
			}
			sym.sp = spConst
			if v, ok := p.tryConst(init); ok {
				sym.constVal = v
			} else if !init.k() && (p.prog.es || p.prog.version < 420) {
				p.fail(nt.line, "initialiser of const %q is not a constant expression", nt.text)
			}
		}
		sym.slot = p.fn.frameSize
		p.fn.frameSize += ty.cells
		// the variable's scope starts after its initialiser
		p.declare(sym, "local")
		out = append(out, &Stmt{kind: sDecl, line: nt.line, e: init, slot: sym.slot, typ: ty})
		if !p.accept(",") {
			break
		}
	}
	p.expect(";")
	return out
}

func (p *parser) switchStmt() *Stmt {
	t := p.next()
	p.expect("(")
	sel := p.parseExpr()
	p.expect(")")
	if sel.typ != tInt && sel.typ != tUint {
		p.fail(t.line, "switch selector has type %s, need a scalar integer", sel.typ)
	}
	p.expect("{")
	p.pushScope()
	defer p.popScope()
	p.switches++
	defer func() { p.switches-- }()
	s := &Stmt{kind: sSwitch, line: t.line, e: sel}
	seen := map[uint32]bool{}
	hasDefault := false
	pendingLabel := false
	for !p.isPunct("}") {
		lt := p.peek()
		if lt.kind == tkEOF {
			p.fail(lt.line, "unterminated switch")
		}
		if p.acceptWord("case") {
			e := p.parseExpr()
			p.expect(":")
			if e.typ != sel.typ {
				e = p.convertTo(e, sel.typ, "case label", lt.line)
			}
			v, ok := p.tryConst(e)
			if !ok {
				p.fail(lt.line, "case label is not a constant expression")
			}
			if seen[v[0].bits()] {
				p.fail(lt.line, "duplicate case label %d", int32(v[0].bits()))
			}
			seen[v[0].bits()] = true
			s.cases = append(s.cases, caseLabel{val: v[0].bits(), index: len(s.body)})
			pendingLabel = true
			continue
		}
		if p.isWord("default") && p.peekN(1).kind == tkPunct && p.peekN(1).text == ":" {
			p.pos += 2
			if hasDefault {
				p.fail(lt.line, "duplicate default label")
			}
			hasDefault = true
			s.cases = append(s.cases, caseLabel{isDefault: true, index: len(s.body)})
			pendingLabel = true
			continue
		}
		if len(s.cases) == 0 {
			p.fail(lt.line, "statement before the first case label of a switch")
		}
		s.body = append(s.body, p.statement(false))
		pendingLabel = false
	}
	p.expect("}")
	if pendingLabel {
		p.fail(t.line, "no statement between the last case label and the end of the switch")
	}
	return s
}

// ---- finish ----

func (p *parser) finish() {
	pr := p.prog
	var mainFn *Function
	if sym, ok := p.scope.syms["main"]; ok && sym.kind == skFunc {
		for _, f := range sym.funcs {
			if len(f.Params) == 0 {
				mainFn = f
			}
		}
	}
	if mainFn == nil || !mainFn.defined {
		p.fail(p.peek().line, "no definition of void main()")
	}
	pr.mainFn = mainFn
	if !pr.hasLocal {
		p.unsup(1, "no layout(local_size_x = ...) in; declaration (not a compute shader)")
	}
	// static recursion is an error; called functions must be defined
	state := map[*Function]int{}
	var visit func(f *Function)
	visit = func(f *Function) {
		switch state[f] {
		case 1:
			p.fail(f.line, "recursive call of function %q", f.Name)
		case 2:
			return
		}
		state[f] = 1
		if !f.defined {
			p.fail(f.line, "function %q is called but never defined", f.Name)
		}
		for _, g := range f.calls {
			visit(g)
		}
		state[f] = 2
	}
	visit(mainFn)
}

// ---- exported observations ----

// Decls returns every declared identifier in declaration order.
func (p *Program) Decls() []Decl { return append([]Decl(nil), p.decls...) }

// Problems returns the scope/identifier problems found while parsing.
func (p *Program) Problems() []string { return append([]string(nil), p.problems...) }

// LocalSize returns the work-group size.
func (p *Program) LocalSize() [3]uint32 { return p.localSize }

// Version returns the #version number and whether the profile is "es".
func (p *Program) Version() (int, bool) { return p.version, p.es }

// Blocks returns the interface blocks with their computed layout.
func (p *Program) Blocks() []Block {
	out := make([]Block, 0, len(p.blocks))
	for _, b := range p.blocks {
		bl := Block{Name: b.name, Instance: b.instance, Storage: b.storage, Layout: append([]string(nil), b.quals...),
			Packing: b.packing, Binding: b.binding, Readonly: b.readonly, Writeonly: b.wronly, Line: b.line}
		for _, l := range b.layouts {
			bl.Members = append(bl.Members, fieldOf(l))
		}
		if b.layouts == nil {
			for _, m := range b.members {
				bl.Members = append(bl.Members, Field{Name: m.Name, Type: m.Type.String(), Offset: -1})
			}
		}
		if n := len(b.layouts); n > 0 {
			last := b.layouts[n-1]
			bl.Size = last.Offset + last.Size
		}
		out = append(out, bl)
	}
	return out
}
