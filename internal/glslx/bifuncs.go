package glslx

import (
	"math"
	"math/bits"
)

// Built-in function semantics, GLSL 4.60 chapter 8. Numeric policy: exact functions are computed in
// float32; the others in float64 from the float32 inputs and rounded once.

func (in *inv) callBuiltin(e *Expr) []cell {
	s := e.bi
	switch s.id {
	case biBarrier:
		if in.constMode {
			panic(notConst{})
		}
		in.barrier()
		return nil
	case biMemoryBarrier:
		if in.constMode {
			panic(notConst{})
		}
		return nil
	case biAtomicAdd, biAtomicMin, biAtomicMax, biAtomicAnd, biAtomicOr, biAtomicXor, biAtomicExchange, biAtomicCompSwap:
		if in.constMode {
			panic(notConst{})
		}
		return in.atomic(e)
	}
	var av [4][]cell
	var refs [4]ref
	for i, a := range e.args {
		if s.out[i] {
			refs[i] = in.evalRef(a, true)
			continue
		}
		later := false
		for _, b := range e.args[i+1:] {
			later = later || b.fx
		}
		av[i] = in.evalStable(a, later)
		in.use(av[i], e, s.name)
	}
	n := 0
	if s.ret != nil {
		n = s.ret.cells
	}
	at := func(v []cell, i int) cell {
		if len(v) == 1 {
			return v[0]
		}
		return v[i]
	}
	a, b, c := av[0], av[1], av[2]
	o := in.alloc(n)
	kind := KVoid
	if len(s.params) > 0 {
		kind = s.params[0].Elem
	}
	switch s.id {
	case biRadians, biDegrees, biSin, biCos, biTan, biAsin, biAcos, biAtan, biSinh, biCosh, biTanh, biAsinh, biAcosh, biAtanh,
		biExp, biLog, biExp2, biLog2, biSqrt, biInversesqrt:
		for i := range o {
			o[i] = f64cell(math1(s.id, float64(f32(a[i]))))
		}
	case biAtan2:
		for i := range o {
			o[i] = f64cell(math.Atan2(float64(f32(a[i])), float64(f32(b[i]))))
		}
	case biPow:
		for i := range o {
			o[i] = f64cell(math.Pow(float64(f32(a[i])), float64(f32(b[i]))))
		}
	case biAbs:
		for i := range o {
			if kind == KFloat {
				o[i] = cell(a[i].bits() &^ 0x80000000)
			} else if x := i32(a[i]); x < 0 {
				o[i] = icell(-x)
			} else {
				o[i] = a[i]
			}
		}
	case biSign:
		for i := range o {
			if kind == KFloat {
				x := f32(a[i])
				switch {
				case x > 0:
					o[i] = fcell(1)
				case x < 0:
					o[i] = fcell(-1)
				default:
					o[i] = fcell(0)
				}
			} else {
				x := i32(a[i])
				switch {
				case x > 0:
					o[i] = icell(1)
				case x < 0:
					o[i] = icell(-1)
				default:
					o[i] = 0
				}
			}
		}
	case biFloor, biTrunc, biRound, biRoundEven, biCeil:
		for i := range o {
			x := float64(f32(a[i]))
			switch s.id {
			case biFloor:
				x = math.Floor(x)
			case biTrunc:
				x = math.Trunc(x)
			case biCeil:
				x = math.Ceil(x)
			default:
				// round(): "the fraction 0.5 will round in a direction chosen by the implementation";
				// this interpreter chooses to-even, the same as roundEven().
				x = math.RoundToEven(x)
			}
			o[i] = fcell(float32(x))
		}
	case biFract:
		for i := range o {
			x := f32(a[i])
			o[i] = fcell(float32(x - float32(math.Floor(float64(x)))))
		}
	case biMod:
		for i := range o {
			x, y := float64(f32(a[i])), float64(f32(at(b, i)))
			o[i] = f64cell(x - y*math.Floor(x/y))
		}
	case biModf:
		w := in.alloc(n)
		for i := range o {
			x := f32(a[i])
			wh := float32(math.Trunc(float64(x)))
			w[i] = fcell(wh)
			if math.IsInf(float64(x), 0) {
				o[i] = fcell(float32(math.Copysign(0, float64(x))))
			} else {
				o[i] = fcell(float32(x - wh))
			}
		}
		in.store(refs[1], w)
	case biMin, biMax:
		for i := range o {
			x, y := a[i], at(b, i)
			var less bool // y < x
			switch kind {
			case KFloat:
				less = f32(y) < f32(x)
				if s.id == biMax {
					less = f32(x) < f32(y)
				}
			case KInt:
				less = i32(y) < i32(x)
				if s.id == biMax {
					less = i32(x) < i32(y)
				}
			default:
				less = y.bits() < x.bits()
				if s.id == biMax {
					less = x.bits() < y.bits()
				}
			}
			// min(x,y) = y if y < x else x ; max(x,y) = y if x < y else x
			if less {
				o[i] = y
			} else {
				o[i] = x
			}
		}
	case biClamp:
		for i := range o {
			x, lo, hi := a[i], at(b, i), at(c, i)
			switch kind {
			case KFloat:
				// min(max(x, minVal), maxVal)
				r := x
				if f32(r) < f32(lo) {
					r = lo
				}
				if f32(hi) < f32(r) {
					r = hi
				}
				o[i] = r
			case KInt:
				if i32(lo) > i32(hi) {
					trap("clamp-range", "line %d: clamp(%d, %d, %d): results are undefined if minVal > maxVal", e.line, i32(x), i32(lo), i32(hi))
				}
				r := x
				if i32(r) < i32(lo) {
					r = lo
				}
				if i32(hi) < i32(r) {
					r = hi
				}
				o[i] = r
			default:
				if lo.bits() > hi.bits() {
					trap("clamp-range", "line %d: clamp(%d, %d, %d): results are undefined if minVal > maxVal", e.line, x.bits(), lo.bits(), hi.bits())
				}
				r := x
				if r.bits() < lo.bits() {
					r = lo
				}
				if hi.bits() < r.bits() {
					r = hi
				}
				o[i] = r
			}
		}
	case biMix:
		sel := s.params[2].Elem
		for i := range o {
			x, y, t := a[i], b[i], at(c, i)
			if sel == KBool {
				if t.bits() != 0 {
					o[i] = y
				} else {
					o[i] = x
				}
				continue
			}
			fx, fy, ft := float64(f32(x)), float64(f32(y)), float64(f32(t))
			o[i] = f64cell(fx*(1-ft) + fy*ft)
		}
	case biStep:
		for i := range o {
			edge, x := at(a, i), b[i]
			if f32(x) < f32(edge) {
				o[i] = fcell(0)
			} else {
				o[i] = fcell(1)
			}
		}
	case biSmoothstep:
		for i := range o {
			e0, e1, x := float64(f32(at(a, i))), float64(f32(at(b, i))), float64(f32(c[i]))
			t := (x - e0) / (e1 - e0)
			t = math.Min(math.Max(t, 0), 1)
			o[i] = f64cell(t * t * (3 - 2*t))
		}
	case biIsnan:
		for i := range o {
			x := f32(a[i])
			o[i] = bcell(x != x)
		}
	case biIsinf:
		for i := range o {
			o[i] = bcell(math.IsInf(float64(f32(a[i])), 0))
		}
	case biFloatBitsToInt, biFloatBitsToUint, biIntBitsToFloat, biUintBitsToFloat:
		copy(o, a)
	case biFma:
		for i := range o {
			o[i] = fcell(fma32(f32(a[i]), f32(b[i]), f32(c[i])))
		}
	case biFrexp:
		ex := in.alloc(n)
		for i := range o {
			x := float64(f32(a[i]))
			if x == 0 || x != x || math.IsInf(x, 0) {
				o[i], ex[i] = a[i], 0
				continue
			}
			fr, e2 := math.Frexp(x)
			o[i], ex[i] = f64cell(fr), icell(int32(e2))
		}
		in.store(refs[1], ex)
	case biLdexp:
		for i := range o {
			o[i] = f64cell(math.Ldexp(float64(f32(a[i])), int(i32(b[i]))))
		}
	case biPackUnorm2x16:
		o[0] = cell(packN(a, 16, func(x float64) uint32 { return uint32(math.RoundToEven(clamp01(x) * 65535)) }))
	case biPackSnorm2x16:
		o[0] = cell(packN(a, 16, func(x float64) uint32 { return uint32(int32(math.RoundToEven(clamp11(x)*32767))) & 0xFFFF }))
	case biPackUnorm4x8:
		o[0] = cell(packN(a, 8, func(x float64) uint32 { return uint32(math.RoundToEven(clamp01(x) * 255)) }))
	case biPackSnorm4x8:
		o[0] = cell(packN(a, 8, func(x float64) uint32 { return uint32(int32(math.RoundToEven(clamp11(x)*127))) & 0xFF }))
	case biUnpackUnorm2x16:
		for i := range o {
			o[i] = fcell(float32(float32((a[0].bits()>>(16*i))&0xFFFF) / 65535))
		}
	case biUnpackSnorm2x16:
		for i := range o {
			v := float32(float32(int16(a[0].bits()>>(16*i))) / 32767)
			o[i] = fcell(clampF(v, -1, 1))
		}
	case biUnpackUnorm4x8:
		for i := range o {
			o[i] = fcell(float32(float32((a[0].bits()>>(8*i))&0xFF) / 255))
		}
	case biUnpackSnorm4x8:
		for i := range o {
			v := float32(float32(int8(a[0].bits()>>(8*i))) / 127)
			o[i] = fcell(clampF(v, -1, 1))
		}
	case biPackHalf2x16:
		o[0] = cell(uint32(f32ToF16(f32(a[0]))) | uint32(f32ToF16(f32(a[1])))<<16)
	case biUnpackHalf2x16:
		o[0] = fcell(f16ToF32(uint16(a[0].bits())))
		o[1] = fcell(f16ToF32(uint16(a[0].bits() >> 16)))
	case biLength:
		o[0] = f64cell(math.Sqrt(dot64(a, a)))
	case biDistance:
		var sum float64
		for i := range a {
			d := float64(f32(a[i])) - float64(f32(b[i]))
			sum += d * d
		}
		o[0] = f64cell(math.Sqrt(sum))
	case biDot:
		o[0] = f64cell(dot64(a, b))
	case biCross:
		x := [3]float64{float64(f32(a[0])), float64(f32(a[1])), float64(f32(a[2]))}
		y := [3]float64{float64(f32(b[0])), float64(f32(b[1])), float64(f32(b[2]))}
		o[0] = f64cell(x[1]*y[2] - y[1]*x[2])
		o[1] = f64cell(x[2]*y[0] - y[2]*x[0])
		o[2] = f64cell(x[0]*y[1] - y[0]*x[1])
	case biNormalize:
		l := math.Sqrt(dot64(a, a))
		for i := range o {
			o[i] = f64cell(float64(f32(a[i])) / l)
		}
	case biFaceforward:
		// faceforward(N, I, Nref): if dot(Nref, I) < 0 return N, otherwise return -N
		if dot64(c, b) < 0 {
			copy(o, a)
		} else {
			for i := range o {
				o[i] = fcell(-f32(a[i]))
			}
		}
	case biReflect:
		// reflect(I, N) = I - 2 * dot(N, I) * N
		d := dot64(b, a)
		for i := range o {
			o[i] = f64cell(float64(f32(a[i])) - 2*d*float64(f32(b[i])))
		}
	case biRefract:
		// refract(I, N, eta)
		eta := float64(f32(c[0]))
		d := dot64(b, a)
		k := 1 - eta*eta*(1-d*d)
		for i := range o {
			if k < 0 {
				o[i] = fcell(0)
			} else {
				o[i] = f64cell(eta*float64(f32(a[i])) - (eta*d+math.Sqrt(k))*float64(f32(b[i])))
			}
		}
	case biMatrixCompMult:
		for i := range o {
			o[i] = fcell(float32(f32(a[i]) * f32(b[i])))
		}
	case biOuterProduct:
		// outerProduct(c, r): column vector c times row vector r; result[col j][row i] = c[i]*r[j]
		R, C := len(a), len(b)
		for j := 0; j < C; j++ {
			for i := 0; i < R; i++ {
				o[j*R+i] = fcell(float32(f32(a[i]) * f32(b[j])))
			}
		}
	case biTranspose:
		mt := s.params[0]
		for cI := 0; cI < mt.Cols; cI++ {
			for r := 0; r < mt.N; r++ {
				o[r*mt.Cols+cI] = a[cI*mt.N+r]
			}
		}
	case biDeterminant:
		o[0] = f64cell(det64(toF64(a), s.params[0].N))
	case biInverse:
		inv64(toF64(a), s.params[0].N, o)
	case biLessThan, biLessThanEqual, biGreaterThan, biGreaterThanEqual, biEqual, biNotEqual:
		for i := range o {
			var lt, eq bool
			switch kind {
			case KFloat:
				lt, eq = f32(a[i]) < f32(b[i]), f32(a[i]) == f32(b[i])
			case KInt:
				lt, eq = i32(a[i]) < i32(b[i]), a[i].bits() == b[i].bits()
			default:
				lt, eq = a[i].bits() < b[i].bits(), a[i].bits() == b[i].bits()
			}
			unordered := kind == KFloat && (f32(a[i]) != f32(a[i]) || f32(b[i]) != f32(b[i]))
			var r bool
			switch s.id {
			case biLessThan:
				r = lt
			case biLessThanEqual:
				r = lt || eq
			case biGreaterThan:
				r = !lt && !eq && !unordered
			case biGreaterThanEqual:
				r = !lt && !unordered
			case biEqual:
				r = eq
			case biNotEqual:
				r = !eq
			}
			o[i] = bcell(r)
		}
	case biAny:
		r := false
		for _, x := range a {
			r = r || x.bits() != 0
		}
		o[0] = bcell(r)
	case biAll:
		r := true
		for _, x := range a {
			r = r && x.bits() != 0
		}
		o[0] = bcell(r)
	case biNot:
		for i := range o {
			o[i] = (a[i] ^ 1) & 1
		}
	case biUaddCarry:
		cy := in.alloc(n)
		for i := range o {
			sum, carry := bits.Add32(a[i].bits(), b[i].bits(), 0)
			o[i], cy[i] = cell(sum), cell(carry)
		}
		in.store(refs[2], cy)
	case biUsubBorrow:
		bw := in.alloc(n)
		for i := range o {
			d, borrow := bits.Sub32(a[i].bits(), b[i].bits(), 0)
			o[i], bw[i] = cell(d), cell(borrow)
		}
		in.store(refs[2], bw)
	case biUmulExtended, biImulExtended:
		m := len(a)
		hi, lo := in.alloc(m), in.alloc(m)
		for i := 0; i < m; i++ {
			if s.id == biUmulExtended {
				p := uint64(a[i].bits()) * uint64(b[i].bits())
				hi[i], lo[i] = cell(uint32(p>>32)), cell(uint32(p))
			} else {
				p := int64(i32(a[i])) * int64(i32(b[i]))
				hi[i], lo[i] = cell(uint32(uint64(p)>>32)), cell(uint32(p))
			}
		}
		in.store(refs[2], hi)
		in.store(refs[3], lo)
	case biBitfieldExtract:
		off, nb := i32(b[0]), i32(c[0])
		if off < 0 || nb < 0 || int64(off)+int64(nb) > 32 {
			trap("bitfield-range", "line %d: bitfieldExtract(offset=%d, bits=%d): the result is undefined", e.line, off, nb)
		}
		for i := range o {
			v := a[i].bits()
			switch {
			case nb == 0:
				o[i] = 0
			case kind == KInt:
				o[i] = icell(int32(v<<(32-uint(off)-uint(nb))) >> (32 - uint(nb)))
			default:
				o[i] = cell(v << (32 - uint(off) - uint(nb)) >> (32 - uint(nb)))
			}
		}
	case biBitfieldInsert:
		d := av[3]
		off, nb := i32(c[0]), i32(d[0])
		if off < 0 || nb < 0 || int64(off)+int64(nb) > 32 {
			trap("bitfield-range", "line %d: bitfieldInsert(offset=%d, bits=%d): the result is undefined", e.line, off, nb)
		}
		var mask uint32
		if nb == 32 {
			mask = 0xFFFFFFFF
		} else {
			mask = ((1 << uint(nb)) - 1) << uint(off)
		}
		for i := range o {
			o[i] = cell(a[i].bits()&^mask | (b[i].bits()<<uint(off))&mask)
		}
	case biBitfieldReverse:
		for i := range o {
			o[i] = cell(bits.Reverse32(a[i].bits()))
		}
	case biBitCount:
		for i := range o {
			o[i] = cell(uint32(bits.OnesCount32(a[i].bits())))
		}
	case biFindLSB:
		for i := range o {
			if v := a[i].bits(); v == 0 {
				o[i] = icell(-1)
			} else {
				o[i] = cell(uint32(bits.TrailingZeros32(v)))
			}
		}
	case biFindMSB:
		for i := range o {
			v := a[i].bits()
			if kind == KInt && int32(v) < 0 {
				v = ^v
			}
			if v == 0 {
				o[i] = icell(-1)
			} else {
				o[i] = cell(uint32(31 - bits.LeadingZeros32(v)))
			}
		}
	default:
		abortUnsupported("line %d: built-in function %s", e.line, s.name)
	}
	return o
}

func math1(id biID, x float64) float64 {
	switch id {
	case biRadians:
		return x * math.Pi / 180
	case biDegrees:
		return x * 180 / math.Pi
	case biSin:
		return math.Sin(x)
	case biCos:
		return math.Cos(x)
	case biTan:
		return math.Tan(x)
	case biAsin:
		return math.Asin(x)
	case biAcos:
		return math.Acos(x)
	case biAtan:
		return math.Atan(x)
	case biSinh:
		return math.Sinh(x)
	case biCosh:
		return math.Cosh(x)
	case biTanh:
		return math.Tanh(x)
	case biAsinh:
		return math.Asinh(x)
	case biAcosh:
		return math.Acosh(x)
	case biAtanh:
		return math.Atanh(x)
	case biExp:
		return math.Exp(x)
	case biLog:
		return math.Log(x)
	case biExp2:
		return math.Exp2(x)
	case biLog2:
		return math.Log2(x)
	case biSqrt:
		return math.Sqrt(x)
	case biInversesqrt:
		return 1 / math.Sqrt(x)
	}
	return math.NaN()
}

func clamp01(x float64) float64 {
	if !(x > 0) { // also NaN
		return 0
	}
	if x > 1 {
		return 1
	}
	return x
}

func clamp11(x float64) float64 {
	if x != x {
		return 0
	}
	if x < -1 {
		return -1
	}
	if x > 1 {
		return 1
	}
	return x
}

func clampF(v, lo, hi float32) float32 {
	if v < lo {
		return lo
	}
	if v > hi {
		return hi
	}
	return v
}

// packN: "The first component of the vector will be written to the least significant bits".
func packN(a []cell, width uint, conv func(float64) uint32) uint32 {
	var r uint32
	for i, c := range a {
		// the normalised product is formed in float32, as the specification's c * 127.0 would be
		r |= conv(float64(f32(c))) << (width * uint(i))
	}
	return r
}

func dot64(a, b []cell) float64 {
	var s float64
	for i := range a {
		s += float64(f32(a[i])) * float64(f32(b[i]))
	}
	return s
}

func toF64(a []cell) []float64 {
	o := make([]float64, len(a))
	for i, c := range a {
		o[i] = float64(f32(c))
	}
	return o
}

// det64: m column-major n x n
func det64(m []float64, n int) float64 {
	at := func(c, r int) float64 { return m[c*n+r] }
	switch n {
	case 2:
		return at(0, 0)*at(1, 1) - at(1, 0)*at(0, 1)
	case 3:
		return at(0, 0)*(at(1, 1)*at(2, 2)-at(2, 1)*at(1, 2)) -
			at(1, 0)*(at(0, 1)*at(2, 2)-at(2, 1)*at(0, 2)) +
			at(2, 0)*(at(0, 1)*at(1, 2)-at(1, 1)*at(0, 2))
	}
	// Laplace expansion along the first column for 4x4
	var d float64
	for c := 0; c < 4; c++ {
		var sub []float64
		for cc := 0; cc < 4; cc++ {
			if cc == c {
				continue
			}
			for r := 1; r < 4; r++ {
				sub = append(sub, at(cc, r))
			}
		}
		t := at(c, 0) * det64(sub, 3)
		if c%2 == 0 {
			d += t
		} else {
			d -= t
		}
	}
	return d
}

func inv64(m []float64, n int, out []cell) {
	// Gauss-Jordan on [M | I], column-major input
	a := make([][]float64, n)
	for r := 0; r < n; r++ {
		a[r] = make([]float64, 2*n)
		for c := 0; c < n; c++ {
			a[r][c] = m[c*n+r]
		}
		a[r][n+r] = 1
	}
	for col := 0; col < n; col++ {
		piv := col
		for r := col + 1; r < n; r++ {
			if math.Abs(a[r][col]) > math.Abs(a[piv][col]) {
				piv = r
			}
		}
		a[col], a[piv] = a[piv], a[col]
		p := a[col][col]
		for c := range a[col] {
			a[col][c] /= p
		}
		for r := 0; r < n; r++ {
			if r == col {
				continue
			}
			f := a[r][col]
			for c := range a[r] {
				a[r][c] -= f * a[col][c]
			}
		}
	}
	for c := 0; c < n; c++ {
		for r := 0; r < n; r++ {
			out[c*n+r] = f64cell(a[r][n+c])
		}
	}
}

// fma32 computes a*b+c with a single rounding to float32: the product is exact in float64; the
// sum is rounded to odd in float64 (53 >= 2*24+2 bits), so the final rounding is correct.
func fma32(a, b, c float32) float32 {
	p := float64(a) * float64(b)
	z := float64(c)
	s := p + z
	if math.IsInf(s, 0) || s != s {
		return float32(s)
	}
	// TwoSum error term
	bb := s - p
	err := (p - (s - bb)) + (z - bb)
	if err != 0 {
		sb := math.Float64bits(s)
		if sb&1 == 0 {
			if (err > 0) == (s > 0) {
				sb++
			} else {
				sb--
			}
			s = math.Float64frombits(sb)
		}
	}
	return float32(s)
}

func f32ToF16(f float32) uint16 {
	b := math.Float32bits(f)
	sign := uint16(b>>16) & 0x8000
	exp := int(b>>23) & 0xFF
	man := b & 0x7FFFFF
	switch {
	case exp == 0xFF:
		if man != 0 {
			return sign | 0x7E00
		}
		return sign | 0x7C00
	case exp == 0 && man == 0:
		return sign
	}
	e := exp - 127 + 15
	if e >= 31 {
		return sign | 0x7C00
	}
	if e <= 0 {
		if e < -10 {
			return sign
		}
		man |= 0x800000
		shift := uint(14 - e)
		h := man >> shift
		rem := man & ((1 << shift) - 1)
		half := uint32(1) << (shift - 1)
		if rem > half || rem == half && h&1 == 1 {
			h++
		}
		return sign | uint16(h)
	}
	h := uint32(e)<<10 | man>>13
	rem := man & 0x1FFF
	if rem > 0x1000 || rem == 0x1000 && h&1 == 1 {
		h++
	}
	return sign | uint16(h)
}

func f16ToF32(h uint16) float32 {
	sign := uint32(h&0x8000) << 16
	exp := uint32(h>>10) & 0x1F
	man := uint32(h & 0x3FF)
	switch {
	case exp == 0:
		if man == 0 {
			return math.Float32frombits(sign)
		}
		f := float32(man) / 1024 / 16384 // man * 2^-24
		if sign != 0 {
			f = -f
		}
		return f
	case exp == 31:
		if man != 0 {
			return math.Float32frombits(sign | 0x7FC00000 | man<<13)
		}
		return math.Float32frombits(sign | 0x7F800000)
	}
	return math.Float32frombits(sign | (exp+112)<<23 | man<<13)
}

// ---- atomics and barriers ----

func (in *inv) atomic(e *Expr) []cell {
	s := e.bi
	r := in.evalRef(e.args[0], true)
	var data, cmp []cell
	if s.id == biAtomicCompSwap {
		cmp = in.eval(e.args[1])
		data = in.eval(e.args[2])
		in.use(cmp, e, s.name)
	} else {
		data = in.eval(e.args[1])
	}
	in.use(data, e, s.name)
	old := in.copyVal(in.load(r))
	in.use(old, e, s.name)
	signed := s.ret == tInt
	x, y := old[0].bits(), data[0].bits()
	var nv uint32
	switch s.id {
	case biAtomicAdd:
		nv = x + y
	case biAtomicMin:
		nv = x
		if signed && int32(y) < int32(x) || !signed && y < x {
			nv = y
		}
	case biAtomicMax:
		nv = x
		if signed && int32(y) > int32(x) || !signed && y > x {
			nv = y
		}
	case biAtomicAnd:
		nv = x & y
	case biAtomicOr:
		nv = x | y
	case biAtomicXor:
		nv = x ^ y
	case biAtomicExchange:
		nv = y
	case biAtomicCompSwap:
		nv = x
		if x == cmp[0].bits() {
			nv = y
		}
	}
	w := in.alloc(1)
	w[0] = cell(nv)
	in.store(r, w)
	return old
}

func (in *inv) barrier() {
	if in.yield == nil {
		return
	}
	if !in.yield() {
		panic(execAbort{errAborted})
	}
}
