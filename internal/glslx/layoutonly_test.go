package glslx

import "testing"

func TestParseLayoutHalf(t *testing.T) {
	src := `#version 450 core
layout(local_size_x = 1) in;
struct S {
    float16_t a;
    f16vec3 b;
    float c;
    f16mat3x3 d;
    f16vec2 e[3];
};
layout(std430) buffer B0 { S _group_0_binding_0_cs; };
layout(std140) uniform B1 { S _group_0_binding_1_cs; };
float16_t helper(float16_t x) { return x + x; }
void main() { _group_0_binding_0_cs.a = helper(float16_t(1.0)); }
`
	if _, err := Parse(src); err == nil {
		t.Fatal("Parse must keep rejecting 16-bit float types")
	}
	p, err := ParseLayout(src)
	if err != nil {
		t.Fatal(err)
	}
	bs := p.Blocks()
	if len(bs) != 2 {
		t.Fatalf("blocks: %d", len(bs))
	}
	// std430: a@0, b@8 (align 8, size 6), c@16, d@24 (3 columns of stride 8), e@48 (stride 4), size 64 (align 8)
	want := map[string][2]int{"a": {0, 2}, "b": {8, 6}, "c": {16, 4}, "d": {24, 24}, "e": {48, 12}}
	for _, m := range bs[0].Members[0].Members {
		w := want[m.Name]
		if m.Offset != w[0] || m.Size != w[1] {
			t.Errorf("std430 %s: offset %d size %d, want %v", m.Name, m.Offset, m.Size, w)
		}
		if m.Name == "d" && m.MatrixStride != 8 {
			t.Errorf("std430 d: matrix stride %d", m.MatrixStride)
		}
		if m.Name == "e" && m.Stride != 4 {
			t.Errorf("std430 e: stride %d", m.Stride)
		}
	}
	// std140: matrix columns and array elements are rounded up to 16
	for _, m := range bs[1].Members[0].Members {
		if m.Name == "d" && (m.Offset != 32 || m.MatrixStride != 16) {
			t.Errorf("std140 d: offset %d stride %d", m.Offset, m.MatrixStride)
		}
		if m.Name == "e" && (m.Offset != 80 || m.Stride != 16) {
			t.Errorf("std140 e: offset %d stride %d", m.Offset, m.Stride)
		}
	}
}
