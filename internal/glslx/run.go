package glslx

import (
	"errors"
	"fmt"
	"iter"
	"strconv"
	"strings"

	"verif/internal/xrt"
)

// Opts configures one execution.
type Opts struct {
	xrt.Opts
	// BlockBinding maps an interface-block name (or, when the block has layout(binding=N),
	// "binding=N") to the WGSL binding whose bytes back it. When a block is not listed, the binding
	// is derived from naga's documented default naming of block members / instances
	// `_group_<G>_binding_<B>_<stage>`.
	BlockBinding map[string]xrt.Binding
	// BindingSlots maps a GL binding index (layout(binding=N)) to a WGSL binding; it takes
	// precedence for blocks that carry layout(binding=N).
	BindingSlots map[int]xrt.Binding
}

var errAborted = errors.New("glslx: invocation aborted")

// BindingOf resolves the WGSL binding backing block b under o (exported for the binding checks).
func (p *Program) BindingOf(blockName string, o Opts) (xrt.Binding, error) {
	for _, b := range p.blocks {
		if b.name == blockName {
			bd, ok, why := resolveBinding(b, o)
			if !ok {
				return xrt.Binding{}, errors.New(why)
			}
			return bd, nil
		}
	}
	return xrt.Binding{}, fmt.Errorf("no block named %q", blockName)
}

func resolveBinding(b *blockInfo, o Opts) (xrt.Binding, bool, string) {
	if b.binding >= 0 && o.BindingSlots != nil {
		if bd, ok := o.BindingSlots[b.binding]; ok {
			return bd, true, ""
		}
	}
	if o.BlockBinding != nil {
		if bd, ok := o.BlockBinding[b.name]; ok {
			return bd, true, ""
		}
		if b.binding >= 0 {
			if bd, ok := o.BlockBinding["binding="+strconv.Itoa(b.binding)]; ok {
				return bd, true, ""
			}
		}
	}
	names := []string{b.instance}
	if b.instance == "" {
		names = names[:0]
		for _, m := range b.members {
			names = append(names, m.Name)
		}
	}
	for _, n := range names {
		if bd, ok := parseDefaultName(n); ok {
			return bd, true, ""
		}
	}
	return xrt.Binding{}, false, "cannot determine which buffer backs the block (no BlockBinding/BindingSlots entry and no _group_G_binding_B_ name)"
}

// parseDefaultName recognises `_group_<G>_binding_<B>_<stage>`.
func parseDefaultName(n string) (xrt.Binding, bool) {
	rest, ok := strings.CutPrefix(n, "_group_")
	if !ok {
		return xrt.Binding{}, false
	}
	i := strings.Index(rest, "_binding_")
	if i <= 0 {
		return xrt.Binding{}, false
	}
	g, err := strconv.ParseUint(rest[:i], 10, 32)
	if err != nil {
		return xrt.Binding{}, false
	}
	rest = rest[i+len("_binding_"):]
	j := strings.IndexByte(rest, '_')
	if j < 0 {
		j = len(rest)
	}
	bn, err := strconv.ParseUint(rest[:j], 10, 32)
	if err != nil {
		return xrt.Binding{}, false
	}
	return xrt.Binding{Group: uint32(g), Binding: uint32(bn)}, true
}

// Exec runs void main() for every invocation of every work group.
func (p *Program) Exec(bufs xrt.Buffers, o Opts) (err error) {
	defer func() {
		if r := recover(); r != nil {
			err = recovered(r)
		}
	}()
	ex := &execCtx{prog: p, limit: o.Steps(), steps: o.Steps(), trace: o.Trace, poison: o.PoisonLocals, numGroups: o.Groups()}
	ex.bufs = make([]boundBuf, len(p.blocks))
	for i, b := range p.blocks {
		bb := &ex.bufs[i]
		bb.blk = b
		bd, ok, why := resolveBinding(b, o)
		if !ok {
			bb.problem = why
			continue
		}
		data, ok := bufs[bd]
		if !ok {
			bb.problem = fmt.Sprintf("no buffer supplied for %s", bd)
			continue
		}
		bb.b, bb.data, bb.bound = bd, data, true
	}
	g := ex.numGroups
	for z := uint32(0); z < g[2]; z++ {
		for y := uint32(0); y < g[1]; y++ {
			for x := uint32(0); x < g[0]; x++ {
				if err := ex.runGroup([3]uint32{x, y, z}); err != nil {
					return err
				}
			}
		}
	}
	return nil
}

func recovered(r any) error {
	switch v := r.(type) {
	case execAbort:
		return v.err
	case notConst:
		return &xrt.Unsupported{What: "internal: constant evaluator escaped"}
	}
	return &xrt.Unsupported{What: fmt.Sprintf("internal interpreter error: %v", r)}
}

func (ex *execCtx) newInv() *inv {
	in := &inv{ex: ex, prog: ex.prog}
	cp := chunkPool.Get().(*[]cell)
	in.chunk = *cp
	return in
}

func (in *inv) free() {
	c := in.chunk
	if len(in.spare) > len(c) {
		c = in.spare
	}
	if len(c) >= chunkCells && len(c) <= 1<<20 {
		chunkPool.Put(&c)
	}
	in.chunk, in.spare = nil, nil
}

// setup prepares the invocation for local id l in work group wg.
func (in *inv) setup(wg, l [3]uint32) {
	p := in.prog
	ls := p.localSize
	in.top = 0
	st := in.bvStore[:]
	put := func(v builtinVar, a ...uint32) {
		s := st[:len(a):len(a)]
		st = st[len(a):]
		for i, x := range a {
			s[i] = cell(x)
		}
		in.bv[v] = s
	}
	ng := in.ex.numGroups
	put(bvNumWorkGroups, ng[0], ng[1], ng[2])
	put(bvWorkGroupSize, ls[0], ls[1], ls[2])
	put(bvWorkGroupID, wg[0], wg[1], wg[2])
	put(bvLocalInvocationID, l[0], l[1], l[2])
	put(bvGlobalInvocationID, wg[0]*ls[0]+l[0], wg[1]*ls[1]+l[1], wg[2]*ls[2]+l[2])
	put(bvLocalInvocationIndex, l[2]*ls[0]*ls[1]+l[1]*ls[0]+l[0])
	in.globals = in.alloc(p.nGlobal)
	in.frame = in.alloc(p.mainFn.frameSize)
	in.depth = 0
}

// run executes global initialisers and main(); errors are returned, never panicked.
func (in *inv) run() (err error) {
	defer func() {
		if r := recover(); r != nil {
			err = recovered(r)
		}
	}()
	p := in.prog
	for i := range p.globals {
		g := &p.globals[i]
		dst := in.globals[g.slot : g.slot+g.typ.cells]
		if g.init == nil {
			in.fillUninit(dst)
			continue
		}
		m := in.mark()
		copy(dst, in.eval(g.init))
		in.release(m)
	}
	in.execList(p.mainFn.body)
	return nil
}

func (ex *execCtx) runGroup(wg [3]uint32) error {
	p := ex.prog
	ls := p.localSize
	count := int(ls[0]) * int(ls[1]) * int(ls[2])
	if cap(ex.shared) < p.nShared {
		ex.shared = make([]cell, p.nShared)
	}
	ex.shared = ex.shared[:p.nShared]
	var fill cell
	if ex.poison {
		fill = poisonBit
	}
	for i := range ex.shared {
		ex.shared[i] = fill
	}
	localID := func(i int) [3]uint32 {
		x := uint32(i) % ls[0]
		y := uint32(i) / ls[0] % ls[1]
		z := uint32(i) / (ls[0] * ls[1])
		return [3]uint32{x, y, z}
	}
	if count == 1 || !p.usesBar {
		in := ex.newInv()
		defer in.free()
		for i := 0; i < count; i++ {
			in.setup(wg, localID(i))
			if err := in.run(); err != nil {
				return err
			}
		}
		return nil
	}
	// Barriers with several invocations: each invocation is a coroutine that runs to its next
	// barrier() in invocation-index order.
	type co struct {
		in   *inv
		next func() (struct{}, bool)
		stop func()
		done bool
	}
	cos := make([]*co, count)
	defer func() {
		for _, c := range cos {
			if c != nil {
				c.stop()
				c.in.free()
			}
		}
	}()
	for i := range cos {
		c := &co{in: ex.newInv()}
		c.in.setup(wg, localID(i))
		in := c.in
		seq := func(yield func(struct{}) bool) {
			in.yield = func() bool { return yield(struct{}{}) }
			in.err = in.run()
		}
		c.next, c.stop = iter.Pull(iter.Seq[struct{}](seq))
		cos[i] = c
	}
	for {
		nDone, nWait := 0, 0
		for _, c := range cos {
			if c.done {
				nDone++
				continue
			}
			if _, ok := c.next(); !ok {
				c.done = true
				nDone++
				if c.in.err != nil {
					return c.in.err
				}
			} else {
				nWait++
			}
		}
		if nWait == 0 {
			return nil
		}
		if nDone > 0 {
			return &xrt.Trap{Kind: "barrier-divergence", Detail: fmt.Sprintf("%d invocations wait at barrier() while %d have finished", nWait, nDone)}
		}
	}
}
