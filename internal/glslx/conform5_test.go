package glslx

import (
	"fmt"
	"strings"
	"testing"

	"github.com/gogpu/naga/glsl"

	"verif/internal/xrt"
)

// All nine matCxR shapes: M*v, v*M, M*s, s*M, M+M, M-M and every defined M*M product. Inputs are
// small integers so every float result is exact. Expected values follow the WGSL definitions
// (column-major): (M*v)[r] = sum_c M[c][r]*v[c]; (v*M)[c] = dot(v, M[c]); (A*B)[j] = A * B[j].
func TestConformMatrixShapes(t *testing.T) {
	mval := func(seed, c, r int) float32 { return float32((seed+3*c+r)%7 - 3) }
	for C := 2; C <= 4; C++ {
		for R := 2; R <= 4; R++ {
			C, R := C, R
			t.Run(fmt.Sprintf("mat%dx%d", C, R), func(t *testing.T) {
				var sb strings.Builder
				sb.WriteString(hdrF)
				sb.WriteString("@compute @workgroup_size(1) fn main() {\n")
				mat := func(name string, seed, c, r int) {
					fmt.Fprintf(&sb, "let %s = mat%dx%d<f32>(", name, c, r)
					for i := 0; i < c; i++ {
						for j := 0; j < r; j++ {
							if i+j > 0 {
								sb.WriteString(", ")
							}
							fmt.Fprintf(&sb, "a[%d] + %.1f", 0, mval(seed, i, j))
						}
					}
					sb.WriteString(");\n")
				}
				vec := func(name string, n int) {
					fmt.Fprintf(&sb, "let %s = vec%d<f32>(", name, n)
					for i := 0; i < n; i++ {
						if i > 0 {
							sb.WriteString(", ")
						}
						fmt.Fprintf(&sb, "a[1] + %.1f", float32(i))
					}
					sb.WriteString(");\n")
				}
				// a[0] = 0, a[1] = 1, a[2] = 2
				mat("m", 1, C, R)
				mat("n", 4, C, R)
				vec("vc", C) // (1,2,..)
				vec("vr", R)
				var want []float32
				out := 0
				emitVec := func(expr string, n int, vals []float32) {
					fmt.Fprintf(&sb, "{ let t = %s;", expr)
					for i := 0; i < n; i++ {
						fmt.Fprintf(&sb, " o[%d] = t[%d];", out, i)
						out++
					}
					sb.WriteString(" }\n")
					want = append(want, vals...)
				}
				emitMat := func(expr string, c, r int, vals []float32) {
					fmt.Fprintf(&sb, "{ let t = %s;", expr)
					for i := 0; i < c; i++ {
						for j := 0; j < r; j++ {
							fmt.Fprintf(&sb, " o[%d] = t[%d][%d];", out, i, j)
							out++
						}
					}
					sb.WriteString(" }\n")
					want = append(want, vals...)
				}
				M := func(seed, c, r int) [][]float32 {
					m := make([][]float32, c)
					for i := range m {
						m[i] = make([]float32, r)
						for j := range m[i] {
							m[i][j] = mval(seed, i, j)
						}
					}
					return m
				}
				m, n := M(1, C, R), M(4, C, R)
				// M * vc
				mv := make([]float32, R)
				for r := 0; r < R; r++ {
					for c := 0; c < C; c++ {
						mv[r] += m[c][r] * float32(c+1)
					}
				}
				emitVec("m * vc", R, mv)
				vm := make([]float32, C)
				for c := 0; c < C; c++ {
					for r := 0; r < R; r++ {
						vm[c] += float32(r+1) * m[c][r]
					}
				}
				emitVec("vr * m", C, vm)
				var ms, sm, add, sub []float32
				for c := 0; c < C; c++ {
					for r := 0; r < R; r++ {
						ms = append(ms, m[c][r]*2)
						sm = append(sm, m[c][r]*2)
						add = append(add, m[c][r]+n[c][r])
						sub = append(sub, m[c][r]-n[c][r])
					}
				}
				emitMat("m * a[2]", C, R, ms)
				emitMat("a[2] * m", C, R, sm)
				emitMat("m + n", C, R, add)
				emitMat("m - n", C, R, sub)
				// m (C cols, R rows) * k (K cols, C rows) -> K cols, R rows
				for K := 2; K <= 4; K++ {
					name := fmt.Sprintf("k%d", K)
					mat(name, 2+K, K, C)
					k := M(2+K, K, C)
					var prod []float32
					for j := 0; j < K; j++ {
						for r := 0; r < R; r++ {
							var s float32
							for c := 0; c < C; c++ {
								s += m[c][r] * k[j][c]
							}
							prod = append(prod, s)
						}
					}
					emitMat("m * "+name, K, R, prod)
				}
				sb.WriteString("}\n")
				runConf(t, conf{wgsl: sb.String(), in: bmap{bd(0, 0): f32s(0, 1, 2), bd(0, 1): zeros(4 * out)}, want: bmap{bd(0, 1): f32s(want...)}})
			})
		}
	}
}

// Every arithmetic operator in scalar (x) vector mixes, for i32 / u32 / f32 and vec2..4. Operands
// are non-negative and non-zero so that GLSL leaves nothing undefined.
func TestConformScalarVectorMixes(t *testing.T) {
	type ty struct {
		name, hdr string
		ops       []string
	}
	tys := []ty{
		{"i32", hdrI, []string{"+", "-", "*", "/", "%", "&", "|", "^"}},
		{"u32", hdrU, []string{"+", "-", "*", "/", "%", "&", "|", "^"}},
		{"f32", hdrF, []string{"+", "-", "*", "/"}},
	}
	apply := func(op string, x, y int64) int64 {
		switch op {
		case "+":
			return x + y
		case "-":
			return x - y
		case "*":
			return x * y
		case "/":
			return x / y
		case "%":
			return x % y
		case "&":
			return x & y
		case "|":
			return x | y
		}
		return x ^ y
	}
	for _, ty := range tys {
		for n := 2; n <= 4; n++ {
			ty, n := ty, n
			t.Run(fmt.Sprintf("%s-vec%d", ty.name, n), func(t *testing.T) {
				var sb strings.Builder
				sb.WriteString(ty.hdr)
				sb.WriteString("@compute @workgroup_size(1) fn main() {\n")
				// a = 24, 36, 60, 120, 7 (scalar)
				vals := []int64{24, 36, 60, 120}
				s := int64(6)
				fmt.Fprintf(&sb, "let v = vec%d<%s>(", n, ty.name)
				for i := 0; i < n; i++ {
					if i > 0 {
						sb.WriteString(", ")
					}
					fmt.Fprintf(&sb, "a[%d]", i)
				}
				sb.WriteString("); let s = a[4];\n")
				var want []int64
				out := 0
				for _, op := range ty.ops {
					for form := 0; form < 3; form++ {
						expr := []string{"v " + op + " s", "s " + op + " v", "v " + op + " v.yx" + "yx"[:n-2]}[form]
						if form == 2 {
							// swizzle that reverses the first two components and keeps the size
							sw := []string{"", "", "yx", "yxz", "yxwz"}[n]
							expr = "v " + op + " v." + sw
						}
						fmt.Fprintf(&sb, "{ let t = %s;", expr)
						for i := 0; i < n; i++ {
							fmt.Fprintf(&sb, " o[%d] = t[%d];", out, i)
							out++
							var x, y int64
							switch form {
							case 0:
								x, y = vals[i], s
							case 1:
								x, y = s, vals[i]
							default:
								perm := [][]int{nil, nil, {1, 0}, {1, 0, 2}, {1, 0, 3, 2}}[n]
								x, y = vals[i], vals[perm[i]]
							}
							want = append(want, apply(op, x, y))
						}
						sb.WriteString(" }\n")
					}
				}
				sb.WriteString("}\n")
				c := conf{wgsl: sb.String()}
				switch ty.name {
				case "i32":
					in := []int32{24, 36, 60, 120, 6}
					w := make([]int32, len(want))
					for i, x := range want {
						w[i] = int32(x)
					}
					c.in = bmap{bd(0, 0): i32s(in...), bd(0, 1): zeros(4 * out)}
					c.want = bmap{bd(0, 1): i32s(w...)}
				case "u32":
					w := make([]uint32, len(want))
					for i, x := range want {
						w[i] = uint32(x) // wraps for s - v
					}
					c.in = bmap{bd(0, 0): u32s(24, 36, 60, 120, 6), bd(0, 1): zeros(4 * out)}
					c.want = bmap{bd(0, 1): u32s(w...)}
				default:
					w := make([]float32, 0, len(want))
					// recompute in float: division is exact only when it divides; the chosen values do (6 | 24, 36, 60, 120) except s / v
					k := 0
					for _, op := range ty.ops {
						for form := 0; form < 3; form++ {
							for i := 0; i < n; i++ {
								var x, y float32
								switch form {
								case 0:
									x, y = float32(vals[i]), 6
								case 1:
									x, y = 6, float32(vals[i])
								default:
									perm := [][]int{nil, nil, {1, 0}, {1, 0, 2}, {1, 0, 3, 2}}[n]
									x, y = float32(vals[i]), float32(vals[perm[i]])
								}
								var r float32
								switch op {
								case "+":
									r = x + y
								case "-":
									r = x - y
								case "*":
									r = x * y
								default:
									r = x / y
								}
								w = append(w, r)
								k++
							}
						}
					}
					c.in = bmap{bd(0, 0): f32s(24, 36, 60, 120, 6), bd(0, 1): zeros(4 * out)}
					c.want = bmap{bd(0, 1): f32s(w...)}
				}
				runConf(t, c)
			})
		}
	}
}

// naga's BindingMap option makes the backend print layout(binding = N); BindingSlots maps N back.
func TestConformBindingMap(t *testing.T) {
	m, err := lowerWGSL(hdrI + `@group(1) @binding(3) var<uniform> k: vec4<i32>;
@compute @workgroup_size(1) fn main() { o[0] = a[0] + k.y; }`)
	if err != nil {
		t.Fatal(err)
	}
	for _, v := range testVersions {
		opt := glsl.DefaultOptions()
		opt.LangVersion = v
		opt.EntryPoint = "main"
		opt.BindingMap = map[glsl.BindingMapKey]uint8{{Group: 0, Binding: 0}: 5, {Group: 0, Binding: 1}: 6, {Group: 1, Binding: 3}: 7}
		src, _, err := glsl.Compile(m, opt)
		if err != nil {
			t.Fatal(err)
		}
		p, err := Parse(src)
		if err != nil {
			t.Fatalf("%v\n%s", err, src)
		}
		got := map[int]string{}
		for _, b := range p.Blocks() {
			got[b.Binding] = b.Storage
		}
		if got[5] != "buffer" || got[6] != "buffer" || got[7] != "uniform" {
			t.Fatalf("%s: bindings %v\n%s", v, got, src)
		}
		// deliberately route the GL slots to other WGSL bindings than the names suggest
		bufs := map[xrt.Binding][]byte{bd(7, 0): i32s(40), bd(7, 1): zeros(4), bd(7, 2): i32s(0, 2, 0, 0)}
		o := Opts{BindingSlots: map[int]xrt.Binding{5: bd(7, 0), 6: bd(7, 1), 7: bd(7, 2)}}
		if err := p.Exec(bufs, o); err != nil {
			t.Fatal(err)
		}
		if w := words(bufs[bd(7, 1)]); w[0] != 42 {
			t.Fatalf("%s: got %v", v, w)
		}
	}
}
