package glslx

import (
	"sort"
	"strings"
)

// Written from GLSL 4.60 section 3.6 ("Keywords") and ESSL 3.20 section 3.8. Only words the author
// is certain are keywords or reserved in at least one of the two languages.
const keywordText = `
const uniform buffer shared attribute varying
coherent volatile restrict readonly writeonly
atomic_uint layout
centroid flat smooth noperspective patch sample
invariant precise
break continue do for while switch case default if else
subroutine
in out inout
int void bool true false float double
discard return
vec2 vec3 vec4 ivec2 ivec3 ivec4 bvec2 bvec3 bvec4
uint uvec2 uvec3 uvec4
dvec2 dvec3 dvec4
mat2 mat3 mat4
mat2x2 mat2x3 mat2x4 mat3x2 mat3x3 mat3x4 mat4x2 mat4x3 mat4x4
dmat2 dmat3 dmat4
dmat2x2 dmat2x3 dmat2x4 dmat3x2 dmat3x3 dmat3x4 dmat4x2 dmat4x3 dmat4x4
lowp mediump highp precision
sampler1D sampler1DShadow sampler1DArray sampler1DArrayShadow
isampler1D isampler1DArray usampler1D usampler1DArray
sampler2D sampler2DShadow sampler2DArray sampler2DArrayShadow
isampler2D isampler2DArray usampler2D usampler2DArray
sampler2DRect sampler2DRectShadow isampler2DRect usampler2DRect
sampler2DMS isampler2DMS usampler2DMS
sampler2DMSArray isampler2DMSArray usampler2DMSArray
sampler3D isampler3D usampler3D
samplerCube samplerCubeShadow isamplerCube usamplerCube
samplerCubeArray samplerCubeArrayShadow isamplerCubeArray usamplerCubeArray
samplerBuffer isamplerBuffer usamplerBuffer
image1D iimage1D uimage1D image1DArray iimage1DArray uimage1DArray
image2D iimage2D uimage2D image2DArray iimage2DArray uimage2DArray
image2DRect iimage2DRect uimage2DRect
image2DMS iimage2DMS uimage2DMS image2DMSArray iimage2DMSArray uimage2DMSArray
image3D iimage3D uimage3D
imageCube iimageCube uimageCube imageCubeArray iimageCubeArray uimageCubeArray
imageBuffer iimageBuffer uimageBuffer
struct
common partition active asm class union enum typedef template this resource
goto inline noinline public static extern external interface
long short half fixed unsigned superp
input output
hvec2 hvec3 hvec4 fvec2 fvec3 fvec4
sampler3DRect filter sizeof cast namespace using
`

var keywordSet = map[string]bool{}

func init() {
	for _, w := range strings.Fields(keywordText) {
		keywordSet[w] = true
	}
}

// Keywords returns this package's own list of GLSL 4.60 and ESSL 3.20 keywords and reserved words.
func Keywords() []string {
	out := make([]string, 0, len(keywordSet))
	for w := range keywordSet {
		out = append(out, w)
	}
	sort.Strings(out)
	return out
}
