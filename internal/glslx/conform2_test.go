package glslx

import "testing"

// Group 2: control flow, functions, pointers, globals, shadowing.

var group2 = []conf{
	{
		name: "if-else-chain",
		wgsl: hdrI + `
fn classify(x: i32) -> i32 {
	if x < 0 { return -1; } else if x == 0 { return 0; } else if x < 10 { return 1; } else { return 2; }
}
@compute @workgroup_size(1) fn main() {
	for (var i = 0; i < 5; i++) { o[i] = classify(a[i]); }
	var r = 0;
	if a[0] < 0 { r += 1; if a[1] == 0 { r += 10; } else { r += 100; } }
	if a[2] > 100 { r += 1000; }
	o[5] = r;
}`,
		in:   bmap{bd(0, 0): i32s(-7, 0, 5, 10, 99), bd(0, 1): zeros(24)},
		want: bmap{bd(0, 1): i32s(-1, 0, 1, 2, 2, 11)},
	},
	{
		name: "switch-grouped-default-middle",
		wgsl: hdrI + `
fn f(x: i32) -> i32 {
	var r = 0;
	switch x {
		case 1, 2: { r = 12; }
		default: { r = 99; }
		case 3: { r = 3; }
		case 4, 5, 6: { r = 456; }
	}
	return r;
}
fn g(x: u32) -> i32 {
	switch x {
		case 0u: { return 100; }
		case 4294967295u: { return 200; }
		default: { return 300; }
	}
}
@compute @workgroup_size(1) fn main() {
	for (var i = 0; i < 8; i++) { o[i] = f(a[i]); }
	o[8] = g(0u); o[9] = g(bitcast<u32>(a[7])); o[10] = g(5u);
}`,
		in:   bmap{bd(0, 0): i32s(1, 2, 3, 4, 5, 6, 7, -1), bd(0, 1): zeros(44)},
		want: bmap{bd(0, 1): i32s(12, 12, 3, 456, 456, 456, 99, 99, 100, 200, 300)},
	},
	{
		name: "loop-continuing-break-if",
		wgsl: hdrI + `@compute @workgroup_size(1) fn main() {
			var i = 0; var s = 0;
			loop {
				if i == 2 { continue; }      // skips the addition, continuing still runs
				s += i;
				continuing { i++; break if i >= a[0]; }
			}
			o[0] = s; o[1] = i;                // 0+1+3+4 = 8, i = 5
			var j = 10; var n = 0;
			loop { if j <= a[1] { break; } j -= 3; n++; }
			o[2] = j; o[3] = n;                // 10,7,4,1 -> j=1 after 3 iterations
		}`,
		in:   bmap{bd(0, 0): i32s(5, 3), bd(0, 1): zeros(16)},
		want: bmap{bd(0, 1): i32s(8, 5, 1, 3)},
	},
	{
		name: "for-while-break-continue",
		wgsl: hdrI + `@compute @workgroup_size(1) fn main() {
			var s = 0;
			for (var i = 0; i < 10; i++) {
				if i % 2 == 0 { continue; }
				if i > a[0] { break; }
				s += i;                     // 1+3+5+7
			}
			o[0] = s;
			var k = 0; var w = 1;
			while k < a[1] { w *= 2; k++; }
			o[1] = w; o[2] = k;
			var t = 0;
			for (var x = 0; x < 3; x++) { for (var y = 0; y < 4; y++) { if y == 2 { continue; } if x == 1 { break; } t += 10 * x + y; } }
			o[3] = t;   // x=0: y=0,1,3 -> 4 ; x=1: break; x=2: 20+21+23 = 64 -> 68
			var c = 0; var d = 100;
			for (; c < 3; ) { c++; d -= c; }
			o[4] = d;   // 100-1-2-3
		}`,
		in:   bmap{bd(0, 0): i32s(7, 6), bd(0, 1): zeros(20)},
		want: bmap{bd(0, 1): i32s(16, 64, 6, 68, 94)},
	},
	{
		name: "return-nested",
		wgsl: hdrI + `
fn find(x: i32) -> i32 {
	for (var i = 0; i < 6; i++) {
		switch a[i] {
			case 0: { continue; }
			default: { if a[i] == x { return i; } }
		}
	}
	return -1;
}
fn early(x: i32) { if x > 0 { o[5] = 111; return; } o[5] = 222; }
@compute @workgroup_size(1) fn main() {
	o[0] = find(7); o[1] = find(9); o[2] = find(4); o[3] = find(0);
	early(a[0]);
	loop { o[4] = 5; if a[0] == 3 { return; } o[4] = 6; break; }
	o[6] = 77;
}`,
		in:   bmap{bd(0, 0): i32s(3, 0, 7, 0, 9, 4), bd(0, 1): zeros(28)},
		want: bmap{bd(0, 1): i32s(2, 4, 5, -1, 5, 111, 0)},
	},
	{
		name: "switch-in-loop-continue-break",
		wgsl: hdrI + `@compute @workgroup_size(1) fn main() {
			var s = 0; var n = 0;
			for (var i = 0; i < 6; i++) {
				switch a[i] {
					case 1: { continue; }       // next iteration, skips n++
					case 2: { s += 2; }
					case 3: { break; }          // leaves the switch only
					default: { s += 100; }
				}
				n++;
			}
			o[0] = s; o[1] = n;
			var k = 0;
			loop {
				switch k { case 3: { break; } default: { k++; continue; } }
				break;
			}
			o[2] = k;
		}`,
		in:   bmap{bd(0, 0): i32s(1, 2, 3, 4, 2, 1), bd(0, 1): zeros(12)},
		want: bmap{bd(0, 1): i32s(104, 4, 3)},
	},
	{
		name: "ptr-function-params",
		wgsl: hdrI + `
fn inc(p: ptr<function, i32>) { *p += 1; }
fn swap(x: ptr<function, i32>, y: ptr<function, i32>) { let t = *x; *x = *y; *y = t; }
fn fill(p: ptr<function, array<i32, 3>>, v: i32) -> i32 { (*p)[1] = v; (*p)[2] = (*p)[0] + v; return (*p)[2]; }
fn setx(p: ptr<function, vec3<i32>>) { (*p).x = 42; (*p).z += 1; }
@compute @workgroup_size(1) fn main() {
	var x = a[0]; var y = a[1];
	inc(&x); inc(&x); swap(&x, &y);
	o[0] = x; o[1] = y;
	var arr = array<i32, 3>(5, 0, 0);
	let r = fill(&arr, 7);
	o[2] = arr[0]; o[3] = arr[1]; o[4] = arr[2]; o[5] = r;
	var v = vec3<i32>(1, 2, 3); setx(&v); o[6] = v.x + v.y * 100 + v.z * 10000;
	inc(&arr[1]); o[7] = arr[1];
}`,
		in:   bmap{bd(0, 0): i32s(10, 20), bd(0, 1): zeros(32)},
		want: bmap{bd(0, 1): i32s(20, 12, 5, 7, 12, 12, 40242, 8)},
	},
	{
		name: "private-globals-ptr-private",
		wgsl: `
var<private> g: i32 = 5;
var<private> h: array<i32, 3>;
var<private> pv: vec2<f32> = vec2<f32>(1.0, 3.0);
fn addg(n: i32) -> i32 { g += n; return g; }
fn bump(p: ptr<private, i32>) { *p = *p * 2; }
fn seth(i: i32, v: i32) { h[i] = v; }
@group(0) @binding(0) var<storage, read> a: array<i32>;
@group(0) @binding(1) var<storage, read_write> o: array<i32>;
@compute @workgroup_size(1) fn main() {
	o[0] = g; o[1] = addg(a[0]); o[2] = addg(1); bump(&g); o[3] = g;
	o[4] = h[1]; seth(1, 9); seth(2, 8); bump(&h[1]); o[5] = h[0] + h[1] * 10 + h[2] * 1000;
	pv.y = pv.x + pv.y; o[6] = i32(pv.y);
}`,
		in:   bmap{bd(0, 0): i32s(10), bd(0, 1): zeros(28)},
		want: bmap{bd(0, 1): i32s(5, 15, 16, 32, 0, 8180, 4)},
		opts: Opts{Opts: xrtPoison()},
	},
	{
		name: "private-float-init-after-uninit-array",
		wgsl: `
var<private> h: array<i32, 3>;
var<private> pv: vec2<f32> = vec2<f32>(1.5, 2.5);
@group(0) @binding(1) var<storage, read_write> o: array<i32>;
@compute @workgroup_size(1) fn main() { o[0] = h[1]; o[1] = i32(pv.x * 2.0); o[2] = i32(pv.y * 2.0); }`,
		in:     bmap{bd(0, 1): zeros(12)},
		want:   bmap{bd(0, 1): i32s(0, 3, 5)},
		defect: "front end: `var<private> pv = vec2<f32>(1.5, 2.5)` next to a used, uninitialised private array is emitted as vec2(1, 2) (HLSL and MSL show the same ints)",
	},
	{
		name: "private-init-from-const",
		wgsl: `
const C = vec2<f32>(1.5, 2.5);
var<private> pc: vec2<f32> = C;
@group(0) @binding(1) var<storage, read_write> o: array<f32>;
@compute @workgroup_size(1) fn main() { o[0] = pc.x; o[1] = pc.y; }`,
		in:     bmap{bd(0, 1): zeros(8)},
		want:   bmap{bd(0, 1): f32s(1.5, 2.5)},
		defect: "a private global initialised from a named module constant is emitted zero-initialised (`vec2 pc = vec2(0.0)`)",
	},
	{
		name: "shadowing-nested-blocks",
		wgsl: hdrI + `@compute @workgroup_size(1) fn main() {
			let x = a[0];
			var r = 0;
			{
				let x = x + 1;          // 11
				{ var x = x * 2; x += 1; r = x; }   // 23
				r += x;                 // 34
			}
			r += x;                     // 44
			o[0] = r;
			var i = 100;
			for (var i = 0; i < 3; i++) { r += i; }
			o[1] = r; o[2] = i;
			if x > 0 { let r = 7; o[3] = r; }
			o[4] = r;
		}`,
		in:   bmap{bd(0, 0): i32s(10), bd(0, 1): zeros(20)},
		want: bmap{bd(0, 1): i32s(44, 47, 100, 7, 47)},
	},
	{
		name: "functions-by-value-aggregates",
		wgsl: hdrI + `
struct P { x: i32, v: vec2<i32>, arr: array<i32, 2> }
fn mk(k: i32) -> P { return P(k, vec2<i32>(k + 1, k + 2), array<i32, 2>(k + 3, k + 4)); }
fn sum(p: P) -> i32 { return p.x + p.v.x + p.v.y + p.arr[0] + p.arr[1]; }
fn rev(q: array<i32, 4>) -> array<i32, 4> { return array<i32, 4>(q[3], q[2], q[1], q[0]); }
fn modify(p: P) -> P { var c = p; c.x = 100; c.arr[1] = 200; return c; }
@compute @workgroup_size(1) fn main() {
	let p = mk(a[0]);
	o[0] = sum(p);                      // 5k + 10
	let q = modify(p);
	o[1] = q.x + q.arr[1]; o[2] = p.x + p.arr[1];
	let r = rev(array<i32, 4>(a[0], a[1], a[2], a[3]));
	o[3] = r[0]; o[4] = r[1]; o[5] = r[2]; o[6] = r[3];
	var s = mk(1); var t = s; t.v.y = 50; o[7] = s.v.y; o[8] = t.v.y;
	o[9] = i32(s.x == 1 && all(s.v == vec2<i32>(2, 3)));
}`,
		in:   bmap{bd(0, 0): i32s(2, 3, 4, 5), bd(0, 1): zeros(40)},
		want: bmap{bd(0, 1): i32s(20, 300, 8, 5, 4, 3, 2, 3, 50, 1)},
	},
	{
		name: "collatz",
		wgsl: hdrU + `
fn collatz(n0: u32) -> u32 {
	var n = n0; var i = 0u;
	loop {
		if n <= 1u { break; }
		if n % 2u == 0u { n = n / 2u; } else { n = 3u * n + 1u; }
		i += 1u;
	}
	return i;
}
@compute @workgroup_size(1) fn main() { for (var k = 0u; k < 4u; k++) { o[k] = collatz(a[k]); } }`,
		in:   bmap{bd(0, 0): u32s(1, 6, 7, 27), bd(0, 1): zeros(16)},
		want: bmap{bd(0, 1): u32s(0, 8, 16, 111)},
	},
	{
		name: "nested-loops-break-outer-flag",
		wgsl: hdrI + `@compute @workgroup_size(1) fn main() {
			var found = -1;
			for (var i = 0; i < 4; i++) {
				var j = 0;
				loop {
					if j >= 4 { break; }
					if a[i * 4 + j] == 9 { found = i * 10 + j; break; }
					continuing { j++; }
				}
				if found >= 0 { break; }
			}
			o[0] = found;
			var w = 0; var c = 0;
			while true { c++; if c < 3 { continue; } w += c; if c >= 5 { break; } }
			o[1] = w;    // 3+4+5
		}`,
		in:   bmap{bd(0, 0): i32s(0, 0, 0, 0, 0, 0, 0, 0, 0, 0, 9, 0, 9, 0, 0, 0), bd(0, 1): zeros(8)},
		want: bmap{bd(0, 1): i32s(22, 12)},
	},
	{
		name: "function-var-zero-init",
		wgsl: hdrI + `
fn f() -> i32 { var x: i32; var v: vec3<f32>; var arr: array<i32, 4>; var m: mat2x2<f32>;
	x += 1; return x + i32(v.z) + arr[3] + i32(m[1][1]); }
@compute @workgroup_size(1) fn main() { o[0] = f(); o[1] = f() + a[0]; }`,
		in:   bmap{bd(0, 0): i32s(5), bd(0, 1): zeros(8)},
		want: bmap{bd(0, 1): i32s(1, 6)},
		opts: Opts{Opts: xrtPoison()},
	},
	{
		name: "call-order-side-effects",
		wgsl: `
var<private> log: i32 = 0;
fn t(k: i32) -> i32 { log = log * 10 + k; return k; }
@group(0) @binding(0) var<storage, read> a: array<i32>;
@group(0) @binding(1) var<storage, read_write> o: array<i32>;
fn three(x: i32, y: i32, z: i32) -> i32 { return x * 100 + y * 10 + z; }
@compute @workgroup_size(1) fn main() {
	o[0] = t(1) + t(2) * t(3); o[1] = log; log = 0;
	o[2] = three(t(4), t(5), t(6)); o[3] = log; log = 0;
	let v = vec3<i32>(t(7), t(8), t(9)); o[4] = log + v.x;
}`,
		in:   bmap{bd(0, 0): i32s(0), bd(0, 1): zeros(20)},
		want: bmap{bd(0, 1): i32s(7, 123, 456, 456, 796)},
	},
}

func TestConformGroup2(t *testing.T) {
	for _, c := range group2 {
		c := c
		t.Run(c.name, func(t *testing.T) { runConf(t, c) })
	}
}
