package glslx

import (
	"strings"
)

// Built-in function signatures, written from GLSL 4.60 chapter 8.

type biID uint16

const (
	biNone biID = iota
	// float -> float, component-wise, computed in float64 and rounded once
	biRadians
	biDegrees
	biSin
	biCos
	biTan
	biAsin
	biAcos
	biAtan
	biAtan2
	biSinh
	biCosh
	biTanh
	biAsinh
	biAcosh
	biAtanh
	biPow
	biExp
	biLog
	biExp2
	biLog2
	biSqrt
	biInversesqrt
	biAbs
	biSign
	biFloor
	biTrunc
	biRound
	biRoundEven
	biCeil
	biFract
	biMod
	biModf
	biMin
	biMax
	biClamp
	biMix
	biStep
	biSmoothstep
	biIsnan
	biIsinf
	biFloatBitsToInt
	biFloatBitsToUint
	biIntBitsToFloat
	biUintBitsToFloat
	biFma
	biFrexp
	biLdexp
	biPackUnorm2x16
	biPackSnorm2x16
	biPackUnorm4x8
	biPackSnorm4x8
	biUnpackUnorm2x16
	biUnpackSnorm2x16
	biUnpackUnorm4x8
	biUnpackSnorm4x8
	biPackHalf2x16
	biUnpackHalf2x16
	biLength
	biDistance
	biDot
	biCross
	biNormalize
	biFaceforward
	biReflect
	biRefract
	biMatrixCompMult
	biOuterProduct
	biTranspose
	biDeterminant
	biInverse
	biLessThan
	biLessThanEqual
	biGreaterThan
	biGreaterThanEqual
	biEqual
	biNotEqual
	biAny
	biAll
	biNot
	biUaddCarry
	biUsubBorrow
	biUmulExtended
	biImulExtended
	biBitfieldExtract
	biBitfieldInsert
	biBitfieldReverse
	biBitCount
	biFindLSB
	biFindMSB
	biAtomicAdd
	biAtomicMin
	biAtomicMax
	biAtomicAnd
	biAtomicOr
	biAtomicXor
	biAtomicExchange
	biAtomicCompSwap
	biBarrier
	biMemoryBarrier
)

type builtinSig struct {
	name   string
	id     biID
	params []*Type
	out    []bool // out parameter
	mem    bool   // first parameter is an atomic memory l-value (buffer or shared)
	ret    *Type
}

var builtinTable = map[string][]*builtinSig{}

type biSpec struct {
	id    biID
	name  string
	specs string
}

var biSpecs = []biSpec{
	{biRadians, "radians", "F:F"}, {biDegrees, "degrees", "F:F"},
	{biSin, "sin", "F:F"}, {biCos, "cos", "F:F"}, {biTan, "tan", "F:F"},
	{biAsin, "asin", "F:F"}, {biAcos, "acos", "F:F"}, {biAtan, "atan", "F:F"}, {biAtan2, "atan", "F:FF"},
	{biSinh, "sinh", "F:F"}, {biCosh, "cosh", "F:F"}, {biTanh, "tanh", "F:F"},
	{biAsinh, "asinh", "F:F"}, {biAcosh, "acosh", "F:F"}, {biAtanh, "atanh", "F:F"},
	{biPow, "pow", "F:FF"}, {biExp, "exp", "F:F"}, {biLog, "log", "F:F"}, {biExp2, "exp2", "F:F"},
	{biLog2, "log2", "F:F"}, {biSqrt, "sqrt", "F:F"}, {biInversesqrt, "inversesqrt", "F:F"},
	{biAbs, "abs", "F:F I:I"}, {biSign, "sign", "F:F I:I"},
	{biFloor, "floor", "F:F"}, {biTrunc, "trunc", "F:F"}, {biRound, "round", "F:F"},
	{biRoundEven, "roundEven", "F:F"}, {biCeil, "ceil", "F:F"}, {biFract, "fract", "F:F"},
	{biMod, "mod", "F:FF F:Ff"}, {biModf, "modf", "F:F>F"},
	{biMin, "min", "F:FF F:Ff I:II I:Ii U:UU U:Uu"}, {biMax, "max", "F:FF F:Ff I:II I:Ii U:UU U:Uu"},
	{biClamp, "clamp", "F:FFF F:Fff I:III I:Iii U:UUU U:Uuu"},
	{biMix, "mix", "F:FFF F:FFf F:FFB I:IIB U:UUB B:BBB"},
	{biStep, "step", "F:FF F:fF"}, {biSmoothstep, "smoothstep", "F:FFF F:ffF"},
	{biIsnan, "isnan", "B:F"}, {biIsinf, "isinf", "B:F"},
	{biFloatBitsToInt, "floatBitsToInt", "I:F"}, {biFloatBitsToUint, "floatBitsToUint", "U:F"},
	{biIntBitsToFloat, "intBitsToFloat", "F:I"}, {biUintBitsToFloat, "uintBitsToFloat", "F:U"},
	{biFma, "fma", "F:FFF"}, {biFrexp, "frexp", "F:F>I"}, {biLdexp, "ldexp", "F:FI"},
	{biPackUnorm2x16, "packUnorm2x16", "u:2"}, {biPackSnorm2x16, "packSnorm2x16", "u:2"},
	{biPackUnorm4x8, "packUnorm4x8", "u:4"}, {biPackSnorm4x8, "packSnorm4x8", "u:4"},
	{biUnpackUnorm2x16, "unpackUnorm2x16", "2:u"}, {biUnpackSnorm2x16, "unpackSnorm2x16", "2:u"},
	{biUnpackUnorm4x8, "unpackUnorm4x8", "4:u"}, {biUnpackSnorm4x8, "unpackSnorm4x8", "4:u"},
	{biPackHalf2x16, "packHalf2x16", "u:2"}, {biUnpackHalf2x16, "unpackHalf2x16", "2:u"},
	{biLength, "length", "f:F"}, {biDistance, "distance", "f:FF"}, {biDot, "dot", "f:FF"},
	{biCross, "cross", "3:33"}, {biNormalize, "normalize", "F:F"}, {biFaceforward, "faceforward", "F:FFF"},
	{biReflect, "reflect", "F:FF"}, {biRefract, "refract", "F:FFf"},
	{biLessThan, "lessThan", "y:vv y:ww y:xx"}, {biLessThanEqual, "lessThanEqual", "y:vv y:ww y:xx"},
	{biGreaterThan, "greaterThan", "y:vv y:ww y:xx"}, {biGreaterThanEqual, "greaterThanEqual", "y:vv y:ww y:xx"},
	{biEqual, "equal", "y:vv y:ww y:xx y:yy"}, {biNotEqual, "notEqual", "y:vv y:ww y:xx y:yy"},
	{biAny, "any", "b:y"}, {biAll, "all", "b:y"}, {biNot, "not", "y:y"},
	{biUaddCarry, "uaddCarry", "U:UU>U"}, {biUsubBorrow, "usubBorrow", "U:UU>U"},
	{biUmulExtended, "umulExtended", ":UU>U>U"}, {biImulExtended, "imulExtended", ":II>I>I"},
	{biBitfieldExtract, "bitfieldExtract", "I:Iii U:Uii"}, {biBitfieldInsert, "bitfieldInsert", "I:IIii U:UUii"},
	{biBitfieldReverse, "bitfieldReverse", "I:I U:U"}, {biBitCount, "bitCount", "I:I I:U"},
	{biFindLSB, "findLSB", "I:I I:U"}, {biFindMSB, "findMSB", "I:I I:U"},
	{biAtomicAdd, "atomicAdd", "u:&uu i:&ii"}, {biAtomicMin, "atomicMin", "u:&uu i:&ii"},
	{biAtomicMax, "atomicMax", "u:&uu i:&ii"}, {biAtomicAnd, "atomicAnd", "u:&uu i:&ii"},
	{biAtomicOr, "atomicOr", "u:&uu i:&ii"}, {biAtomicXor, "atomicXor", "u:&uu i:&ii"},
	{biAtomicExchange, "atomicExchange", "u:&uu i:&ii"}, {biAtomicCompSwap, "atomicCompSwap", "u:&uuu i:&iii"},
	{biBarrier, "barrier", ":"},
	{biMemoryBarrier, "memoryBarrier", ":"}, {biMemoryBarrier, "memoryBarrierAtomicCounter", ":"},
	{biMemoryBarrier, "memoryBarrierBuffer", ":"}, {biMemoryBarrier, "memoryBarrierShared", ":"},
	{biMemoryBarrier, "memoryBarrierImage", ":"}, {biMemoryBarrier, "groupMemoryBarrier", ":"},
}

func letterType(c byte, n int) *Type {
	switch c {
	case 'F':
		return vecOf(KFloat, n)
	case 'I':
		return vecOf(KInt, n)
	case 'U':
		return vecOf(KUint, n)
	case 'B':
		return vecOf(KBool, n)
	case 'v':
		return vecOf(KFloat, n)
	case 'w':
		return vecOf(KInt, n)
	case 'x':
		return vecOf(KUint, n)
	case 'y':
		return vecOf(KBool, n)
	case 'f':
		return tFloat
	case 'i':
		return tInt
	case 'u':
		return tUint
	case 'b':
		return tBool
	case '2', '3', '4':
		return vecOf(KFloat, int(c-'0'))
	}
	return nil
}

func init() {
	for _, bs := range biSpecs {
		for _, spec := range strings.Fields(bs.specs) {
			lo, hi := 1, 1
			if strings.ContainsAny(spec, "FIUB") {
				lo, hi = 1, 4
			}
			if strings.ContainsAny(spec, "vwxy") {
				lo, hi = 2, 4
			}
			colon := strings.IndexByte(spec, ':')
			for n := lo; n <= hi; n++ {
				sig := &builtinSig{name: bs.name, id: bs.id, ret: tVoid}
				if colon > 0 {
					sig.ret = letterType(spec[0], n)
				}
				out := false
				for i := colon + 1; i < len(spec); i++ {
					switch spec[i] {
					case '>':
						out = true
						continue
					case '&':
						sig.mem = true
						out = true
						continue
					}
					sig.params = append(sig.params, letterType(spec[i], n))
					sig.out = append(sig.out, out)
					out = false
				}
				dup := false
				for _, o := range builtinTable[bs.name] {
					if len(o.params) == len(sig.params) {
						same := true
						for i := range o.params {
							same = same && o.params[i] == sig.params[i]
						}
						dup = dup || same
					}
				}
				if !dup {
					builtinTable[bs.name] = append(builtinTable[bs.name], sig)
				}
			}
		}
	}
	// matrix functions
	for c := 2; c <= 4; c++ {
		for r := 2; r <= 4; r++ {
			m := matTypes[c][r]
			add := func(name string, id biID, ret *Type, ps ...*Type) {
				builtinTable[name] = append(builtinTable[name], &builtinSig{name: name, id: id, params: ps, out: make([]bool, len(ps)), ret: ret})
			}
			add("matrixCompMult", biMatrixCompMult, m, m, m)
			add("transpose", biTranspose, matTypes[r][c], m)
			// outerProduct(vecR c, vecC r) -> matCxR
			add("outerProduct", biOuterProduct, m, vecOf(KFloat, r), vecOf(KFloat, c))
			if c == r {
				add("determinant", biDeterminant, tFloat, m)
				add("inverse", biInverse, m, m)
			}
		}
	}
}

// Function-name families that belong to features outside the executable subset.
func unsupportedBuiltinFamily(name string) bool {
	for _, p := range []string{"texture", "texel", "image", "subgroup", "dFdx", "dFdy", "fwidth", "interpolateAt",
		"atomicCounter", "EmitVertex", "EndPrimitive", "EmitStreamVertex", "EndStreamPrimitive", "rayQuery",
		"packDouble", "unpackDouble", "noise", "shadow", "allInvocations", "anyInvocation", "ftransform",
		"packFloat2x16", "unpackFloat2x16", "float16BitsTo", "int64BitsTo", "doubleBitsTo", "packInt2x32", "packUint2x32",
		"unpackInt2x32", "unpackUint2x32"} {
		if strings.HasPrefix(name, p) {
			return true
		}
	}
	return false
}
