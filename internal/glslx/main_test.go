package glslx

import (
	"os"
	"runtime"
	"runtime/debug"
	"testing"
)

// The sandbox's 16 virtual CPUs make Go's concurrent GC very expensive for these allocation-heavy,
// short tests (15 s against 2 s); none of the tests needs parallelism.
func TestMain(m *testing.M) {
	debug.SetGCPercent(800)
	runtime.GOMAXPROCS(2)
	os.Exit(m.Run())
}
