package glslx

// std140 / std430 layout calculator, written from the OpenGL 4.6 core specification, section
// 7.6.2.2 "Standard Uniform Block Layout" (rules 1-10) and the std430 amendment at the end of that
// section ("...except that base alignment and stride of arrays of scalars and vectors in rule 4 and
// of structures in rule 9 are not rounded up a multiple of the base alignment of a vec4").

// Layout is the memory layout of one value inside an interface block.
type Layout struct {
	Name         string // member name ("" for array elements)
	Type         *Type
	Offset       int // bytes from the start of the enclosing aggregate (0 for array elements)
	Size         int // bytes occupied, including internal padding (0 for runtime-sized arrays)
	Align        int // base alignment
	Stride       int // array stride (arrays only)
	MatrixStride int // bytes between columns (or rows, when RowMajor) of a matrix
	RowMajor     bool
	Elem         *Layout   // arrays: element layout
	Members      []*Layout // structs: member layouts
}

type layoutKey struct {
	t        *Type
	std140   bool
	rowMajor bool
}

type layoutCalc struct {
	memo map[layoutKey]*Layout
}

func roundUp(x, a int) int {
	if a <= 1 {
		return x
	}
	return (x + a - 1) / a * a
}

// of computes the layout of type t under the given packing and matrix majorness.
func (lc *layoutCalc) of(t *Type, std140, rowMajor bool) *Layout {
	if lc.memo == nil {
		lc.memo = map[layoutKey]*Layout{}
	}
	k := layoutKey{t, std140, rowMajor}
	if l, ok := lc.memo[k]; ok {
		return l
	}
	l := &Layout{Type: t}
	w := 4 // N, the size of the scalar in basic machine units (2 for the 16-bit float types)
	if t.half {
		w = 2
	}
	switch t.Kind {
	case KBool, KInt, KUint, KFloat:
		// rule 1: a scalar consuming N basic machine units has base alignment N
		l.Size, l.Align = w, w
	case KVec:
		// rules 2 and 3: 2N for two components, 4N for three or four
		l.Size = w * t.N
		if t.N == 2 {
			l.Align = 2 * w
		} else {
			l.Align = 4 * w
		}
	case KMat:
		// rules 5 and 7: a column-major CxR matrix is stored as an array of C column vectors with R
		// components; a row-major one as an array of R row vectors with C components (rule 4).
		vecN, count := t.N, t.Cols
		if rowMajor {
			vecN, count = t.Cols, t.N
		}
		a := 4 * w
		if vecN == 2 {
			a = 2 * w
		}
		if std140 {
			a = roundUp(a, 16)
		}
		l.Align, l.MatrixStride, l.Size, l.RowMajor = a, a, a*count, rowMajor
	case KArray:
		// rules 4, 6, 8, 10
		e := lc.of(t.Of, std140, rowMajor)
		a := e.Align
		if std140 {
			a = roundUp(a, 16)
		}
		l.Elem = e
		l.Align = a
		l.Stride = roundUp(e.Size, a)
		if t.Len >= 0 {
			l.Size = l.Stride * t.Len
		}
		l.RowMajor = rowMajor
	case KStruct:
		// rule 9
		a, cur := 0, 0
		for _, m := range t.Struct.Members {
			ml := *lc.of(m.Type, std140, rowMajor)
			ml.Name = m.Name
			ml.Offset = roundUp(cur, ml.Align)
			cur = ml.Offset + ml.Size
			if ml.Align > a {
				a = ml.Align
			}
			l.Members = append(l.Members, &ml)
		}
		if std140 {
			a = roundUp(a, 16)
		}
		if a == 0 {
			a = 4
		}
		l.Align = a
		l.Size = roundUp(cur, a)
		l.RowMajor = rowMajor
	}
	lc.memo[k] = l
	return l
}

// memberQual carries the layout qualifiers of one block member.
type memberQual struct {
	offset, align  int  // -1 when absent
	rowMajor, colM bool // explicit matrix majorness on the member
}

// blockLayout lays out the members of a block. offsets of members are relative to the block start.
func (lc *layoutCalc) blockLayout(members []StructMember, quals []memberQual, std140, rowMajor bool, blockAlign int) []*Layout {
	out := make([]*Layout, len(members))
	cur := 0
	for i, m := range members {
		rm := rowMajor
		q := memberQual{offset: -1, align: -1}
		if quals != nil {
			q = quals[i]
		}
		if q.rowMajor {
			rm = true
		} else if q.colM {
			rm = false
		}
		ml := *lc.of(m.Type, std140, rm)
		ml.Name = m.Name
		off := cur
		if q.offset >= 0 {
			// "The offset qualifier forces the qualified member to start at or after the specified
			// integral-constant-expression"
			off = q.offset
		}
		a := ml.Align
		al := q.align
		if al < 0 {
			al = blockAlign
		}
		if al > a {
			a = al
		}
		ml.Offset = roundUp(off, a)
		cur = ml.Offset + ml.Size
		out[i] = &ml
	}
	return out
}

// ---- exported observations ----

// Field is one member of an interface block (or of a structure nested in one), laid out by this
// package's std140/std430 calculator.
type Field struct {
	Name         string
	Type         string
	Offset       int // bytes from the start of the enclosing block / struct / array element
	Size         int // bytes; 0 for a runtime-sized array
	Align        int
	Stride       int // array stride; 0 for non-arrays
	MatrixStride int // matrices (and arrays of matrices): bytes between columns (rows if RowMajor)
	RowMajor     bool
	ArrayLen     int     // -1 runtime-sized, 0 not an array
	Members      []Field // struct (or array-of-struct element) members, offsets relative to the struct start
}

// Block describes one interface block.
type Block struct {
	Name      string
	Instance  string   // "" when the block has no instance name
	Storage   string   // "buffer" or "uniform"
	Layout    []string // layout and memory qualifiers as written, e.g. "std430", "binding=2", "readonly"
	Packing   string   // "std140", "std430", "shared" or "packed" (effective)
	Binding   int      // layout(binding=N), -1 if absent
	Readonly  bool
	Writeonly bool
	Members   []Field
	Size      int // bytes of the fixed part (up to the start of a trailing runtime-sized array)
	Line      int
}

func fieldOf(l *Layout) Field {
	f := Field{Name: l.Name, Type: l.Type.String(), Offset: l.Offset, Size: l.Size, Align: l.Align,
		Stride: l.Stride, MatrixStride: l.MatrixStride, RowMajor: l.RowMajor}
	inner := l
	if l.Type.Kind == KArray {
		f.ArrayLen = l.Type.Len
		for inner.Type.Kind == KArray {
			inner = inner.Elem
		}
		if inner.Type.Kind == KMat {
			f.MatrixStride = inner.MatrixStride
		}
	}
	if inner.Type.Kind == KStruct {
		for _, m := range inner.Members {
			f.Members = append(f.Members, fieldOf(m))
		}
	}
	return f
}
