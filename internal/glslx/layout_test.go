package glslx

import (
	"fmt"
	"strings"
	"testing"
)

// Direct tests of the std140 / std430 calculator. Expected numbers are worked out by hand from the
// OpenGL 4.6 specification, section 7.6.2.2, rules 1-10 (N = 4 bytes).

func blocksOf(t *testing.T, decl string) []Block {
	t.Helper()
	p, err := Parse(pre430 + decl + "\nvoid main() { }\n")
	if err != nil {
		t.Fatalf("Parse: %v\n%s", err, decl)
	}
	return p.Blocks()
}

// flat renders "name@offset+size[/stride][~matrixStride]" for every member, recursively.
func flat(fs []Field, prefix string, base int) []string {
	var out []string
	for _, f := range fs {
		s := fmt.Sprintf("%s%s@%d+%d", prefix, f.Name, base+f.Offset, f.Size)
		if f.Stride != 0 {
			s += fmt.Sprintf("/%d", f.Stride)
		}
		if f.MatrixStride != 0 {
			s += fmt.Sprintf("~%d", f.MatrixStride)
		}
		out = append(out, s)
		out = append(out, flat(f.Members, prefix+f.Name+".", base+f.Offset)...)
	}
	return out
}

func TestLayoutCalculator(t *testing.T) {
	cases := []struct {
		name string
		decl string
		want string
		size int
	}{
		{"scalars-and-vectors-430",
			"layout(std430) buffer B { float a; vec2 b; vec3 c; float d; vec4 e; int f; uvec3 g; bool h; };",
			// a@0; b align 8 -> 8; c align 16 -> 16 (12 bytes); d fits at 28; e@32; f@48; g align 16 -> 64; h@76
			"a@0+4 b@8+8 c@16+12 d@28+4 e@32+16 f@48+4 g@64+12 h@76+4", 80},
		{"scalars-and-vectors-140",
			"layout(std140) uniform B { float a; vec2 b; vec3 c; float d; vec4 e; int f; uvec3 g; bool h; };",
			"a@0+4 b@8+8 c@16+12 d@28+4 e@32+16 f@48+4 g@64+12 h@76+4", 80},
		{"arrays-430",
			"layout(std430) buffer B { float a[3]; vec2 b[2]; vec3 c[2]; float d; int e[2][3]; };",
			// a stride 4 -> 0..12; b align 8, stride 8 -> 16..32; c align 16, stride 16 -> 32..64; d@64; e: inner stride 4 size 12, outer stride 12 -> 68..92
			"a@0+12/4 b@16+16/8 c@32+32/16 d@64+4 e@68+24/12", 92},
		{"arrays-140",
			"layout(std140) uniform B { float a[3]; vec2 b[2]; vec3 c[2]; float d; int e[2][3]; };",
			// every array element is rounded up to 16: a 0..48; b 48..80; c 80..112; d@112; e align 16 -> 128: inner stride 16 size 48, outer stride 48 -> 96 bytes
			"a@0+48/16 b@48+32/16 c@80+32/16 d@112+4 e@128+96/48", 224},
		{"matrices-430",
			"layout(std430) buffer B { mat2 a; float x; mat3 b; mat2x3 c; mat4x2 d; mat3x4 e; float y; };",
			// a: 2 columns of vec2, stride 8 -> 0..16; x@16; b: columns of vec3 stride 16 -> align 16 -> 32..80; c: 2 columns stride 16 -> 80..112;
			// d: 4 columns of vec2 stride 8 -> 112..144; e: 3 columns of vec4 -> 144..192; y@192
			"a@0+16~8 x@16+4 b@32+48~16 c@80+32~16 d@112+32~8 e@144+48~16 y@192+4", 196},
		{"matrices-140",
			"layout(std140) uniform B { mat2 a; float x; mat3 b; mat2x3 c; mat4x2 d; mat3x4 e; float y; };",
			// columns are array elements: stride rounded up to 16: a 0..32; x@32; b 48..96; c 96..128; d 128..192; e 192..240; y@240
			"a@0+32~16 x@32+4 b@48+48~16 c@96+32~16 d@128+64~16 e@192+48~16 y@240+4", 244},
		{"row-major-430",
			"layout(std430, row_major) buffer B { mat2x3 a; float x; mat4x2 b; layout(column_major) mat4x2 c; mat2x3 d[2]; };",
			// a (2 cols x 3 rows) row-major = 3 rows of vec2, stride 8 -> 0..24; x@24; b (4 cols x 2 rows) = 2 rows of vec4, stride 16 -> 32..64;
			// c column-major: 4 columns of vec2 stride 8 -> 64..96; d: array of row-major mat2x3: element size 24, align 8 -> stride 24 -> 96..144
			"a@0+24~8 x@24+4 b@32+32~16 c@64+32~8 d@96+48/24~8", 144},
		{"structs-430",
			"struct In { float f; vec2 v; };\nstruct Out { vec3 p; In i; float t; In arr[2]; float z; };\nlayout(std430) buffer B { float a; Out o; float b; Out os[2]; };",
			// In: f@0 v@8 size 16 align 8. Out: p@0 (12) i align 8 -> 16..32; t@32; arr align 8 stride 16 -> 40..72; z@72; align 16 -> size 80
			// block: a@0; o align 16 -> 16..96; b@96; os align 16 -> 112, stride 80
			"a@0+4 o@16+80 o.p@16+12 o.i@32+16 o.i.f@32+4 o.i.v@40+8 o.t@48+4 o.arr@56+32/16 o.arr.f@56+4 o.arr.v@64+8 o.z@88+4 b@96+4 os@112+160/80 os.p@112+12 os.i@128+16 os.i.f@128+4 os.i.v@136+8 os.t@144+4 os.arr@152+32/16 os.arr.f@152+4 os.arr.v@160+8 os.z@184+4", 272},
		{"structs-140",
			"struct In { float f; vec2 v; };\nstruct Out { vec3 p; In i; float t; In arr[2]; float z; };\nlayout(std140) uniform B { float a; Out o; float b; };",
			// In: align 16 (rounded), size 16. Out: p@0; i@16..32; t@32; arr align 16 -> 48..80; z@80; size 96
			"a@0+4 o@16+96 o.p@16+12 o.i@32+16 o.i.f@32+4 o.i.v@40+8 o.t@48+4 o.arr@64+32/16 o.arr.f@64+4 o.arr.v@72+8 o.z@96+4 b@112+4", 116},
		{"struct-tail-padding",
			"struct T { vec3 v; };\nstruct U { float f; };\nlayout(std430) buffer B { T t; float after_t; U u[2]; float after_u; };",
			// T: align 16 size 16 (12 rounded up): the float after it goes to 16, not 12 (rule 9: a structure may have padding at the end)
			// U: align 4 size 4 in std430 -> stride 4
			"t@0+16 t.v@0+12 after_t@16+4 u@20+8/4 u.f@20+4 after_u@28+4", 32},
		{"struct-tail-padding-140",
			"struct U { float f; };\nlayout(std140) uniform B { U u[2]; float after_u; U single; float x; };",
			"u@0+32/16 u.f@0+4 after_u@32+4 single@48+16 single.f@48+4 x@64+4", 68},
		{"runtime-array",
			"struct P { vec3 pos; uint id; vec2 vel; };\nlayout(std430) buffer B { uint n; P items[]; };",
			// P: pos@0 id@12 vel@16 -> 24 -> align 16 -> 32
			"n@0+4 items@16+0/32 items.pos@16+12 items.id@28+4 items.vel@32+8", 16},
		{"explicit-offset-align",
			"layout(std430) buffer B { float a; layout(offset = 32) vec2 b; layout(align = 64) float c; layout(offset = 200, align = 16) vec3 d; float e; };",
			// b at 32; c: next free 40 -> align 64 -> 64; d: offset 200 -> align 16 -> 208; e@220
			"a@0+4 b@32+8 c@64+4 d@208+12 e@220+4", 224},
		{"block-level-align",
			"layout(std430, align = 16) buffer B { float a; float b; vec2 c; };",
			"a@0+4 b@16+4 c@32+8", 40},
	}
	for _, c := range cases {
		t.Run(c.name, func(t *testing.T) {
			bs := blocksOf(t, c.decl)
			b := bs[len(bs)-1]
			got := strings.Join(flat(b.Members, "", 0), " ")
			if got != c.want {
				t.Errorf("layout\n got  %s\n want %s", got, c.want)
			}
			if b.Size != c.size {
				t.Errorf("size %d, want %d", b.Size, c.size)
			}
		})
	}
}

func TestBlocksObservation(t *testing.T) {
	bs := blocksOf(t, `
layout(std430, binding = 2) readonly buffer Name_block { vec3 v; mat2 m[2]; } inst;
layout(std140) uniform U { float f; };
layout(std430) coherent restrict writeonly buffer W { int w[]; };`)
	if len(bs) != 3 {
		t.Fatalf("%d blocks", len(bs))
	}
	b := bs[0]
	if b.Name != "Name_block" || b.Instance != "inst" || b.Storage != "buffer" || b.Packing != "std430" || b.Binding != 2 || !b.Readonly || b.Writeonly {
		t.Errorf("block 0: %+v", b)
	}
	if strings.Join(b.Layout, ",") != "std430,binding=2,readonly" {
		t.Errorf("qualifiers %v", b.Layout)
	}
	if m := b.Members[1]; m.Type != "mat2x2[2]" || m.Offset != 16 || m.Stride != 16 || m.MatrixStride != 8 || m.ArrayLen != 2 {
		t.Errorf("member m: %+v", m)
	}
	if u := bs[1]; u.Storage != "uniform" || u.Packing != "std140" || u.Binding != -1 || u.Instance != "" {
		t.Errorf("block 1: %+v", u)
	}
	if w := bs[2]; !w.Writeonly || w.Members[0].ArrayLen != -1 || w.Members[0].Stride != 4 || strings.Join(w.Layout, ",") != "std430,coherent,restrict,writeonly" {
		t.Errorf("block 2: %+v", w)
	}
}

func TestDeclsAndProblems(t *testing.T) {
	src := pre430 + `
struct S { int a; float a; };
int input;
int gl_foo;
int a__b;
int dup;
float dup;
layout(std430) buffer Blk { int m1; int m2; } inst;
layout(std430) buffer Blk2 { int free1; };
int free1;
void f(int x) { int x; }
void g(int p, int p) { }
float sin(float x) { return x; }
int h(int a) { return a; }
int h(float a) { return 1; }
int h(int b) { return b; }
int proto(int a);
int proto(int a) { return a; }
void main() {
	int y;
	{ int y; float fract = 1.0; }
	for (int i = 0; ; ) { int i; break; }
	while (true) { int w; break; }
	if (true) { int y; } else { int y; }
	switch (1) { case 1: int q; break; default: int q; }
	struct L { int z; };
	int S;
}
`
	p, err := Parse(src)
	if err != nil {
		t.Fatal(err)
	}
	probs := strings.Join(p.Problems(), "\n")
	for _, want := range []string{
		`member "a" declared twice`,
		`"input" is a GLSL keyword`,
		`"gl_foo" starts with the reserved prefix`,
		`"a__b" contains two consecutive underscores`,
		`global "dup" redeclares`,
		`"free1" redeclares`,
		`local "x" redeclares the variable`,
		`param "p" redeclares`,
		`function "sin" has the name and parameter types of a built-in`,
		`function "h" with the same parameter types is defined twice`,
		`local "i" redeclares`,
		`local "q" redeclares`,
	} {
		if !strings.Contains(probs, want) {
			t.Errorf("missing problem %q in:\n%s", want, probs)
		}
	}
	if n := len(p.Problems()); n != 12 {
		t.Errorf("%d problems, want 12:\n%s", n, probs)
	}
	// Decls: kinds and scope structure
	byName := map[string][]Decl{}
	for _, d := range p.Decls() {
		byName[d.Name] = append(byName[d.Name], d)
	}
	check := func(name, kind string, n int) []Decl {
		t.Helper()
		ds := byName[name]
		cnt := 0
		var out []Decl
		for _, d := range ds {
			if d.Kind == kind {
				cnt++
				out = append(out, d)
			}
		}
		if cnt != n {
			t.Errorf("%d declarations of %s %q, want %d (%+v)", cnt, kind, name, n, ds)
		}
		return out
	}
	check("S", "struct", 1)
	check("S", "local", 1)
	check("a", "member", 2)
	check("Blk", "block", 1)
	check("inst", "global", 1)
	bm := check("m1", "block-member", 1)
	fr := check("free1", "block-member", 1)
	if len(bm) == 1 && len(fr) == 1 && (bm[0].ScopeID == 0 || fr[0].ScopeID != 0) {
		t.Errorf("members of an instanced block must have their own scope, of an anonymous block the global one: %+v %+v", bm, fr)
	}
	check("h", "function", 3)
	check("proto", "function", 2)
	ps := check("p", "param", 2)
	if len(ps) == 2 && ps[0].ScopeID != ps[1].ScopeID {
		t.Errorf("parameters of one function in different scopes")
	}
	ys := check("y", "local", 4)
	seen := map[int]bool{}
	for _, d := range ys {
		if seen[d.ScopeID] {
			t.Errorf("two y in scope %d", d.ScopeID)
		}
		seen[d.ScopeID] = true
		if d.ParentScopeID < 0 {
			t.Errorf("local y without a parent scope")
		}
	}
	check("z", "member", 1)
	check("main", "function", 1)
}

func TestKeywords(t *testing.T) {
	ks := Keywords()
	set := map[string]bool{}
	for _, k := range ks {
		set[k] = true
	}
	for _, w := range []string{"input", "output", "sample", "common", "filter", "buffer", "shared", "uint", "mat3x4", "sampler2D", "precise", "superp", "active", "half"} {
		if !set[w] {
			t.Errorf("%q missing from Keywords()", w)
		}
	}
	for _, w := range []string{"main", "texture", "gl_Position", "min", "std430"} {
		if set[w] {
			t.Errorf("%q must not be in Keywords()", w)
		}
	}
	if len(ks) < 200 {
		t.Errorf("only %d keywords", len(ks))
	}
}
