package glslx

import (
	"math"
	"testing"
)

// Group 4: builtin functions, and the hostile-operand cases of the arithmetic operators. Expected
// values come from the WGSL specification's definitions of each builtin.

const pi = math.Pi

var group4 = []conf{
	{
		name: "int-abs-min-max-clamp-sign",
		wgsl: hdrI + `@compute @workgroup_size(1) fn main() {
			let x = a[0]; let y = a[1]; let z = a[2];
			o[0] = abs(x); o[1] = abs(z); o[2] = min(x, y); o[3] = max(x, y);
			o[4] = clamp(x, 0, 5); o[5] = clamp(y, 0, 5); o[6] = clamp(9 + y, 0, 5);
			o[7] = sign(x); o[8] = sign(y - 3); o[9] = sign(y);
			let u = bitcast<u32>(y); let big = bitcast<u32>(x);
			o[10] = bitcast<i32>(min(u, big)); o[11] = bitcast<i32>(max(u, big)); o[12] = bitcast<i32>(clamp(u + 7u, 2u, 5u));
			let v = abs(vec3<i32>(x, y, -y)); o[13] = v.x + v.y * 10 + v.z * 100;
			let w = clamp(vec2<i32>(x, y), vec2<i32>(-1, -1), vec2<i32>(1, 1)); o[14] = w.x * 10 + w.y;
			let mm = max(vec2<i32>(x, y), vec2<i32>(0)) + min(vec2<i32>(x, y), vec2<i32>(0)); o[15] = mm.x + mm.y;
		}`,
		in:   bmap{bd(0, 0): i32s(-7, 3, imin), bd(0, 1): zeros(64)},
		want: bmap{bd(0, 1): i32s(7, imin, -7, 3, 0, 3, 5, -1, 0, 1, 3, -7, 5, 337, -9, -4)},
	},
	{
		name: "float-exact-builtins",
		wgsl: hdrF + `@compute @workgroup_size(1) fn main() {
			o[0] = floor(a[0]); o[1] = ceil(a[0]); o[2] = round(a[1]); o[3] = round(a[2]); o[4] = round(a[3]);
			o[5] = trunc(a[4]); o[6] = fract(a[5]); o[7] = fract(a[6]); o[8] = abs(a[0]); o[9] = sign(a[0]); o[10] = sign(a[7]);
			o[11] = min(a[0], a[1]); o[12] = max(a[0], a[1]); o[13] = clamp(a[2], 0.0, 1.0); o[14] = saturate(a[0]); o[15] = saturate(a[6] + 0.5);
			o[16] = step(1.0, a[3] + 1.0); o[17] = step(1.0, a[7] + 1.0);
			let v = floor(vec3<f32>(a[0], a[1], a[4])); o[18] = v.x + v.y + v.z;
			let w = max(vec2<f32>(a[0], a[1]), vec2<f32>(0.0)); o[19] = w.x + w.y;
			let s = step(vec2<f32>(0.0, 3.0), vec2<f32>(a[1], a[1])); o[20] = s.x * 10.0 + s.y;
		}`,
		in: bmap{bd(0, 0): f32s(-1.5, 2.5, 3.5, -0.5, -1.7, 1.75, -0.25, 0), bd(0, 1): zeros(84)},
		want: bmap{bd(0, 1): f32s(-2, -1, 2, 4, float32(math.Copysign(0, -1)), -1, 0.75, 0.75, 1.5, -1, 0,
			-1.5, 2.5, 1, 0, 0.25, 0, 1, -2+2-2, 2.5, 10)},
	},
	{
		name: "float-approx-builtins",
		wgsl: hdrF + `@compute @workgroup_size(1) fn main() {
			o[0] = sqrt(a[0]); o[1] = inverseSqrt(a[1]); o[2] = sin(a[2]); o[3] = cos(a[2]); o[4] = exp(a[2]); o[5] = log(a[3]);
			o[6] = pow(a[4], a[5]); o[7] = exp2(a[6]); o[8] = log2(a[7]); o[9] = tan(a[2]); o[10] = asin(a[3]); o[11] = acos(a[3]);
			o[12] = atan(a[3]); o[13] = atan2(a[3], a[3]); o[14] = sinh(a[2]); o[15] = cosh(a[2]); o[16] = tanh(a[2]);
			o[17] = asinh(a[2]); o[18] = acosh(a[3]); o[19] = atanh(a[2]); o[20] = degrees(a[8]); o[21] = radians(a[9]);
			o[22] = sin(a[8] / 2.0); o[23] = exp(a[3]); o[24] = log(a[7]);
			let v = sqrt(vec2<f32>(a[0], a[1])); o[25] = v.x + v.y;
		}`,
		in: bmap{bd(0, 0): f32s(16, 4, 0, 1, 2, 10, 3, 8, float32(pi), 180), bd(0, 1): zeros(26 * 4)},
		want: bmap{bd(0, 1): f32s(4, 0.5, 0, 1, 1, 0, 1024, 8, 3, 0, float32(pi/2), 0, float32(pi/4), float32(pi/4), 0, 1, 0,
			0, 0, 0, 180, float32(pi), 1, float32(math.E), float32(math.Log(8)), 6)},
		approx: true,
	},
	{
		name: "fma-mix-smoothstep",
		wgsl: hdrF + `@compute @workgroup_size(1) fn main() {
			o[0] = fma(a[0], a[1], a[2]); o[1] = mix(a[0], a[1], 0.5); o[2] = smoothstep(0.0, 1.0, a[3]); o[3] = smoothstep(0.0, a[0], a[1]);
			let m = mix(vec2<f32>(a[0], a[1]), vec2<f32>(a[2], a[2]), 0.25); o[4] = m.x; o[5] = m.y;
			let n = mix(vec2<f32>(0.0, 10.0), vec2<f32>(4.0, 20.0), vec2<f32>(0.5, 1.0)); o[6] = n.x; o[7] = n.y;
			let f = fma(vec2<f32>(a[0]), vec2<f32>(a[1]), vec2<f32>(1.0, 2.0)); o[8] = f.x + f.y;
		}`,
		in:     bmap{bd(0, 0): f32s(2, 3, 4, 0.5), bd(0, 1): zeros(36)},
		want:   bmap{bd(0, 1): f32s(10, 2.5, 0.5, 1, 2.5, 3.25, 2, 20, 15)},
		approx: true,
	},
	{
		name: "geometry",
		wgsl: hdrF + `@compute @workgroup_size(1) fn main() {
			let x = vec3<f32>(a[0], a[1], a[2]); let y = vec3<f32>(a[3], a[4], a[5]);
			o[0] = dot(x, y); let c = cross(vec3<f32>(1.0, 0.0, 0.0), vec3<f32>(0.0, a[0], 0.0)); o[1] = c.x; o[2] = c.y; o[3] = c.z;
			o[4] = length(vec2<f32>(a[2], a[3])); o[5] = distance(vec2<f32>(a[0], a[0]), vec2<f32>(a[3], a[4]));
			let n = normalize(vec2<f32>(a[2], a[3])); o[6] = n.x; o[7] = n.y;
			o[8] = f32(dot(vec2<i32>(2, i32(a[2])), vec2<i32>(4, 5))); o[9] = f32(dot(vec3<u32>(1u, 2u, u32(a[2])), vec3<u32>(u32(a[3]))));
			let cc = cross(x, y); o[10] = cc.x; o[11] = cc.y; o[12] = cc.z; o[13] = length(a[3] - 9.0); o[14] = dot(vec4<f32>(1.0), vec4<f32>(a[0], a[1], a[2], a[3]));
		}`,
		in: bmap{bd(0, 0): f32s(1, 2, 3, 4, 5, 6), bd(0, 1): zeros(60)},
		// cross((1,2,3),(4,5,6)) = (2*6-3*5, 3*4-1*6, 1*5-2*4) = (-3, 6, -3)
		want:   bmap{bd(0, 1): f32s(32, 0, 0, 1, 5, 5, 0.6, 0.8, 23, 24, -3, 6, -3, 5, 10)},
		approx: true,
	},
	{
		name: "faceforward-reflect-refract",
		wgsl: hdrF + `@compute @workgroup_size(1) fn main() {
			let n = vec2<f32>(a[0], a[1]);      // (0, 1)
			let f1 = faceForward(n, vec2<f32>(0.0, -1.0), n);   // dot(e2,e3) = -1 < 0 -> e1
			let f2 = faceForward(n, vec2<f32>(0.0, 1.0), n);    // -> -e1
			o[0] = f1.y; o[1] = f2.y;
			let r = reflect(vec2<f32>(1.0, -1.0), n); o[2] = r.x; o[3] = r.y;
			let t = refract(vec2<f32>(0.0, -1.0), n, 0.5); o[4] = t.x; o[5] = t.y;
			let t2 = refract(normalize(vec2<f32>(1.0, -1.0)), n, 2.0); o[6] = t2.x; o[7] = t2.y;  // k = 1 - 4*(1 - 0.5) < 0 -> 0
		}`,
		in:     bmap{bd(0, 0): f32s(0, 1), bd(0, 1): zeros(32)},
		want:   bmap{bd(0, 1): f32s(1, -1, 1, 1, 0, -1, 0, 0)},
		approx: true,
	},
	{
		name: "transpose-determinant-square",
		wgsl: hdrF + `@compute @workgroup_size(1) fn main() {
			let m3 = mat3x3<f32>(vec3<f32>(a[0], 0.0, 5.0), vec3<f32>(2.0, 1.0, 6.0), vec3<f32>(3.0, 4.0, 0.0));  // rows (1,2,3) (0,1,4) (5,6,0)
			o[0] = determinant(m3);
			let t = transpose(m3); o[1] = t[0].y; o[2] = t[2].x; o[3] = t[1].z;   // t[c][r] = m[r][c]
			let m4 = mat4x4<f32>(vec4<f32>(2.0, 0.0, 0.0, 0.0), vec4<f32>(0.0, 3.0, 0.0, 0.0), vec4<f32>(0.0, 0.0, 4.0, 0.0), vec4<f32>(1.0, 1.0, 1.0, a[0]));
			o[4] = determinant(m4); o[5] = transpose(m4)[0].w;
			let m2 = mat2x2<f32>(a[0], 2.0, 3.0, 4.0); o[6] = determinant(m2); o[7] = transpose(m2)[1].x;
		}`,
		in:     bmap{bd(0, 0): f32s(1), bd(0, 1): zeros(32)},
		want:   bmap{bd(0, 1): f32s(1, 2, 5, 4, 24, 1, -2, 2)},
		approx: true,
	},
	{
		name: "bit-builtins",
		wgsl: hdrU + `@compute @workgroup_size(1) fn main() {
			o[0] = countOneBits(a[0]); o[1] = reverseBits(a[1]); o[2] = firstLeadingBit(a[2]); o[3] = firstLeadingBit(a[3]);
			o[4] = bitcast<u32>(firstLeadingBit(bitcast<i32>(a[4]))); o[5] = bitcast<u32>(firstLeadingBit(bitcast<i32>(a[5])));
			o[6] = bitcast<u32>(firstLeadingBit(bitcast<i32>(a[3]))); o[7] = firstTrailingBit(a[6]); o[8] = firstTrailingBit(a[3]);
			o[9] = bitcast<u32>(countOneBits(bitcast<i32>(a[4]))); o[10] = bitcast<u32>(reverseBits(bitcast<i32>(a[1])));
			let v = countOneBits(vec2<u32>(a[0], a[4])); o[11] = v.x + v.y;
			o[12] = bitcast<u32>(firstTrailingBit(bitcast<i32>(a[5]))); o[13] = bitcast<u32>(firstLeadingBit(bitcast<i32>(a[2])));
		}`,
		in:   bmap{bd(0, 0): u32s(0xF0F0, 1, 0x10, 0, 0xFFFFFFFF, 0xFFFFFFF8, 8), bd(0, 1): zeros(56)},
		want: bmap{bd(0, 1): u32s(8, 0x80000000, 4, 0xFFFFFFFF, 0xFFFFFFFF, 2, 0xFFFFFFFF, 3, 0xFFFFFFFF, 32, 0x80000000, 40, 3, 4)},
	},
	{
		name: "count-zeros-core",
		wgsl: hdrU + `@compute @workgroup_size(1) fn main() {
			o[0] = countLeadingZeros(a[0]); o[1] = countLeadingZeros(a[1]); o[2] = countTrailingZeros(a[2]);
			o[3] = bitcast<u32>(countTrailingZeros(bitcast<i32>(a[2]))); o[4] = countLeadingZeros(a[3]); o[5] = bitcast<u32>(countLeadingZeros(bitcast<i32>(a[0])));
		}`,
		in:   bmap{bd(0, 0): u32s(1, 0, 8, 0xFFFFFFFF), bd(0, 1): zeros(24)},
		want: bmap{bd(0, 1): u32s(31, 32, 3, 3, 0, 31)},
		only: coreOnly,
	},
	{
		name:   "count-zeros-u32-es",
		wgsl:   hdrU + `@compute @workgroup_size(1) fn main() { o[0] = countLeadingZeros(a[0]); o[1] = countTrailingZeros(a[2]); }`,
		in:     bmap{bd(0, 0): u32s(1, 0, 8, 0xFFFFFFFF), bd(0, 1): zeros(8)},
		want:   bmap{bd(0, 1): u32s(31, 3)},
		only:   esOnly,
		defect: "countLeadingZeros/countTrailingZeros on u32 are emitted as the int expressions `31 - findMSB(x)` / `findLSB(x)` and assigned to uint: a type error in GLSL ES (no implicit conversions)",
	},
	{
		name:   "count-trailing-zeros-of-zero",
		wgsl:   hdrI + `@compute @workgroup_size(1) fn main() { o[0] = countTrailingZeros(a[0]); o[1] = countTrailingZeros(a[1]); }`,
		in:     bmap{bd(0, 0): i32s(0, 12), bd(0, 1): zeros(8)},
		want:   bmap{bd(0, 1): i32s(32, 2)},
		defect: "countTrailingZeros(0) must be 32; naga emits findLSB(x), which is -1 for 0",
	},
	{
		name:   "count-leading-zeros-negative-i32",
		wgsl:   hdrI + `@compute @workgroup_size(1) fn main() { o[0] = countLeadingZeros(a[0]); o[1] = countLeadingZeros(a[1]); }`,
		in:     bmap{bd(0, 0): i32s(-1, -8), bd(0, 1): zeros(8)},
		want:   bmap{bd(0, 1): i32s(0, 0)},
		defect: "countLeadingZeros(negative i32) must be 0; naga emits 31 - findMSB(x) and findMSB of a negative int finds the most significant 0 bit",
	},
	{
		name: "extract-insert-bits",
		wgsl: hdrU + `@compute @workgroup_size(1) fn main() {
			o[0] = extractBits(a[0], 4u, 8u); o[1] = bitcast<u32>(extractBits(bitcast<i32>(a[1]), 4u, 4u));
			o[2] = extractBits(a[2], a[3], 8u);          // offset 30, count 8 -> count clamps to 2
			o[3] = extractBits(a[0], a[4], 8u);          // offset 40 -> 0 bits
			o[4] = insertBits(a[5], 0u, 8u, 8u); o[5] = insertBits(0u, 15u, a[3], 8u);
			o[6] = extractBits(a[0], 0u, 32u); o[7] = insertBits(a[0], a[5], 0u, 32u); o[8] = extractBits(a[0], 8u, 0u);
			o[9] = bitcast<u32>(extractBits(bitcast<i32>(a[1]), 4u, 5u));
		}`,
		in:   bmap{bd(0, 0): u32s(0xABCD1234, 0xF0, 0xC0000000, 30, 40, 0xFFFFFFFF), bd(0, 1): zeros(40)},
		want: bmap{bd(0, 1): u32s(0x23, 0xFFFFFFFF, 3, 0, 0xFFFF00FF, 0xC0000000, 0xABCD1234, 0xFFFFFFFF, 0, 0x0F)},
	},
	{
		name: "dot4-packed",
		wgsl: hdrU + `@compute @workgroup_size(1) fn main() {
			o[0] = bitcast<u32>(dot4I8Packed(a[0], a[1])); o[1] = dot4U8Packed(a[0], a[1]);
			o[2] = bitcast<u32>(dot4I8Packed(a[2], a[2]));     // (-128)^2 * 4
		}`,
		in:   bmap{bd(0, 0): u32s(0x01FF0203, 0x02020202, 0x80808080), bd(0, 1): zeros(12)},
		want: bmap{bd(0, 1): u32s(10, 522, 65536)},
	},
	{
		name: "pack-unpack-norm-float",
		wgsl: `
@group(0) @binding(0) var<storage, read> a: array<f32>;
@group(0) @binding(1) var<storage, read> b: array<u32>;
@group(0) @binding(2) var<storage, read_write> o: array<u32>;
@compute @workgroup_size(1) fn main() {
	o[0] = pack4x8snorm(vec4<f32>(a[0], a[1], a[2], a[3])); o[1] = pack4x8unorm(vec4<f32>(a[0], a[2], a[3], a[4]));
	o[2] = pack2x16snorm(vec2<f32>(a[0], a[1])); o[3] = pack2x16unorm(vec2<f32>(a[0], a[3])); o[4] = pack2x16float(vec2<f32>(a[0], a[5]));
	let s = unpack4x8snorm(b[0]); o[5] = bitcast<u32>(s.x); o[6] = bitcast<u32>(s.y); o[7] = bitcast<u32>(s.z); o[8] = bitcast<u32>(s.w);
	let u = unpack4x8unorm(b[1]); o[9] = bitcast<u32>(u.x); o[10] = bitcast<u32>(u.w);
	let h = unpack2x16float(b[2]); o[11] = bitcast<u32>(h.x); o[12] = bitcast<u32>(h.y);
	let n = unpack2x16snorm(b[3]); o[13] = bitcast<u32>(n.x); o[14] = bitcast<u32>(n.y);
	let m = unpack2x16unorm(b[3]); o[15] = bitcast<u32>(m.x); o[16] = bitcast<u32>(m.y);
	o[17] = pack4x8snorm(vec4<f32>(a[6], -a[6], 0.0, 0.0));      // clamps to [-1, 1]
}`,
		in: bmap{bd(0, 0): f32s(1, -1, 0, 0.5, 0.25, -2, 7), bd(0, 1): u32s(0x0081C07F, 0xFF000080, 0xC0003C00, 0x8001FFFF), bd(0, 2): zeros(72)},
		want: bmap{bd(0, 2): u32s(0x4000817F, 0x408000FF, 0x80017FFF, 0x8000FFFF, 0xC0003C00,
			fb(1), fb(float32(-64)/127), fb(-1), fb(0), fb(float32(128)/255), fb(1), fb(1), fb(-2),
			fb(float32(-1)/32767), fb(-1), fb(1), fb(float32(32769)/65535), 0x0000817F)},
	},
	{
		name: "pack-unpack-4x8-int",
		wgsl: hdrU + `@compute @workgroup_size(1) fn main() {
			let iv = vec4<i32>(bitcast<i32>(a[0]), bitcast<i32>(a[1]), bitcast<i32>(a[2]), bitcast<i32>(a[3]));
			let uv = vec4<u32>(a[0], a[4], a[5], a[6]);
			let p0 = pack4xI8(iv); let p1 = pack4xU8(uv); let p2 = pack4xI8Clamp(iv); let p3 = pack4xU8Clamp(uv);
			o[0] = p0; o[1] = p1; o[2] = p2; o[3] = p3;
			let x = unpack4xI8(a[7]); o[4] = bitcast<u32>(x.x); o[5] = bitcast<u32>(x.y); o[6] = bitcast<u32>(x.z); o[7] = bitcast<u32>(x.w);
			let y = unpack4xU8(a[7]); o[8] = y.x; o[9] = y.y; o[10] = y.z; o[11] = y.w;
		}`,
		in: bmap{bd(0, 0): u32s(1, 0xFFFFFFFF, 128, 0xFFFFFF7F, 255, 256, 511, 0x7F80FF01), bd(0, 1): zeros(48)},
		want: bmap{bd(0, 1): u32s(0x7F80FF01, 0xFF00FF01, 0x807FFF01, 0xFFFFFF01,
			1, 0xFFFFFFFF, 0xFFFFFF80, 127, 1, 255, 128, 127)},
	},
	{
		name: "pack4xU8-inside-expression",
		wgsl: hdrU + `@compute @workgroup_size(1) fn main() {
			let uv = vec4<u32>(a[0], a[1], a[2], a[3]);
			o[0] = a[4] + pack4xU8(uv);       // 0x100 + 0x04030201
			o[1] = pack4xU8Clamp(uv) * 2u;
		}`,
		in:     bmap{bd(0, 0): u32s(1, 2, 3, 4, 0x100), bd(0, 1): zeros(8)},
		want:   bmap{bd(0, 1): u32s(0x04030301, 0x08060402)},
		defect: "pack4xU8 / pack4xU8Clamp are emitted as an unparenthesised `a | b | c | d` chain, so an enclosing + or * binds to the first/last term only",
	},
	{
		name: "modf-frexp-ldexp",
		wgsl: `
@group(0) @binding(0) var<storage, read> a: array<f32>;
@group(0) @binding(1) var<storage, read_write> o: array<f32>;
@group(0) @binding(2) var<storage, read_write> oi: array<i32>;
@compute @workgroup_size(1) fn main() {
	let m = modf(a[0]); o[0] = m.fract; o[1] = m.whole; let m2 = modf(a[1]); o[2] = m2.fract; o[3] = m2.whole;
	let f = frexp(a[2]); o[4] = f.fract; oi[0] = f.exp; let f2 = frexp(a[3]); o[5] = f2.fract; oi[1] = f2.exp;
	o[6] = ldexp(a[4], 4); o[7] = ldexp(a[5], oi[2]);
	let mv = modf(vec2<f32>(a[0], a[1])); o[8] = mv.fract.x + mv.whole.y;
	let fv = frexp(vec2<f32>(a[2], a[3])); o[9] = fv.fract.x; oi[3] = fv.exp.x + fv.exp.y;
}`,
		in:   bmap{bd(0, 0): f32s(2.75, -1.5, 8, 0.75, 0.5, 3), bd(0, 1): zeros(40), bd(0, 2): i32s(0, 0, -1, 0)},
		want: bmap{bd(0, 1): f32s(0.75, 2, -0.5, -1, 0.5, 0.75, 8, 1.5, -0.25, 0.5), bd(0, 2): i32s(4, 0, -1, 4)},
	},
	{
		name: "quantize-to-f16",
		wgsl: hdrF + `@compute @workgroup_size(1) fn main() {
			o[0] = quantizeToF16(a[0]); o[1] = quantizeToF16(a[1]); o[2] = quantizeToF16(a[2]); o[3] = quantizeToF16(a[3]);
			let v = quantizeToF16(vec2<f32>(a[0], a[2])); o[4] = v.x + v.y;
		}`,
		// 1+2^-10 is exact in f16; 1+2^-12 rounds down to 1; 3 and -0.5 are exact
		in:   bmap{bd(0, 0): f32s(1.0009765625, 1.000244140625, 3, -0.5), bd(0, 1): zeros(20)},
		want: bmap{bd(0, 1): f32s(1.0009765625, 1, 3, -0.5, 4.0009765625)},
	},
	{
		name: "int-div-by-zero",
		// WGSL: e1 / 0 = e1 ; e1 % 0 = 0 ; INT_MIN / -1 = INT_MIN ; INT_MIN % -1 = 0
		wgsl:   hdrI + `@compute @workgroup_size(1) fn main() { o[0] = a[0] / a[1]; o[1] = a[0] % a[1]; }`,
		in:     bmap{bd(0, 0): i32s(7, 0), bd(0, 1): zeros(8)},
		want:   bmap{bd(0, 1): i32s(7, 0)},
		defect: "WGSL integer / and % are emitted as raw GLSL operators: division by zero is undefined in GLSL",
	},
	{
		name:   "int-min-div-minus-one",
		wgsl:   hdrI + `@compute @workgroup_size(1) fn main() { o[0] = a[0] / a[1]; }`,
		in:     bmap{bd(0, 0): i32s(imin, -1), bd(0, 1): zeros(4)},
		want:   bmap{bd(0, 1): i32s(imin)},
		defect: "INT_MIN / -1 is emitted as a raw GLSL division (overflow, undefined)",
	},
	{
		name:   "uint-div-by-zero",
		wgsl:   hdrU + `@compute @workgroup_size(1) fn main() { o[0] = a[0] / a[1]; o[1] = a[0] % a[1]; }`,
		in:     bmap{bd(0, 0): u32s(7, 0), bd(0, 1): zeros(8)},
		want:   bmap{bd(0, 1): u32s(7, 0)},
		defect: "WGSL u32 / and % by zero are emitted raw (undefined in GLSL)",
	},
	{
		name: "float-to-int-out-of-range",
		// WGSL: the value is clamped to the range of the target type
		wgsl: `
@group(0) @binding(0) var<storage, read> a: array<f32>;
@group(0) @binding(1) var<storage, read_write> o: array<i32>;
@compute @workgroup_size(1) fn main() { o[0] = i32(a[0]); o[1] = i32(a[1]); o[2] = bitcast<i32>(u32(a[1])); }`,
		in:     bmap{bd(0, 0): f32s(3e9, -3e9), bd(0, 1): zeros(12)},
		want:   bmap{bd(0, 1): i32s(imax, imin, 0)},
		mask:   nil,
		defect: "f32 -> i32/u32 conversions are emitted as raw GLSL constructors: out-of-range values are undefined in GLSL, WGSL clamps",
	},
	{
		name: "vector-builtin-forms",
		wgsl: hdrF + `@compute @workgroup_size(1) fn main() {
			let v = vec3<f32>(a[0], a[1], a[2]);
			let c = clamp(v, vec3<f32>(0.0), vec3<f32>(2.0)); o[0] = c.x + c.y * 10.0 + c.z * 100.0;   // (0, 1.5, 2)
			let s = sign(v) + abs(v) + fract(v);   // (-1+3+0, 1+1.5+0.5, 1+7+0)
			o[1] = s.x; o[2] = s.y; o[3] = s.z;
			let r = round(v * 0.5);   // (-1.5, 0.75, 3.5) -> (-2, 1, 4)
			o[4] = r.x; o[5] = r.y; o[6] = r.z;
			let sat = saturate(v); o[7] = sat.x + sat.y + sat.z;
		}`,
		in:   bmap{bd(0, 0): f32s(-3, 1.5, 7), bd(0, 1): zeros(32)},
		want: bmap{bd(0, 1): f32s(215, 2, 3, 8, -2, 1, 4, 2)},
	},
}

func TestConformGroup4(t *testing.T) {
	for _, c := range group4 {
		c := c
		t.Run(c.name, func(t *testing.T) { runConf(t, c) })
	}
}
