package glslx

import (
	"os"
	"path/filepath"
	"sort"
	"strings"
	"testing"

	"github.com/gogpu/naga/ir"

	"verif/internal/xrt"
)

// TestNoPanicOnMutatedText deletes / duplicates / swaps tokens of emitted GLSL: Parse and Exec must
// return ordinary errors, never panic and never report an internal error.
func TestNoPanicOnMutatedText(t *testing.T) {
	files, _ := filepath.Glob("/repo/snapshot/testdata/in/*.wgsl")
	sort.Strings(files)
	var srcs []string
	for _, f := range files {
		b, _ := os.ReadFile(f)
		m, err := lowerWGSL(string(b))
		if err != nil {
			continue
		}
		for _, ep := range m.EntryPoints {
			if ep.Stage != ir.StageCompute {
				continue
			}
			if g, err := emitGLSL(m, testVersions[0], ep.Name); err == nil && len(g) < 6000 {
				srcs = append(srcs, g)
			}
		}
	}
	if len(srcs) == 0 {
		t.Skip("no corpus")
	}
	stride := 29
	if testing.Short() {
		stride = 97
	}
	n, internal := 0, 0
	for si, src := range srcs {
		toks, _, err := lex(src)
		if err != nil {
			continue
		}
		// token start offsets
		var offs []int
		pos := 0
		for _, tk := range toks[:len(toks)-1] {
			i := strings.Index(src[pos:], tk.text)
			if i < 0 {
				break
			}
			offs = append(offs, pos+i)
			pos += i + len(tk.text)
		}
		for k := si % stride; k < len(offs); k += stride {
			tk := toks[k]
			o := offs[k]
			variants := []string{
				src[:o] + src[o+len(tk.text):],         // delete
				src[:o] + tk.text + " " + src[o:],      // duplicate
				src[:o] + "0" + src[o+len(tk.text):],   // replace by a literal
				src[:o] + "foo" + src[o+len(tk.text):], // replace by an unknown name
				src[:o] + "(" + src[o:],                // stray parenthesis
			}
			for _, v := range variants {
				n++
				p, err := Parse(v)
				if err != nil {
					if strings.Contains(err.Error(), "internal") {
						internal++
						if internal <= 5 {
							t.Errorf("internal error on mutated text: %v\n--- token %d %q", err, k, tk.text)
						}
					}
					continue
				}
				bufs := xrt.Buffers{}
				op := Opts{BlockBinding: map[string]xrt.Binding{}}
				op.StepLimit = 3000
				for i, b := range p.Blocks() {
					kk := xrt.Binding{Group: 9, Binding: uint32(i)}
					op.BlockBinding[b.Name] = kk
					bufs[kk] = make([]byte, 256)
				}
				if err := p.Exec(bufs, op); err != nil && strings.Contains(err.Error(), "internal") {
					internal++
					if internal <= 5 {
						t.Errorf("internal error executing mutated text: %v\n--- token %d %q", err, k, tk.text)
					}
				}
			}
		}
	}
	t.Logf("%d mutated texts, %d internal errors", n, internal)
}
