package glslx

import (
	"os"
	"path/filepath"
	"regexp"
	"sort"
	"testing"

	"github.com/gogpu/naga/ir"
	"verif/internal/xrt"
)

func TestDbgCorpusReasons(t *testing.T) {
	if os.Getenv("GLSLX_REASONS") == "" {
		t.Skip()
	}
	files, _ := filepath.Glob("/repo/snapshot/testdata/in/*.wgsl")
	sort.Strings(files)
	re := regexp.MustCompile(`line \d+`)
	cnt := map[string][]string{}
	for _, f := range files {
		srcb, _ := os.ReadFile(f)
		m, err := lowerWGSL(string(srcb))
		if err != nil {
			continue
		}
		for _, ep := range m.EntryPoints {
			if ep.Stage != ir.StageCompute {
				continue
			}
			for _, v := range testVersions[:1] {
				g, err := emitGLSL(m, v, ep.Name)
				if err != nil {
					continue
				}
				id := filepath.Base(f) + "/" + ep.Name
				prog, err := Parse(g)
				if err != nil {
					k := "PARSE " + re.ReplaceAllString(err.Error(), "line N")
					cnt[k] = append(cnt[k], id)
					continue
				}
				bufs := xrt.Buffers{}
				o := Opts{}
				o.StepLimit = 20000
				o.BlockBinding = map[string]xrt.Binding{}
				for i, b := range prog.Blocks() {
					k := xrt.Binding{Group: 9, Binding: uint32(i)}
					o.BlockBinding[b.Name] = k
					bufs[k] = make([]byte, 1024)
				}
				err = prog.Exec(bufs, o)
				if err != nil {
					k := "EXEC " + re.ReplaceAllString(err.Error(), "line N")
					cnt[k] = append(cnt[k], id)
				}
				for _, pr := range prog.Problems() {
					k := "PROBLEM " + re.ReplaceAllString(pr, "line N")
					cnt[k] = append(cnt[k], id)
				}
			}
		}
	}
	var ks []string
	for k := range cnt {
		ks = append(ks, k)
	}
	sort.Strings(ks)
	for _, k := range ks {
		t.Logf("%s <- %v", k, cnt[k])
	}
}
