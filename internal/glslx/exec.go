package glslx

import (
	"encoding/binary"
	"fmt"
	"math"
	"sync"

	"verif/internal/xrt"
)

type execAbort struct{ err error }

func trap(kind, f string, a ...any) {
	panic(execAbort{&xrt.Trap{Kind: kind, Detail: fmt.Sprintf(f, a...)}})
}

func abortUnsupported(f string, a ...any) {
	panic(execAbort{&xrt.Unsupported{What: fmt.Sprintf(f, a...)}})
}

func abortMalformed(f string, a ...any) {
	panic(execAbort{&xrt.Malformed{What: fmt.Sprintf(f, a...)}})
}

type notConst struct{}

// boundBuf is the byte storage behind one interface block.
type boundBuf struct {
	data    []byte
	b       xrt.Binding
	bound   bool
	problem string
	blk     *blockInfo
}

type execCtx struct {
	prog      *Program
	bufs      []boundBuf
	steps     int64
	limit     int64
	trace     *[]xrt.Access
	poison    bool
	shared    []cell
	numGroups [3]uint32
}

// inv is the state of one invocation.
type inv struct {
	ex        *execCtx
	prog      *Program
	chunk     []cell
	top       int
	spare     []cell
	globals   []cell
	frame     []cell
	hole      []cell
	ret       []cell
	bv        [6][]cell
	bvStore   [16]cell
	yield     func() bool
	depth     int
	constMode bool
	err       error
}

const chunkCells = 1 << 11

var chunkPool = sync.Pool{New: func() any { s := make([]cell, chunkCells); return &s }}

type arenaMark struct {
	chunk []cell
	top   int
}

func (in *inv) mark() arenaMark { return arenaMark{in.chunk, in.top} }

func (in *inv) release(m arenaMark) {
	if len(m.chunk) != len(in.chunk) || (len(m.chunk) > 0 && &m.chunk[0] != &in.chunk[0]) {
		if len(in.chunk) > len(in.spare) {
			in.spare = in.chunk
		}
		in.chunk = m.chunk
	}
	in.top = m.top
}

func (in *inv) alloc(n int) []cell {
	if in.top+n > len(in.chunk) {
		in.grow(n)
	}
	s := in.chunk[in.top : in.top+n : in.top+n]
	in.top += n
	return s
}

func (in *inv) grow(n int) {
	if len(in.spare) >= n && len(in.spare) > len(in.chunk) {
		in.chunk, in.spare = in.spare, nil
		in.top = 0
		return
	}
	sz := 2 * len(in.chunk)
	if sz < n+1024 {
		sz = n + 1024
	}
	if sz > 1<<26 {
		abortUnsupported("value arena exceeds %d cells", 1<<26)
	}
	in.chunk = make([]cell, sz)
	in.top = 0
}

func (in *inv) copyVal(v []cell) []cell {
	o := in.alloc(len(v))
	copy(o, v)
	return o
}

func (in *inv) step() {
	in.ex.steps--
	if in.ex.steps < 0 {
		panic(execAbort{&xrt.StepLimit{Steps: in.ex.limit}})
	}
}

func (in *inv) fillUninit(s []cell) {
	var v cell
	if in.ex.poison {
		v = poisonBit
	}
	for i := range s {
		s[i] = v
	}
}

// use traps when an observable use of a poison value is made.
func (in *inv) use(v []cell, e *Expr, what string) {
	if !in.ex.poison {
		return
	}
	for _, c := range v {
		if c.poisoned() {
			trap("poison", "line %d: %s uses an uninitialised value", e.line, what)
		}
	}
}

// ---- references (l-values) ----

type ref struct {
	cells []cell
	buf   *boundBuf
	off   int
	lay   *Layout
	col   int32
	comp  int32
	swz   []uint8
	typ   *Type
}

func (in *inv) evalRef(e *Expr, write bool) ref {
	switch e.op {
	case xLocal:
		if in.constMode {
			panic(notConst{})
		}
		return ref{cells: in.frame[e.slot : e.slot+e.typ.cells], typ: e.typ}
	case xGlobal:
		if in.constMode {
			panic(notConst{})
		}
		return ref{cells: in.globals[e.slot : e.slot+e.typ.cells], typ: e.typ}
	case xShared:
		if in.constMode {
			panic(notConst{})
		}
		return ref{cells: in.ex.shared[e.slot : e.slot+e.typ.cells], typ: e.typ}
	case xBuiltinVar:
		if in.constMode {
			panic(notConst{})
		}
		return ref{cells: in.bv[e.sub], typ: e.typ}
	case xBlockMember:
		if in.constMode {
			panic(notConst{})
		}
		if e.lay == nil {
			abortUnsupported("line %d: block %s uses the implementation-defined %q layout", e.line, e.blk.name, e.blk.packing)
		}
		return ref{buf: &in.ex.bufs[e.blk.index], off: e.lay.Offset, lay: e.lay, col: -1, comp: -1, typ: e.typ}
	case xIndex:
		r := in.evalRef(e.a, write)
		iv := in.eval(e.b)
		in.use(iv, e, "array index")
		idx := int64(iv[0].bits())
		if e.b.typ == tInt {
			idx = int64(int32(iv[0].bits()))
		}
		t := r.typ
		n := 0
		switch {
		case t.Kind == KArray:
			n = t.Len
			if n < 0 {
				n = in.runtimeLen(r)
			}
		case t.isVec():
			n = t.N
		case t.isMat():
			n = t.Cols
		}
		if idx < 0 || idx >= int64(n) {
			k := "oob-read"
			if write {
				k = "oob-write"
			}
			trap(k, "line %d: index %d is outside %s (length %d)", e.line, idx, t, n)
		}
		r.typ = e.typ
		if r.buf == nil {
			sz := e.typ.cells
			if r.swz != nil { // indexing a swizzled l-value cannot reach here (made an r-value by the parser)
				abortUnsupported("line %d: index of a swizzle l-value", e.line)
			}
			r.cells = r.cells[int(idx)*sz : (int(idx)+1)*sz]
			return r
		}
		switch {
		case t.Kind == KArray:
			r.off += int(idx) * r.lay.Stride
			r.lay = r.lay.Elem
		case t.isMat():
			r.col = int32(idx)
		default:
			r.comp = int32(idx)
		}
		return r
	case xMember:
		r := in.evalRef(e.a, write)
		m := r.typ.Struct.Members[e.slot]
		r.typ = e.typ
		if r.buf == nil {
			r.cells = r.cells[m.off : m.off+m.Type.cells]
			return r
		}
		ml := r.lay.Members[e.slot]
		r.off += ml.Offset
		r.lay = ml
		return r
	case xSwizzle:
		r := in.evalRef(e.a, write)
		r.swz = e.swz
		return r
	}
	abortUnsupported("line %d: expression is not an l-value", e.line)
	return ref{}
}

// runtimeLen is .length() of a runtime-sized array: (bufferBytes - offset) / stride.
func (in *inv) runtimeLen(r ref) int {
	in.needBound(r.buf)
	n := (len(r.buf.data) - r.off) / r.lay.Stride
	if n < 0 {
		n = 0
	}
	return n
}

func (in *inv) needBound(b *boundBuf) {
	if !b.bound {
		panic(execAbort{fmt.Errorf("glslx: block %s: %s", b.blk.name, b.problem)})
	}
}

func (in *inv) load(r ref) []cell {
	if r.buf == nil {
		if r.swz == nil {
			return r.cells
		}
		o := in.alloc(len(r.swz))
		for i, c := range r.swz {
			o[i] = r.cells[c]
		}
		return o
	}
	in.needBound(r.buf)
	if r.buf.blk.wronly {
		abortMalformed("read of a member of writeonly block %s", r.buf.blk.name)
	}
	if r.swz != nil {
		o := in.alloc(len(r.swz))
		for i, c := range r.swz {
			o[i] = in.rdComp(r, int(c))
		}
		return o
	}
	if r.comp >= 0 {
		o := in.alloc(1)
		o[0] = in.rdComp(r, int(r.comp))
		return o
	}
	if r.col >= 0 {
		l := r.lay
		o := in.alloc(l.Type.N)
		if !l.RowMajor {
			in.rdVec(r.buf, r.off+int(r.col)*l.MatrixStride, o)
		} else {
			for i := range o {
				in.rdVec(r.buf, r.off+i*l.MatrixStride+int(r.col)*4, o[i:i+1])
			}
		}
		return o
	}
	if r.typ.containsRuntimeArray() {
		abortMalformed("whole-value read of an unsized array")
	}
	o := in.alloc(r.typ.cells)
	in.loadLay(r.buf, r.off, r.lay, o)
	return o
}

// address of component k of the vector / scalar / matrix column the reference designates
func compAddr(r ref, k int) int {
	l := r.lay
	if l.Type.isMat() {
		if l.RowMajor {
			return r.off + k*l.MatrixStride + int(r.col)*4
		}
		return r.off + int(r.col)*l.MatrixStride + k*4
	}
	return r.off + 4*k
}

func (in *inv) rdComp(r ref, k int) cell {
	var o [1]cell
	in.rdVec(r.buf, compAddr(r, k), o[:])
	return o[0]
}

func (in *inv) rdVec(b *boundBuf, off int, out []cell) {
	n := 4 * len(out)
	if off < 0 || off+n > len(b.data) {
		trap("oob-read", "read of %d bytes at offset %d of %s (%d bytes bound to block %s)", n, off, b.b, len(b.data), b.blk.name)
	}
	if in.ex.trace != nil {
		*in.ex.trace = append(*in.ex.trace, xrt.Access{B: b.b, Off: off, Len: n})
	}
	for i := range out {
		out[i] = cell(binary.LittleEndian.Uint32(b.data[off+4*i:]))
	}
}

func (in *inv) wrVec(b *boundBuf, off int, v []cell) {
	n := 4 * len(v)
	if off < 0 || off+n > len(b.data) {
		trap("oob-write", "write of %d bytes at offset %d of %s (%d bytes bound to block %s)", n, off, b.b, len(b.data), b.blk.name)
	}
	if in.ex.poison {
		for _, c := range v {
			if c.poisoned() {
				trap("poison", "store of an uninitialised value to block %s at offset %d", b.blk.name, off)
			}
		}
	}
	if in.ex.trace != nil {
		*in.ex.trace = append(*in.ex.trace, xrt.Access{B: b.b, Off: off, Len: n, Write: true})
	}
	for i, c := range v {
		binary.LittleEndian.PutUint32(b.data[off+4*i:], c.bits())
	}
}

func (in *inv) loadLay(b *boundBuf, off int, l *Layout, out []cell) {
	t := l.Type
	switch t.Kind {
	case KBool:
		in.rdVec(b, off, out[:1])
		if out[0].bits() != 0 {
			out[0] = 1
		}
	case KInt, KUint, KFloat:
		in.rdVec(b, off, out[:1])
	case KVec:
		in.rdVec(b, off, out[:t.N])
		if t.Elem == KBool {
			for i := range out[:t.N] {
				if out[i].bits() != 0 {
					out[i] = 1
				}
			}
		}
	case KMat:
		if !l.RowMajor {
			for c := 0; c < t.Cols; c++ {
				in.rdVec(b, off+c*l.MatrixStride, out[c*t.N:(c+1)*t.N])
			}
		} else {
			var row [4]cell
			for r := 0; r < t.N; r++ {
				in.rdVec(b, off+r*l.MatrixStride, row[:t.Cols])
				for c := 0; c < t.Cols; c++ {
					out[c*t.N+r] = row[c]
				}
			}
		}
	case KArray:
		sz := t.Of.cells
		for i := 0; i < t.Len; i++ {
			in.loadLay(b, off+i*l.Stride, l.Elem, out[i*sz:(i+1)*sz])
		}
	case KStruct:
		for i, m := range t.Struct.Members {
			ml := l.Members[i]
			in.loadLay(b, off+ml.Offset, ml, out[m.off:m.off+m.Type.cells])
		}
	}
}

func (in *inv) storeLay(b *boundBuf, off int, l *Layout, v []cell) {
	t := l.Type
	switch t.Kind {
	case KBool, KInt, KUint, KFloat:
		in.wrVec(b, off, v[:1])
	case KVec:
		in.wrVec(b, off, v[:t.N])
	case KMat:
		if !l.RowMajor {
			for c := 0; c < t.Cols; c++ {
				in.wrVec(b, off+c*l.MatrixStride, v[c*t.N:(c+1)*t.N])
			}
		} else {
			var row [4]cell
			for r := 0; r < t.N; r++ {
				for c := 0; c < t.Cols; c++ {
					row[c] = v[c*t.N+r]
				}
				in.wrVec(b, off+r*l.MatrixStride, row[:t.Cols])
			}
		}
	case KArray:
		sz := t.Of.cells
		for i := 0; i < t.Len; i++ {
			in.storeLay(b, off+i*l.Stride, l.Elem, v[i*sz:(i+1)*sz])
		}
	case KStruct:
		for i, m := range t.Struct.Members {
			ml := l.Members[i]
			in.storeLay(b, off+ml.Offset, ml, v[m.off:m.off+m.Type.cells])
		}
	}
}

func (in *inv) store(r ref, v []cell) {
	if r.buf == nil {
		if r.swz == nil {
			copy(r.cells, v)
			return
		}
		for i, c := range r.swz {
			r.cells[c] = v[i]
		}
		return
	}
	in.needBound(r.buf)
	blk := r.buf.blk
	if blk.readonly || blk.storage == "uniform" {
		abortMalformed("write to a member of read-only block %s", blk.name)
	}
	if r.swz != nil {
		for i, c := range r.swz {
			in.wrVec(r.buf, compAddr(r, int(c)), v[i:i+1])
		}
		return
	}
	if r.comp >= 0 {
		in.wrVec(r.buf, compAddr(r, int(r.comp)), v[:1])
		return
	}
	if r.col >= 0 {
		l := r.lay
		if !l.RowMajor {
			in.wrVec(r.buf, r.off+int(r.col)*l.MatrixStride, v[:l.Type.N])
		} else {
			for i := 0; i < l.Type.N; i++ {
				in.wrVec(r.buf, r.off+i*l.MatrixStride+int(r.col)*4, v[i:i+1])
			}
		}
		return
	}
	if r.typ.containsRuntimeArray() {
		abortMalformed("whole-value write of an unsized array")
	}
	in.storeLay(r.buf, r.off, r.lay, v)
}

// ---- expression evaluation ----

func (in *inv) evalStable(e *Expr, laterFx bool) []cell {
	v := in.eval(e)
	if laterFx && e.lv {
		return in.copyVal(v)
	}
	return v
}

func (in *inv) eval(e *Expr) []cell {
	in.step()
	switch e.op {
	case xConst:
		return e.val
	case xLocal:
		if in.constMode {
			panic(notConst{})
		}
		return in.frame[e.slot : e.slot+e.typ.cells]
	case xGlobal:
		if in.constMode {
			panic(notConst{})
		}
		return in.globals[e.slot : e.slot+e.typ.cells]
	case xShared:
		if in.constMode {
			panic(notConst{})
		}
		return in.ex.shared[e.slot : e.slot+e.typ.cells]
	case xBuiltinVar:
		if in.constMode {
			panic(notConst{})
		}
		return in.bv[e.sub]
	case xHole:
		if in.constMode {
			panic(notConst{})
		}
		return in.hole
	case xBlockMember:
		return in.load(in.evalRef(e, false))
	case xIndex:
		if e.lv {
			return in.load(in.evalRef(e, false))
		}
		v := in.evalStable(e.a, e.b.fx)
		iv := in.eval(e.b)
		in.use(iv, e, "array index")
		idx := int64(iv[0].bits())
		if e.b.typ == tInt {
			idx = int64(int32(iv[0].bits()))
		}
		sz := e.typ.cells
		n := len(v) / sz
		if idx < 0 || idx >= int64(n) {
			trap("oob-read", "line %d: index %d is outside %s (length %d)", e.line, idx, e.a.typ, n)
		}
		return v[int(idx)*sz : (int(idx)+1)*sz]
	case xMember:
		if e.lv {
			return in.load(in.evalRef(e, false))
		}
		v := in.eval(e.a)
		m := e.a.typ.Struct.Members[e.slot]
		return v[m.off : m.off+m.Type.cells]
	case xSwizzle:
		if e.lv || e.a.lv {
			r := in.evalRef(e.a, false)
			r.swz = e.swz
			return in.load(r)
		}
		v := in.eval(e.a)
		o := in.alloc(len(e.swz))
		for i, c := range e.swz {
			o[i] = v[c]
		}
		return o
	case xLength:
		r := in.evalRef(e.a, false)
		o := in.alloc(1)
		o[0] = cell(uint32(in.runtimeLen(r)))
		return o
	case xUnary:
		return in.unary(e)
	case xBinary:
		return in.binary(e)
	case xConvert:
		v := in.eval(e.a)
		return in.convert(v, e.a.typ.Elem, e.typ.Elem, e)
	case xTernary:
		c := in.eval(e.a)
		in.use(c, e, "condition of ?:")
		if c[0].bits() != 0 {
			return in.eval(e.b)
		}
		return in.eval(e.c)
	case xLogAnd:
		a := in.eval(e.a)
		in.use(a, e, "operand of &&")
		if a[0].bits() == 0 {
			return a
		}
		b := in.eval(e.b)
		in.use(b, e, "operand of &&")
		return b
	case xLogOr:
		a := in.eval(e.a)
		in.use(a, e, "operand of ||")
		if a[0].bits() != 0 {
			return a
		}
		b := in.eval(e.b)
		in.use(b, e, "operand of ||")
		return b
	case xLogXor:
		a := in.evalStable(e.a, e.b.fx)
		b := in.eval(e.b)
		in.use(a, e, "operand of ^^")
		in.use(b, e, "operand of ^^")
		o := in.alloc(1)
		o[0] = (a[0] ^ b[0]) & 1
		return o
	case xComma:
		in.eval(e.a)
		return in.eval(e.b)
	case xAssign:
		if in.constMode {
			panic(notConst{})
		}
		r := in.evalRef(e.a, true)
		var v []cell
		if e.sub == 0 {
			v = in.eval(e.b)
		} else {
			old := in.hole
			in.hole = in.load(r)
			v = in.eval(e.b)
			in.hole = old
		}
		in.store(r, v)
		return v
	case xIncDec:
		if in.constMode {
			panic(notConst{})
		}
		return in.incDec(e)
	case xConstruct:
		return in.construct(e)
	case xCallUser:
		if in.constMode {
			panic(notConst{})
		}
		return in.callUser(e)
	case xCallBuiltin:
		return in.callBuiltin(e)
	}
	abortUnsupported("line %d: expression kind %d", e.line, e.op)
	return nil
}

func f32(c cell) float32   { return math.Float32frombits(c.bits()) }
func fcell(f float32) cell { return cell(math.Float32bits(f)) }
func i32(c cell) int32     { return int32(c.bits()) }
func icell(i int32) cell   { return cell(uint32(i)) }
func bcell(b bool) cell {
	if b {
		return 1
	}
	return 0
}
func f64cell(f float64) cell { return cell(math.Float32bits(float32(f))) }

// convert changes the scalar kind of every component (constructor / implicit conversion semantics,
// GLSL 4.60 section 5.4.1).
func (in *inv) convert(v []cell, from, to Kind, e *Expr) []cell {
	if from == to {
		return v
	}
	if (from == KInt && to == KUint) || (from == KUint && to == KInt) {
		// "the bit pattern is preserved"; poison is copied
		return v
	}
	in.use(v, e, "conversion")
	o := in.alloc(len(v))
	for i, c := range v {
		switch {
		case to == KBool:
			switch from {
			case KFloat:
				o[i] = bcell(f32(c) != 0)
			default:
				o[i] = bcell(c.bits() != 0)
			}
		case from == KBool:
			switch to {
			case KFloat:
				if c.bits() != 0 {
					o[i] = fcell(1)
				} else {
					o[i] = 0
				}
			default:
				o[i] = c & 1
			}
		case to == KFloat:
			if from == KInt {
				o[i] = fcell(float32(i32(c)))
			} else {
				o[i] = fcell(float32(c.bits()))
			}
		case from == KFloat:
			f := float64(f32(c))
			if f != f || math.IsInf(f, 0) {
				trap("f2i-range", "line %d: conversion of %v to %s", e.line, f, scalarOf(to))
			}
			t := math.Trunc(f)
			if to == KInt {
				if t < -2147483648 || t > 2147483647 {
					trap("f2i-range", "line %d: conversion of %v to int is out of range", e.line, f)
				}
				o[i] = icell(int32(t))
			} else {
				// "It is undefined to convert a negative floating-point value to an uint."
				if t < 0 || t > 4294967295 {
					trap("f2i-range", "line %d: conversion of %v to uint is out of range", e.line, f)
				}
				o[i] = cell(uint32(t))
			}
		}
	}
	return o
}

func (in *inv) unary(e *Expr) []cell {
	a := in.eval(e.a)
	op := unop(e.sub)
	if op == uPlus {
		return a
	}
	in.use(a, e, "unary operator")
	o := in.alloc(len(a))
	k := e.typ.Elem
	for i, c := range a {
		switch op {
		case uNeg:
			if k == KFloat {
				o[i] = fcell(-f32(c))
			} else {
				o[i] = cell(-c.bits())
			}
		case uNot:
			o[i] = (c ^ 1) & 1
		case uBitNot:
			o[i] = cell(^c.bits())
		}
	}
	return o
}

func (in *inv) incDec(e *Expr) []cell {
	r := in.evalRef(e.a, true)
	cur := in.load(r)
	in.use(cur, e, "++/--")
	nv := in.alloc(len(cur))
	dec := e.sub&1 != 0
	for i, c := range cur {
		if e.typ.Elem == KFloat {
			if dec {
				nv[i] = fcell(float32(f32(c) - 1))
			} else {
				nv[i] = fcell(float32(f32(c) + 1))
			}
		} else if dec {
			nv[i] = cell(c.bits() - 1)
		} else {
			nv[i] = cell(c.bits() + 1)
		}
	}
	if e.sub&2 != 0 {
		old := in.copyVal(cur)
		in.store(r, nv)
		return old
	}
	in.store(r, nv)
	return nv
}

func (in *inv) binary(e *Expr) []cell {
	a := in.evalStable(e.a, e.b.fx)
	b := in.eval(e.b)
	op := binop(e.sub)
	in.use(a, e, binopText[op])
	in.use(b, e, binopText[op])
	k := e.a.typ.Elem
	switch op {
	case bEq, bNe:
		eq := equalValue(e.a.typ, a, b)
		o := in.alloc(1)
		o[0] = bcell(eq == (op == bEq))
		return o
	}
	switch e.shape {
	case shMatMat:
		return in.matMul(e.a.typ, e.b.typ, a, b)
	case shMatVec:
		// (M*v)[r] = sum_c M[c][r] * v[c]
		ta := e.a.typ
		o := in.alloc(ta.N)
		for r := 0; r < ta.N; r++ {
			var acc float32
			for c := 0; c < ta.Cols; c++ {
				pr := float32(f32(a[c*ta.N+r]) * f32(b[c]))
				if c == 0 {
					acc = pr
				} else {
					acc = float32(acc + pr)
				}
			}
			o[r] = fcell(acc)
		}
		return o
	case shVecMat:
		// (v*M)[c] = dot(v, M[c])
		tb := e.b.typ
		o := in.alloc(tb.Cols)
		for c := 0; c < tb.Cols; c++ {
			var acc float32
			for r := 0; r < tb.N; r++ {
				pr := float32(f32(a[r]) * f32(b[c*tb.N+r]))
				if r == 0 {
					acc = pr
				} else {
					acc = float32(acc + pr)
				}
			}
			o[c] = fcell(acc)
		}
		return o
	}
	n := e.typ.cells
	if op >= bLt && op <= bGe {
		n = 1
	}
	o := in.alloc(n)
	for i := 0; i < n; i++ {
		x, y := a[0], b[0]
		if len(a) > 1 {
			x = a[i]
		}
		if len(b) > 1 {
			y = b[i]
		}
		o[i] = scalarBin(op, k, x, y, e)
	}
	return o
}

func (in *inv) matMul(ta, tb *Type, a, b []cell) []cell {
	// (A*B)[j][r] = sum_k A[k][r] * B[j][k]; A: ta.Cols x ta.N, B: tb.Cols x tb.N, ta.Cols == tb.N
	R, K, C := ta.N, ta.Cols, tb.Cols
	o := in.alloc(C * R)
	for j := 0; j < C; j++ {
		for r := 0; r < R; r++ {
			var acc float32
			for k := 0; k < K; k++ {
				pr := float32(f32(a[k*R+r]) * f32(b[j*tb.N+k]))
				if k == 0 {
					acc = pr
				} else {
					acc = float32(acc + pr)
				}
			}
			o[j*R+r] = fcell(acc)
		}
	}
	return o
}

func scalarBin(op binop, k Kind, x, y cell, e *Expr) cell {
	switch k {
	case KFloat:
		a, b := f32(x), f32(y)
		switch op {
		case bAdd:
			return fcell(float32(a + b))
		case bSub:
			return fcell(float32(a - b))
		case bMul:
			return fcell(float32(a * b))
		case bDiv:
			return fcell(float32(a / b))
		case bLt:
			return bcell(a < b)
		case bGt:
			return bcell(a > b)
		case bLe:
			return bcell(a <= b)
		case bGe:
			return bcell(a >= b)
		}
	case KInt:
		a, b := i32(x), i32(y)
		switch op {
		case bAdd:
			return icell(a + b)
		case bSub:
			return icell(a - b)
		case bMul:
			return icell(a * b)
		case bDiv:
			if b == 0 {
				trap("div0", "line %d: integer division by zero", e.line)
			}
			if a == math.MinInt32 && b == -1 {
				trap("sdiv-overflow", "line %d: INT_MIN / -1", e.line)
			}
			return icell(a / b)
		case bMod:
			if b == 0 {
				trap("div0", "line %d: integer %% by zero", e.line)
			}
			if a < 0 || b < 0 {
				trap("mod-negative", "line %d: %d %% %d: operator %% is undefined when either operand is negative", e.line, a, b)
			}
			return icell(a % b)
		case bShl, bShr:
			s := y.bits()
			if e.b.typ.Elem == KInt && int32(s) < 0 || s >= 32 {
				trap("shift-range", "line %d: shift by %d", e.line, int64(int32(s)))
			}
			if op == bShl {
				return cell(x.bits() << s)
			}
			return icell(a >> s)
		case bAnd:
			return cell(x.bits() & y.bits())
		case bOr:
			return cell(x.bits() | y.bits())
		case bXor:
			return cell(x.bits() ^ y.bits())
		case bLt:
			return bcell(a < b)
		case bGt:
			return bcell(a > b)
		case bLe:
			return bcell(a <= b)
		case bGe:
			return bcell(a >= b)
		}
	case KUint:
		a, b := x.bits(), y.bits()
		switch op {
		case bAdd:
			return cell(a + b)
		case bSub:
			return cell(a - b)
		case bMul:
			return cell(a * b)
		case bDiv:
			if b == 0 {
				trap("div0", "line %d: integer division by zero", e.line)
			}
			return cell(a / b)
		case bMod:
			if b == 0 {
				trap("div0", "line %d: integer %% by zero", e.line)
			}
			return cell(a % b)
		case bShl, bShr:
			s := b
			if e.b.typ.Elem == KInt && int32(s) < 0 || s >= 32 {
				trap("shift-range", "line %d: shift by %d", e.line, int64(int32(s)))
			}
			if op == bShl {
				return cell(a << s)
			}
			return cell(a >> s)
		case bAnd:
			return cell(a & b)
		case bOr:
			return cell(a | b)
		case bXor:
			return cell(a ^ b)
		case bLt:
			return bcell(a < b)
		case bGt:
			return bcell(a > b)
		case bLe:
			return bcell(a <= b)
		case bGe:
			return bcell(a >= b)
		}
	}
	abortUnsupported("line %d: operator %s on %v", e.line, binopText[op], k)
	return 0
}

// equalValue implements == on any type: component-wise, float components by IEEE comparison.
func equalValue(t *Type, a, b []cell) bool {
	switch t.Kind {
	case KArray:
		sz := t.Of.cells
		for i := 0; i < t.Len; i++ {
			if !equalValue(t.Of, a[i*sz:(i+1)*sz], b[i*sz:(i+1)*sz]) {
				return false
			}
		}
		return true
	case KStruct:
		for _, m := range t.Struct.Members {
			if !equalValue(m.Type, a[m.off:m.off+m.Type.cells], b[m.off:m.off+m.Type.cells]) {
				return false
			}
		}
		return true
	}
	if t.Elem == KFloat {
		for i := range a {
			if f32(a[i]) != f32(b[i]) {
				return false
			}
		}
		return true
	}
	for i := range a {
		if a[i].bits() != b[i].bits() {
			return false
		}
	}
	return true
}

func (in *inv) construct(e *Expr) []cell {
	t := e.typ
	switch ctorKind(e.sub) {
	case cConv:
		v := in.eval(e.args[0])
		return in.convert(v[:1], e.args[0].typ.Elem, t.Elem, e)
	case cSplat:
		v := in.eval(e.args[0])
		v = in.convert(v, e.args[0].typ.Elem, t.Elem, e)
		o := in.alloc(t.N)
		for i := range o {
			o[i] = v[0]
		}
		return o
	case cMatDiag:
		v := in.eval(e.args[0])
		v = in.convert(v, e.args[0].typ.Elem, KFloat, e)
		o := in.alloc(t.cells)
		for c := 0; c < t.Cols; c++ {
			for r := 0; r < t.N; r++ {
				if c == r {
					o[c*t.N+r] = v[0]
				} else {
					o[c*t.N+r] = 0
				}
			}
		}
		return o
	case cMatMat:
		v := in.eval(e.args[0])
		st := e.args[0].typ
		o := in.alloc(t.cells)
		for c := 0; c < t.Cols; c++ {
			for r := 0; r < t.N; r++ {
				switch {
				case c < st.Cols && r < st.N:
					o[c*t.N+r] = v[c*st.N+r]
				case c == r:
					o[c*t.N+r] = fcell(1)
				default:
					o[c*t.N+r] = 0
				}
			}
		}
		return o
	case cComps:
		o := in.alloc(t.cells)
		n := 0
		for _, a := range e.args {
			v := in.eval(a)
			v = in.convert(v, a.typ.Elem, t.Elem, e)
			n += copy(o[n:], v)
		}
		return o
	case cAggregate:
		o := in.alloc(t.cells)
		n := 0
		for _, a := range e.args {
			n += copy(o[n:], in.eval(a))
		}
		return o
	}
	abortUnsupported("line %d: constructor", e.line)
	return nil
}

const maxCallDepth = 128

func (in *inv) callUser(e *Expr) []cell {
	f := e.fn
	if in.depth >= maxCallDepth {
		abortUnsupported("call depth exceeds %d", maxCallDepth)
	}
	m := in.mark()
	frame := in.alloc(f.frameSize)
	var refsBuf [8]ref
	refs := refsBuf[:0]
	if len(e.args) > len(refsBuf) {
		refs = make([]ref, 0, len(e.args))
	}
	refs = refs[:len(e.args)]
	for i, a := range e.args {
		par := &f.Params[i]
		dst := frame[par.slot : par.slot+par.Type.cells]
		switch par.Qual {
		case pqIn:
			copy(dst, in.eval(a))
		case pqOut:
			refs[i] = in.evalRef(a, true)
			in.fillUninit(dst)
		case pqInout:
			refs[i] = in.evalRef(a, true)
			copy(dst, in.load(refs[i]))
		}
	}
	saved := in.frame
	in.frame = frame
	in.depth++
	c := in.execList(f.body)
	in.depth--
	in.frame = saved
	var ret []cell
	if f.Ret.Kind != KVoid {
		if c == ctlReturn {
			ret = in.ret
		} else {
			// flowing off the end of a non-void function gives an undefined value
			ret = in.alloc(f.Ret.cells)
			in.fillUninit(ret)
		}
	}
	for i := range e.args {
		par := &f.Params[i]
		if par.Qual != pqIn {
			in.store(refs[i], frame[par.slot:par.slot+par.Type.cells])
		}
	}
	in.release(m)
	if ret == nil {
		return nil
	}
	o := in.alloc(len(ret))
	copy(o, ret)
	return o
}

// ---- statements ----

type ctl uint8

const (
	ctlNone ctl = iota
	ctlBreak
	ctlContinue
	ctlReturn
)

func (in *inv) execList(ss []*Stmt) ctl {
	for _, s := range ss {
		if c := in.exec(s); c != ctlNone {
			return c
		}
	}
	return ctlNone
}

func (in *inv) cond(e *Expr, what string) bool {
	m := in.mark()
	v := in.eval(e)
	in.use(v, e, what)
	r := v[0].bits() != 0
	in.release(m)
	return r
}

func (in *inv) exec(s *Stmt) ctl {
	in.step()
	switch s.kind {
	case sExpr:
		m := in.mark()
		in.eval(s.e)
		in.release(m)
	case sDecl:
		dst := in.frame[s.slot : s.slot+s.typ.cells]
		if s.e == nil {
			in.fillUninit(dst)
		} else {
			m := in.mark()
			copy(dst, in.eval(s.e))
			in.release(m)
		}
	case sBlock:
		return in.execList(s.body)
	case sIf:
		if in.cond(s.e, "if condition") {
			return in.execList(s.body)
		}
		return in.execList(s.els)
	case sWhile:
		for in.cond(s.e, "loop condition") {
			switch in.execList(s.body) {
			case ctlBreak:
				return ctlNone
			case ctlReturn:
				return ctlReturn
			}
		}
	case sDoWhile:
		for {
			switch in.execList(s.body) {
			case ctlBreak:
				return ctlNone
			case ctlReturn:
				return ctlReturn
			}
			if !in.cond(s.e, "loop condition") {
				break
			}
		}
	case sFor:
		if c := in.execList(s.init); c != ctlNone {
			return c
		}
		for s.e == nil || in.cond(s.e, "loop condition") {
			switch in.execList(s.body) {
			case ctlBreak:
				return ctlNone
			case ctlReturn:
				return ctlReturn
			}
			if s.post != nil {
				m := in.mark()
				in.eval(s.post)
				in.release(m)
			}
			in.step()
		}
	case sSwitch:
		m := in.mark()
		v := in.eval(s.e)
		in.use(v, s.e, "switch selector")
		sel := v[0].bits()
		in.release(m)
		start := -1
		for _, c := range s.cases {
			if !c.isDefault && c.val == sel {
				start = c.index
				break
			}
		}
		if start < 0 {
			for _, c := range s.cases {
				if c.isDefault {
					start = c.index
				}
			}
		}
		if start < 0 {
			return ctlNone
		}
		switch c := in.execList(s.body[start:]); c {
		case ctlBreak:
			return ctlNone
		default:
			return c
		}
	case sBreak:
		return ctlBreak
	case sContinue:
		return ctlContinue
	case sReturn:
		if s.e != nil {
			in.ret = in.eval(s.e)
		}
		return ctlReturn
	case sEmpty:
	}
	return ctlNone
}

// ---- constant evaluation (parser) ----

func newConstEvaluator(p *Program) *inv {
	ex := &execCtx{prog: p, steps: math.MaxInt64, limit: math.MaxInt64}
	return &inv{ex: ex, prog: p, constMode: true, chunk: make([]cell, 256)}
}

func (in *inv) constEval(e *Expr) (v []cell, ok bool) {
	m := in.mark()
	defer func() {
		if r := recover(); r != nil {
			in.release(m)
			switch r.(type) {
			case notConst, execAbort:
				v, ok = nil, false
			default:
				panic(r)
			}
		}
	}()
	in.ex.steps = 1 << 40
	r := in.eval(e)
	v = append([]cell(nil), r...)
	in.release(m)
	return v, true
}
