// Package xrt is the tiny shared contract between every shader interpreter in /verif
// (SPIR-V, IR, HLSL, MSL, GLSL) and the checks that drive them. It deliberately contains no
// semantics: each interpreter owns its own value model so that the N interpreters stay independent.
package xrt

import (
	"fmt"
	"sort"
)

// Binding identifies a resource by WGSL @group/@binding.
type Binding struct{ Group, Binding uint32 }

func (b Binding) String() string { return fmt.Sprintf("g%db%d", b.Group, b.Binding) }

// Buffers holds the raw bytes of every storage/uniform buffer, keyed by WGSL binding.
// Interpreters read and write these bytes in place using the layout that the *emitted code*
// implies (decorations, byte offsets, struct declarations), never the WGSL layout.
type Buffers map[Binding][]byte

// Clone deep-copies b.
func (b Buffers) Clone() Buffers {
	o := make(Buffers, len(b))
	for k, v := range b {
		o[k] = append([]byte(nil), v...)
	}
	return o
}

// Keys returns the bindings in ascending order.
func (b Buffers) Keys() []Binding {
	ks := make([]Binding, 0, len(b))
	for k := range b {
		ks = append(ks, k)
	}
	sort.Slice(ks, func(i, j int) bool {
		if ks[i].Group != ks[j].Group {
			return ks[i].Group < ks[j].Group
		}
		return ks[i].Binding < ks[j].Binding
	})
	return ks
}

// Access is one buffer access made by the executed code (the C07/C15 observation).
type Access struct {
	B     Binding
	Off   int // byte offset inside the buffer
	Len   int // bytes touched
	Write bool
}

// Opts configures one execution.
type Opts struct {
	// EntryPoint is the WGSL entry-point name (interpreters map it to the emitted name themselves
	// or take the emitted name; see each package). Empty = the only / first compute entry point.
	EntryPoint string
	// NumWorkgroups is the dispatch size; zero value means (1,1,1).
	NumWorkgroups [3]uint32
	// StepLimit bounds the number of executed instructions/statements+expressions; 0 = 1e6.
	// Exceeding it returns *StepLimit (reported as non-termination by the checks).
	StepLimit int64
	// Trace, when non-nil, receives every buffer access in execution order.
	Trace *[]Access
	// PoisonLocals: when true, private/function/workgroup variables that the emitted code does not
	// initialise start as poison (observable use = *Trap). When false they start as zero bytes.
	PoisonLocals bool
}

func (o Opts) Steps() int64 {
	if o.StepLimit <= 0 {
		return 1_000_000
	}
	return o.StepLimit
}

func (o Opts) Groups() [3]uint32 {
	g := o.NumWorkgroups
	for i := range g {
		if g[i] == 0 {
			g[i] = 1
		}
	}
	return g
}

// Trap: the executed code performed an operation its target language leaves undefined
// (signed overflow in C++, division by zero, shift >= width, out-of-range float->int, access
// outside the addressed object, observable use of poison...). Kind is a short stable tag such as
// "div0", "sdiv-overflow", "shift-range", "f2i-range", "oob-read", "oob-write", "poison",
// "signed-overflow".
type Trap struct {
	Kind   string
	Detail string
}

func (t *Trap) Error() string { return "trap[" + t.Kind + "]: " + t.Detail }

// Unsupported: the interpreter met a construct outside the subset it implements. Checks count
// these as skipped, never as violations.
type Unsupported struct{ What string }

func (u *Unsupported) Error() string { return "unsupported: " + u.What }

// StepLimit: the step budget was exhausted.
type StepLimit struct{ Steps int64 }

func (s *StepLimit) Error() string { return fmt.Sprintf("step limit %d exceeded", s.Steps) }

// Malformed: the emitted code is not well-formed for its language as far as the interpreter can
// tell (parse error, unknown identifier, type mismatch the target language would reject).
type Malformed struct{ What string }

func (m *Malformed) Error() string { return "malformed: " + m.What }
