#!/usr/bin/env python3
"""Authoring aid (never used by a registered command): turn the violation keys of a C14 run on the
UNCHANGED tree into the pattern lists of kf_c14_keys.json.

usage:  VERIF_ROOT=$PWD VERIF_PRINT_KEYS=1 ./bin/vcheck run C14 --tier quick > /scratch/.../c14.log
        python3 tools/c14keys.py /scratch/.../c14.log        (writes kf_c14_keys.json; then python3 kf.py)

Every key is assigned to a finding (mechanism x sub-space) by the rules in mechanism(); the keys of a
finding are then compacted: `C14|part|route|<class prefix>*|failure` replaces the individual keys only when
EVERY construct class of the sub-space with that prefix fails in that way on that route (the universe of
classes is printed by the check as CLASS lines), so a pattern never covers a class that passes today.
Each triaged class of failure was inspected on samples before being listed (see DESIGN / the builder report).
"""
import json, re, sys, collections

log = sys.argv[1]
keys = {}
universe = collections.defaultdict(set)
for l in open(log):
    m = re.match(r'KEY\s+(\d+)\s+(.*)', l.rstrip('\n'))
    if m:
        keys[m.group(2)] = int(m.group(1))
        continue
    m = re.match(r'CLASS (\S+) (.*)', l.rstrip('\n'))
    if m:
        universe[m.group(1)].add(m.group(2))

ROUTES_PO_TEXT = ("ProcessOverrides+ir", "ProcessOverrides+hlsl", "ProcessOverrides+msl", "ProcessOverrides+glsl")


def parse(key):
    p = key.split('|')
    part = p[1]
    if part == 'sizes':
        return None
    if p[-1].startswith('caller-module-modified:'):
        return dict(part=part, route=p[2], cls=None, fail=p[-1])
    return dict(part=part, route=p[2], cls='|'.join(p[3:-1]), fail=p[-1])


def mechanism(k):
    part, route, fail = k['part'], k['route'], k['fail']
    if fail.startswith('caller-module-modified:'):
        return 'caller'
    if part == 'hist':
        return 'history'
    if route == 'glsl.PipelineConstants':
        return 'glslpc'
    if route == 'msl.PipelineConstants':
        return 'mslpc'
    if route == 'ProcessOverrides+spirv':
        if fail.startswith('naga-error:err:override'):
            return 'derived'
        return 'spirv'
    if route in ROUTES_PO_TEXT:
        if fail.startswith('exec:malformed-output') or fail.startswith('exec:non-termination'):
            return 'nested'
        return 'derived'
    return 'other'


groups = collections.defaultdict(dict)  # (mechanism, part) -> key -> parsed
unassigned = []
# a failure shown identically by all five ProcessOverrides routes is one defect of the resolution pass: one
# pattern with the route wild-carded (ProcessOverrides+*)
PO5 = ROUTES_PO_TEXT + ("ProcessOverrides+spirv",)
parsed = {key: parse(key) for key in keys}
byCF = collections.defaultdict(dict)
for key, k in parsed.items():
    if k and k['cls'] is not None and k['route'] in PO5:
        byCF[(k['part'], k['cls'], k['fail'])][k['route']] = key
merged = {}
for (part, cls, fail), rk in byCF.items():
    if len(rk) == 5:
        for key in rk.values():
            merged[key] = True
        nk = "C14|%s|ProcessOverrides+*|%s|%s" % (part, cls, fail)
        k = dict(part=part, route="ProcessOverrides+*", cls=cls, fail=fail)
        groups[(mechanism(dict(k, route="ProcessOverrides+hlsl")), part)][nk] = k
for key in keys:
    if key in merged:
        continue
    k = parsed[key]
    if k is None:
        continue
    mech = mechanism(k)
    if mech == 'other':
        unassigned.append(key)
        continue
    groups[(mech, k['part'])][key] = k

if unassigned:
    print("UNASSIGNED keys (not written):")
    for u in unassigned[:20]:
        print("  ", u)


def compact(part, items):
    """items: key -> parsed. Returns a list of patterns equivalent to the key set on today's universe."""
    out = []
    by = collections.defaultdict(set)  # (route, fail) -> classes
    for key, k in items.items():
        if k['cls'] is None:
            out.append(key)
            continue
        by[(k['route'], k['fail'])].add(k['cls'])
    uni = universe.get(part, set())
    for (route, fail), classes in sorted(by.items()):
        covered = set()
        if part != 'hist' and uni:
            # candidate prefixes: "", then every path prefix ending in "/"
            prefixes = {""}
            for c in classes:
                comps = c.split('/')
                for i in range(1, len(comps)):
                    prefixes.add('/'.join(comps[:i]) + '/')
            for pre in sorted(prefixes, key=lambda s: (s.count('/'), s)):
                sub = {c for c in uni if c.startswith(pre)}
                if len(sub) < 3 or not sub <= classes:
                    continue
                if sub <= covered:
                    continue
                out.append("C14|%s|%s|%s*|%s" % (part, route, pre, fail))
                covered |= sub
        for c in sorted(classes - covered):
            out.append("C14|%s|%s|%s|%s" % (part, route, c, fail))
    return sorted(set(out))


result = {}
total = 0
for (mech, part), items in sorted(groups.items()):
    pats = compact(part, items)
    result["%s|%s" % (mech, part)] = pats
    total += len(pats)
    print("%-10s %-6s keys=%5d patterns=%5d" % (mech, part, len(items), len(pats)))

# self-check: every key matched by its group's patterns, and by no pattern of another group


def glob(pat, s):
    if '*' not in pat:
        return pat == s
    parts = pat.split('*')
    if not s.startswith(parts[0]):
        return False
    s = s[len(parts[0]):]
    for i in range(1, len(parts)):
        p = parts[i]
        if i == len(parts) - 1:
            return s.endswith(p)
        j = s.find(p)
        if j < 0:
            return False
        s = s[j + len(p):]
    return True


bad = 0
allp = [p for ps in result.values() for p in ps]
exact = {p for p in allp if '*' not in p}
wild = collections.defaultdict(list)
for p in allp:
    if '*' in p:
        wild[p.split('|')[1]].append(p)
for key in keys:
    if parsed[key] is None:
        continue
    if key in exact or any(glob(p, key) for p in wild[key.split('|')[1]]):
        continue
    bad += 1
    print("NOT COVERED", key)
print("patterns total", total, "uncovered", bad)
json.dump(result, open("kf_c14_keys.json", "w"), indent=0, sort_keys=True)
