#!/bin/bash
# Authoring aid: run the committed quick checks against every kept seeded change (P jobs in parallel) and refresh seeded/*/meta.json.
# usage: tools/seedsweep.sh [P] [filter-regex]
P=${1:-4}; F=${2:-.}
cd "$(dirname "$0")/.." || exit 2
extra() { case "$1" in C04-m1) echo C07;; C04-m2) echo C15;; C04-m3) echo C14;; C06-m1) echo C14;; C09-m1) echo C17;; C15-m3) echo C12;; C02-m1) echo C12;; C17-m1) echo C09;;
  C01-m4) echo C06;; C01-m5) echo C12 C15;; C01-m6) echo C15 C02;; C02-m5) echo C07;; C03-m4) echo C07;; C03-m5) echo C17;; C03-m6) echo C16;; C04-m5) echo C17;;
  C05-m5) echo C15;; C05-m6) echo C14;; C08-m6) echo C19;; C09-m4) echo C19;; C09-m6) echo C08;; C10-m5) echo C14;; C12-m4) echo C14;; C12-m7) echo C18;; C13-m6) echo C06 C09;;
  C17-m4) echo C12 C02;; C17-m5) echo C03;; C19-m4) echo C09;; esac; }
for d in seeded/*/; do
  id=$(basename "$d"); echo "$id" | grep -Eq "$F" || continue
  if [ -n "${SKIP_REPORTED:-}" ] && python3 -c "import json,sys; m=json.load(open('$d/meta.json')); sys.exit(0 if any(x.get('detected') for x in m.get('detection',[])) or m.get('not_demanded') else 1)"; then continue; fi
  pid=${id%%-*}; n=${id##*-m}
  mkdir -p /tmp/seed/$pid/OUT
  [ -f /tmp/seed/$pid/OUT/m$n.diff ] || { cp "$d/patch.diff" /tmp/seed/$pid/OUT/m$n.diff; rm -rf /tmp/seed/$pid/OUT/m$n.demo; cp -r "$d/demo" /tmp/seed/$pid/OUT/m$n.demo; python3 - "$d" /tmp/seed/$pid/OUT/m$n <<'PY'
import json,sys
m=json.load(open(sys.argv[1]+"/meta.json")); open(sys.argv[2]+".md","w").write(m.get("description",""))
v=dict(m.get("validation",{})); v["valid"]=True; json.dump(v,open(sys.argv[2]+".val.json","w"))
PY
  }
  echo "$pid $n $pid $(extra $id)" | sed "s/ *$//"
done | xargs -P "$P" -L 1 sh -c 'python3 tools/seedval.py detect $0 $1 $2 $3 > /scratch/logs/sweep-$0-m$1.json 2>&1; python3 tools/seedval.py keep $0 $1 > /dev/null; echo "done $0-m$1"'
