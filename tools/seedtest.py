#!/usr/bin/env python3
"""Authoring aid (never run by a registered command): validate an independently written
property-breaking change and run the property's check against it.

usage: seedtest.py validate <Cxx> <n> <demo_src> <demo_dest_rel> -- <demo command...>
       seedtest.py detect   <Cxx> <diff> [tier]
       seedtest.py keep     <Cxx> <n> <name>   (copies OUT/m<n>.* into /verif/seeded/<name>/)
"""
import json, os, shutil, subprocess, sys, time

ENV = dict(os.environ, GOFLAGS="-mod=mod", GOPROXY="off")


def sh(cmd, cwd=None, timeout=1800):
    p = subprocess.run(cmd, shell=True, cwd=cwd, env=ENV, capture_output=True, text=True, timeout=timeout)
    return p.returncode, (p.stdout + p.stderr)


def validate(pid, n, demo_src, demo_dest, demo_cmd):
    wt = f"/tmp/val/{pid}m{n}"
    sh(f"git -C /repo worktree remove --force {wt}")
    os.makedirs("/tmp/val", exist_ok=True)
    rc, out = sh(f"git -C /repo worktree add -q --detach {wt} HEAD")
    assert rc == 0, out
    res = {}
    try:
        diff = f"/tmp/seed/{pid}/OUT/m{n}.diff"
        rc, out = sh(f"git apply {diff}", cwd=wt)
        res["applies"] = rc == 0
        if rc != 0:
            res["apply_output"] = out[-500:]
            return res
        rc, out = sh("go build ./...", cwd=wt)
        res["builds"] = rc == 0
        rc, out = sh("go test -vet=off -count=1 ./... 2>&1 | grep -v '^ok\\|no test files' | head -20", cwd=wt)
        res["suite_passes_with_change"] = out.strip() == ""
        if out.strip():
            res["suite_output"] = out[-800:]
        dest = os.path.join(wt, demo_dest)
        os.makedirs(os.path.dirname(dest), exist_ok=True)
        shutil.copy(demo_src, dest)
        rc, out = sh(demo_cmd, cwd=wt)
        res["demo_fails_with_change"] = rc != 0
        res["demo_output_with_change"] = out[-600:]
        sh(f"git apply -R {diff}", cwd=wt)
        rc, out = sh(demo_cmd, cwd=wt)
        res["demo_passes_without_change"] = rc == 0
        if rc != 0:
            res["demo_output_without_change"] = out[-600:]
    finally:
        sh(f"git -C /repo worktree remove --force {wt}")
    return res


def detect(pid, diff, tier="quick"):
    rc, out = sh("git -C /repo status --porcelain")
    assert out.strip() == "", "/repo not clean: " + out
    rc, out = sh(f"git -C /repo apply {diff}")
    assert rc == 0, out
    t0 = time.time()
    try:
        rc, out = sh(f"./run.sh {pid} {tier}", cwd="/verif", timeout=3600)
    finally:
        sh("git -C /repo checkout -- .")
    viol = [l for l in out.splitlines() if l.startswith("VIOLATION")]
    keys = [l.strip() for l in out.splitlines() if l.strip().startswith("key:")]
    return {"check": pid, "tier": tier, "exit": rc, "violations": len(viol), "first_keys": keys[:4], "summary": out.strip().splitlines()[-1][:300] if out.strip() else "", "wall_s": round(time.time() - t0, 1)}


if __name__ == "__main__":
    if sys.argv[1] == "validate":
        i = sys.argv.index("--")
        print(json.dumps(validate(sys.argv[2], sys.argv[3], sys.argv[4], sys.argv[5], " ".join(sys.argv[i + 1:])), indent=1))
    elif sys.argv[1] == "detect":
        print(json.dumps(detect(sys.argv[2], sys.argv[3], sys.argv[4] if len(sys.argv) > 4 else "quick"), indent=1))
