#!/usr/bin/env python3
"""Authoring aid: validate + detect every delivered seeded change of one property, print a summary.
usage: seedall.py <Cxx> [check ...]   (checks default to the property itself)"""
import json, os, subprocess, sys, glob
pid = sys.argv[1]; checks = sys.argv[2:] or [pid]
here = os.path.dirname(os.path.abspath(__file__))
ns = sorted(int(os.path.basename(f)[1:-5]) for f in glob.glob(f"/tmp/seed/{pid}/OUT/m*.diff"))
for n in ns:
    vj = f"/tmp/seed/{pid}/OUT/m{n}.val.json"
    if not os.path.exists(vj):
        subprocess.run([sys.executable, f"{here}/seedval.py", "validate", pid, str(n)], capture_output=True)
    v = json.load(open(vj))
    print(f"{pid} m{n} valid={v.get('valid')}", {k: v.get(k) for k in ("applies","builds","suite_passes_with_change","demo_fails_with_change","demo_passes_without_change") if not v.get(k)}, flush=True)
    if not v.get("valid"):
        continue
    r = subprocess.run([sys.executable, f"{here}/seedval.py", "detect", pid, str(n)] + checks, capture_output=True, text=True)
    try:
        for d in json.loads(r.stdout):
            print(f"   {d['check']} detected={d['detected']} exit={d['exit']} wall={d['wall_s']}", flush=True)
            for l in d.get("keys", [])[:5]:
                print("      key " + l[:220])
    except Exception as e:
        print("   detect output unparsable", e, r.stdout[-500:], r.stderr[-500:])
