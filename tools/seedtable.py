#!/usr/bin/env python3
"""Authoring aid: print the DESIGN.md §9.6 table from seeded/*/meta.json."""
import json, glob, os, re
rows = []
for d in sorted(glob.glob(os.path.join(os.path.dirname(os.path.dirname(os.path.abspath(__file__))), "seeded", "*"))):
    m = json.load(open(os.path.join(d, "meta.json")))
    desc = m.get("description", "").strip().splitlines()
    title = next((l for l in desc if l.strip()), "").lstrip("# ").strip()
    title = re.sub(r"^m\d+\s*[—:-]\s*", "", title)[:110]
    det = [x for x in m.get("detection", []) if x.get("detected")]
    miss = [x for x in m.get("detection", []) if not x.get("detected")]
    if det:
        by = "; ".join(sorted({f"{x['check']} {x['tier']}" for x in det}))
        key = (det[0].get("violation_keys") or [""])[0][:90].replace("|", "\\|")
        res = f"**reported** by {by} (`{key}`)"
    elif m.get("not_demanded"):
        res = "not demanded: " + m["not_demanded"]
    else:
        res = "missed by " + ", ".join(sorted({x['check'] for x in miss})) if miss else "not yet run"
    rows.append(f"| {os.path.basename(d)} | {title.replace('|', '/')} | {res} |")
print("| change | what it does | result |\n|---|---|---|")
print("\n".join(rows))
