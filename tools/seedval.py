#!/usr/bin/env python3
"""Authoring aid (never run by a registered command): validate an independently written
property-breaking change delivered as /tmp/seed/<Cxx>/OUT/m<n>.{diff,demo/,md}, run checks against
it in a scratch copy (tools/detect.sh), and file it under /verif/seeded/.

usage: seedval.py validate <Cxx> <n>
       seedval.py detect   <Cxx> <n> [check ...] [--tier quick|thorough]
       seedval.py keep     <Cxx> <n>
"""
import json, os, shutil, subprocess, sys, time

ENV = dict(os.environ, GOFLAGS="-mod=mod", GOPROXY="off", DETECT_COMMITTED=os.environ.get("DETECT_COMMITTED", "1"))
SEED = "/tmp/seed"


def sh(cmd, cwd=None, timeout=3600):
    p = subprocess.run(cmd, shell=True, cwd=cwd, env=ENV, capture_output=True, text=True, timeout=timeout)
    return p.returncode, (p.stdout + p.stderr)


def paths(pid, n):
    out = f"{SEED}/{pid}/OUT"
    return out, f"{out}/m{n}.diff", f"{out}/m{n}.demo", f"{out}/m{n}.md"


def validate(pid, n):
    out, diff, demo, _ = paths(pid, n)
    wt = f"/scratch/val/{pid}m{n}"
    sh(f"git -C /repo worktree remove --force {wt}")
    os.makedirs("/scratch/val", exist_ok=True)
    rc, o = sh(f"git -C /repo worktree add -q --detach {wt} HEAD")
    assert rc == 0, o
    res = {"property": pid, "n": n}
    try:
        where = open(f"{demo}/WHERE").read().strip()
        cmd = open(f"{demo}/CMD").read().strip()
        res["demo_where"], res["demo_cmd"] = where, cmd
        rc, o = sh(f"git apply {diff}", cwd=wt)
        res["applies"] = rc == 0
        if rc != 0:
            res["apply_output"] = o[-500:]
            return res
        rc, o = sh("git diff --stat | tail -1", cwd=wt)
        res["diffstat"] = o.strip()
        rc, o = sh("git diff --name-only", cwd=wt)
        res["touches_tests_or_testdata"] = any(f.endswith("_test.go") or "testdata" in f for f in o.split())
        rc, o = sh("go build ./...", cwd=wt)
        res["builds"] = rc == 0
        rc, o = sh("go test -vet=off -count=1 ./... 2>&1 | grep -v '^ok\\|no test files' | head -20", cwd=wt)
        res["suite_passes_with_change"] = o.strip() == ""
        if o.strip():
            res["suite_output"] = o[-800:]
        # copy demo files (everything except WHERE/CMD); WHERE names the destination of the single/primary file
        files = [f for f in sorted(os.listdir(demo)) if f not in ("WHERE", "CMD")]
        dest = os.path.join(wt, where)
        if len(files) == 1 and not os.path.isdir(os.path.join(demo, files[0])):
            os.makedirs(os.path.dirname(dest), exist_ok=True)
            shutil.copy(os.path.join(demo, files[0]), dest)
        else:
            # WHERE is a directory (or the path of the primary file): copy all into its directory
            d = dest if not os.path.splitext(dest)[1] else os.path.dirname(dest)
            os.makedirs(d, exist_ok=True)
            for f in files:
                s = os.path.join(demo, f)
                if os.path.isdir(s):
                    shutil.copytree(s, os.path.join(d, f), dirs_exist_ok=True)
                else:
                    shutil.copy(s, os.path.join(d, f))
        rc, o = sh(cmd, cwd=wt, timeout=900)
        res["demo_fails_with_change"] = rc != 0
        res["demo_output_with_change"] = o[-700:]
        sh(f"git apply -R {diff}", cwd=wt)
        rc, o = sh(cmd, cwd=wt, timeout=900)
        res["demo_passes_without_change"] = rc == 0
        if rc != 0:
            res["demo_output_without_change"] = o[-700:]
        res["valid"] = all(res.get(k) for k in ("applies", "builds", "suite_passes_with_change", "demo_fails_with_change", "demo_passes_without_change")) and not res["touches_tests_or_testdata"]
    finally:
        sh(f"git -C /repo worktree remove --force {wt}")
        json.dump(res, open(f"{out}/m{n}.val.json", "w"), indent=1)
    return res


def detect(pid, n, checks, tier):
    out, diff, _, _ = paths(pid, n)
    results = []
    for c in checks:
        t0 = time.time()
        rc, o = sh(f"/verif/tools/detect.sh {c} {diff} {tier} {pid}m{n}{c}", timeout=7200)
        lines = o.strip().splitlines()
        viol = [l for l in lines if l.startswith("VIOLATION") or (l.startswith("violations=") and l != "violations=0")]
        results.append({"check": c, "tier": tier, "exit": rc, "detected": rc == 1 and bool(viol), "keys": [l.strip()[5:] for l in lines if l.startswith("   key: ")], "lines": [l[:260] for l in lines[:8]], "wall_s": round(time.time() - t0, 1)})
    p = f"{out}/m{n}.det.json"
    old = json.load(open(p)) if os.path.exists(p) else []
    old = [r for r in old if not any(r["check"] == x["check"] and r["tier"] == x["tier"] for x in results)] + results
    json.dump(old, open(p, "w"), indent=1)
    return results


def keep(pid, n):
    out, diff, demo, md = paths(pid, n)
    d = f"/verif/seeded/{pid}-m{n}"
    os.makedirs(d, exist_ok=True)
    shutil.copy(diff, f"{d}/patch.diff")
    if os.path.isdir(f"{d}/demo"):
        shutil.rmtree(f"{d}/demo")
    shutil.copytree(demo, f"{d}/demo")
    val = json.load(open(f"{out}/m{n}.val.json"))
    det = json.load(open(f"{out}/m{n}.det.json")) if os.path.exists(f"{out}/m{n}.det.json") else []
    meta = {
        "property": pid,
        "origin": "independent sub-agent given only the property text and a scratch worktree",
        "description": open(md).read() if os.path.exists(md) else "",
        "validation": {k: val.get(k) for k in ("applies", "builds", "suite_passes_with_change", "demo_fails_with_change", "demo_passes_without_change", "demo_where", "demo_cmd", "diffstat")},
        "what_was_run": "scratch worktree of /repo HEAD: git apply patch.diff; go build ./...; go test -vet=off -count=1 ./... (all ok); demo copied to demo_where and demo_cmd run (fails); git apply -R; demo_cmd run again (passes); worktree removed",
        "detection": [{k: r[k] for k in ("check", "tier", "detected", "exit", "wall_s")} | {"violation_keys": r.get("keys", [])[:6]} for r in det],
    }
    try:  # keep hand-written fields of an existing meta.json
        old = json.load(open(f"{d}/meta.json"))
        for k in ("note", "not_demanded", "needs"):
            if k in old:
                meta[k] = old[k]
    except Exception:
        pass
    if not meta["description"] and "old" in dir() and isinstance(old, dict):
        meta["description"] = old.get("description", "")
    json.dump(meta, open(f"{d}/meta.json", "w"), indent=1)
    print("kept", d)


if __name__ == "__main__":
    a = sys.argv
    if a[1] == "validate":
        print(json.dumps(validate(a[2], a[3]), indent=1))
    elif a[1] == "detect":
        tier = "quick"
        rest = a[4:]
        if "--tier" in rest:
            i = rest.index("--tier")
            tier = rest[i + 1]
            rest = rest[:i] + rest[i + 2:]
        print(json.dumps(detect(a[2], a[3], rest or [a[2]], tier), indent=1))
    elif a[1] == "keep":
        keep(a[2], a[3])
