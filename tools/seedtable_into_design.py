#!/usr/bin/env python3
"""Authoring aid: regenerate the table of DESIGN.md 9.6 from seeded/*/meta.json."""
import subprocess, os, re
root = os.path.dirname(os.path.dirname(os.path.abspath(__file__)))
tab = subprocess.run(["python3", os.path.join(root, "tools", "seedtable.py")], capture_output=True, text=True).stdout.strip()
n_rep = tab.count("**reported**"); n_all = tab.count("\n") - 1
p = os.path.join(root, "DESIGN.md")
s = open(p).read()
head = f"{n_rep} of {n_all} kept changes are reported by the quick tier of a registered check; the others are explained in the table.\n\n"
s = re.sub(r"<!-- SEEDTABLE-BEGIN -->.*?<!-- SEEDTABLE-END -->", "<!-- SEEDTABLE-BEGIN -->\n" + head + tab.replace("\\", "\\\\") + "\n<!-- SEEDTABLE-END -->", s, flags=re.S)
open(p, "w").write(s)
print(n_rep, n_all)
