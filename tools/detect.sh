#!/bin/sh
# Authoring aid (never used by a registered command): run one check against a patched scratch copy of naga,
# without touching /repo, so that several detections can run side by side.
# usage: tools/detect.sh <Cxx> <diff> [tier] [tag]
# Prints the tail of the check's output; exit status is the check's.
set -u
C="$1"; DIFF="$(readlink -f "$2")"; TIER="${3:-quick}"; TAG="${4:-$$}"
SRC="$(cd "$(dirname "$0")/.." && pwd)"   # the harness checkout this script belongs to (main or a builder worktree)
R=/scratch/dt/r-$TAG; V=/scratch/dt/v-$TAG
mkdir -p /scratch/dt
git -C /repo worktree remove --force "$R" >/dev/null 2>&1
rm -rf "$V"
git -C /repo worktree add -q --detach "$R" HEAD || exit 3
cleanup() { git -C /repo worktree remove --force "$R" >/dev/null 2>&1; rm -rf "$V"; }
trap cleanup EXIT
( cd "$R" && git apply "$DIFF" ) || { echo "DETECT: patch does not apply"; exit 3; }
mkdir -p "$V"
if [ -n "${DETECT_COMMITTED:-}" ]; then   # the committed harness (HEAD), not the working tree
  ( cd "$SRC" && git archive HEAD | tar -x -C "$V" )
else
  ( cd "$SRC" && git ls-files -z --cached --others --exclude-standard | rsync -a --from0 --files-from=- ./ "$V"/ )
fi
sed -i "s#=> /repo#=> $R#" "$V/go.mod"
cd "$V" || exit 3
export VERIF_REPO="$R" VERIF_ROOT="$V"
./run.sh "$C" "$TIER" > "$V/out.log" 2>&1
rc=$?
grep -c '^VIOLATION' "$V/out.log" | sed 's/^/violations=/'
grep '^   key: ' "$V/out.log" | cut -c1-300 | head -${DETECT_LINES:-12}
grep '^VIOLATION\|HARNESS' "$V/out.log" | cut -c1-260 | head -3
tail -3 "$V/out.log" | cut -c1-300
echo "DETECT: check=$C tier=$TIER exit=$rc"
exit $rc
