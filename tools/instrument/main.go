// Command instrument writes the C12 build overlay for a naga tree.
//
//	go run ./tools/instrument [-repo /repo] [-rt /verif/internal/verifrt] [-base mutant-overlay.json] -out DIR
//
// Prints the statistics (JSON) on stdout; DIR/overlay.json is usable as `go build -overlay`.
package main

import (
	"encoding/json"
	"flag"
	"fmt"
	"os"

	"verif/tools/instrument/instr"
)

func main() {
	repo := flag.String("repo", "/repo", "naga tree (read only)")
	out := flag.String("out", "", "output directory")
	rt := flag.String("rt", "/verif/internal/verifrt", "source directory of the verifrt runtime")
	base := flag.String("base", "", "overlay JSON whose replacements are instrumented instead of the originals")
	flag.Parse()
	if *out == "" {
		fmt.Fprintln(os.Stderr, "instrument: -out is required")
		os.Exit(2)
	}
	cfg := instr.Config{Repo: *repo, Out: *out, RTSrc: *rt}
	if *base != "" {
		m, err := instr.ReadOverlay(*base)
		if err != nil {
			fmt.Fprintln(os.Stderr, "instrument:", err)
			os.Exit(2)
		}
		cfg.BaseOverlay = m
	}
	st, err := instr.Generate(cfg)
	if err != nil {
		fmt.Fprintln(os.Stderr, "instrument:", err)
		os.Exit(2)
	}
	b, _ := json.MarshalIndent(st, "", " ")
	fmt.Println(string(b))
}
