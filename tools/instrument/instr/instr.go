// Package instr produces the C12 build overlay: instrumented copies of naga's
// non-test Go files (function-entry yields, map-range seams, package-global
// registration) plus the virtual package github.com/gogpu/naga/verifrt.
// The naga tree itself is never written.
package instr

import (
	"bytes"
	"crypto/sha256"
	"encoding/hex"
	"encoding/json"
	"fmt"
	"go/ast"
	"go/build"
	"go/importer"
	"go/parser"
	"go/token"
	"go/types"
	"os"
	"path/filepath"
	"sort"
	"strconv"
	"strings"
)

const (
	ModPath    = "github.com/gogpu/naga"
	RTPath     = ModPath + "/verifrt"
	genFile    = "zz_verifrt_globals.go"
	rtName     = "verifrt"
	instrMajor = "instr-v5"
)

// DefaultRoots are the package trees (relative to the naga root) that get instrumented.
var DefaultRoots = []string{".", "spirv", "hlsl", "msl", "glsl", "dxil", "ir", "wgsl", "internal"}

type Config struct {
	Repo        string            // naga tree (default /repo)
	Out         string            // output directory
	RTSrc       string            // directory holding verifrt's source
	Roots       []string          // package trees; nil = DefaultRoots
	BaseOverlay map[string]string // original path -> replacement (mutants); instrumented as modified
}

type RangeSite struct {
	ID      string `json:"id"`  // stable across unrelated edits: pkg.Func[#k] (k-th map range of the function, when it has several)
	Pos     string `json:"pos"` // relpath/file.go:line
	Func    string `json:"func"`
	KeyType string `json:"key_type"`
}

type Stats struct {
	Packages       int         `json:"packages"`
	Files          int         `json:"files"`
	YieldSites     int         `json:"yield_sites"`
	RangeSites     []RangeSite `json:"range_sites"`
	Globals        int         `json:"globals"`
	GlobalsRO      int         `json:"globals_statically_read_only"`
	Uninstrumented []string    `json:"uninstrumented,omitempty"` // map walks the rewriter could not put behind the seam
	InputHash      string      `json:"input_hash"`
	Cached         bool        `json:"cached"`
	Overlay        string      `json:"overlay"`
}

type overlayJSON struct {
	Replace map[string]string `json:"Replace"`
}

type pkgSrc struct {
	dir   string // absolute
	rel   string // relative to repo ("." for root)
	ipath string
	files []string // absolute original paths, sorted
}

type loader struct {
	cfg  Config
	fset *token.FileSet
	srcs map[string]*pkgSrc // by import path
	done map[string]*checked
	std  types.Importer
	ro   map[string]bool // "importpath.name" of package-level vars classified read-only
}

type checked struct {
	pkg   *types.Package
	info  *types.Info
	files []*ast.File
	srcs  [][]byte
}

func (l *loader) read(path string) ([]byte, error) {
	if r, ok := l.cfg.BaseOverlay[path]; ok {
		return os.ReadFile(r)
	}
	return os.ReadFile(path)
}

func (l *loader) Import(path string) (*types.Package, error) {
	if path == RTPath {
		return nil, fmt.Errorf("naga already imports %s", RTPath)
	}
	if path == ModPath || strings.HasPrefix(path, ModPath+"/") {
		c, err := l.load(path)
		if err != nil {
			return nil, err
		}
		return c.pkg, nil
	}
	return l.std.Import(path)
}

func (l *loader) load(ipath string) (*checked, error) {
	if c, ok := l.done[ipath]; ok {
		if c == nil {
			return nil, fmt.Errorf("import cycle through %s", ipath)
		}
		return c, nil
	}
	src, ok := l.srcs[ipath]
	if !ok {
		// A naga package outside the instrumented roots (e.g. snapshot, cmd): load it plainly.
		rel := strings.TrimPrefix(strings.TrimPrefix(ipath, ModPath), "/")
		if rel == "" {
			rel = "."
		}
		s, err := l.scanDir(filepath.Join(l.cfg.Repo, rel), rel)
		if err != nil || s == nil {
			return nil, fmt.Errorf("cannot find package %s: %v", ipath, err)
		}
		src = s
	}
	l.done[ipath] = nil
	c := &checked{info: &types.Info{
		Types: map[ast.Expr]types.TypeAndValue{},
		Defs:  map[*ast.Ident]types.Object{},
		Uses:  map[*ast.Ident]types.Object{},
	}}
	for _, f := range src.files {
		b, err := l.read(f)
		if err != nil {
			return nil, err
		}
		af, err := parser.ParseFile(l.fset, f, b, parser.ParseComments|parser.SkipObjectResolution)
		if err != nil {
			return nil, err
		}
		c.files = append(c.files, af)
		c.srcs = append(c.srcs, b)
	}
	var firstErr error
	tc := types.Config{Importer: l, Error: func(err error) {
		if firstErr == nil {
			firstErr = err
		}
	}}
	pkg, _ := tc.Check(ipath, l.fset, c.files, c.info)
	if firstErr != nil {
		return nil, fmt.Errorf("type-check %s: %v", ipath, firstErr)
	}
	c.pkg = pkg
	l.done[ipath] = c
	return c, nil
}

// scanDir lists the non-test files of dir that build on linux/amd64.
func (l *loader) scanDir(dir, rel string) (*pkgSrc, error) {
	ctx := build.Default
	ctx.GOOS, ctx.GOARCH, ctx.CgoEnabled = "linux", "amd64", false
	ctx.BuildTags = nil
	bp, err := ctx.ImportDir(dir, 0)
	if err != nil {
		if _, ok := err.(*build.NoGoError); ok {
			return nil, nil
		}
		return nil, err
	}
	if len(bp.GoFiles) == 0 {
		return nil, nil
	}
	ip := ModPath
	if rel != "." {
		ip += "/" + filepath.ToSlash(rel)
	}
	s := &pkgSrc{dir: dir, rel: filepath.ToSlash(rel), ipath: ip}
	for _, f := range bp.GoFiles {
		if f == genFile {
			return nil, fmt.Errorf("%s already exists in %s", genFile, dir)
		}
		s.files = append(s.files, filepath.Join(dir, f))
	}
	sort.Strings(s.files)
	return s, nil
}

func (l *loader) discover() error {
	roots := l.cfg.Roots
	if roots == nil {
		roots = DefaultRoots
	}
	for _, r := range roots {
		root := filepath.Join(l.cfg.Repo, r)
		if r == "." {
			s, err := l.scanDir(root, ".")
			if err != nil {
				return err
			}
			if s != nil {
				l.srcs[s.ipath] = s
			}
			continue
		}
		err := filepath.WalkDir(root, func(p string, d os.DirEntry, err error) error {
			if err != nil {
				return err
			}
			if !d.IsDir() {
				return nil
			}
			if n := d.Name(); n == "testdata" || strings.HasPrefix(n, ".") || strings.HasPrefix(n, "_") {
				return filepath.SkipDir
			}
			rel, _ := filepath.Rel(l.cfg.Repo, p)
			s, err := l.scanDir(p, rel)
			if err != nil {
				return err
			}
			if s != nil {
				l.srcs[s.ipath] = s
			}
			return nil
		})
		if err != nil {
			return err
		}
	}
	return nil
}

type edit struct {
	off int
	ins string
}

// Generate writes the overlay and returns its statistics. When the inputs
// (all source bytes + runtime source + this rewriter's version) hash to the
// value stamped in cfg.Out, the existing overlay is reused.
func Generate(cfg Config) (*Stats, error) {
	if cfg.Repo == "" {
		cfg.Repo = "/repo"
	}
	var err error
	if cfg.Repo, err = filepath.Abs(cfg.Repo); err != nil {
		return nil, err
	}
	if cfg.Out, err = filepath.Abs(cfg.Out); err != nil {
		return nil, err
	}
	if cfg.RTSrc, err = filepath.Abs(cfg.RTSrc); err != nil {
		return nil, err
	}
	if _, err := os.Stat(filepath.Join(cfg.Repo, rtName)); err == nil {
		return nil, fmt.Errorf("%s/%s exists: the virtual package path is taken", cfg.Repo, rtName)
	}
	l := &loader{cfg: cfg, fset: token.NewFileSet(), srcs: map[string]*pkgSrc{}, done: map[string]*checked{}}
	if err := l.discover(); err != nil {
		return nil, err
	}
	rtFiles, err := filepath.Glob(filepath.Join(cfg.RTSrc, "*.go"))
	if err != nil {
		return nil, err
	}
	var rt []string
	for _, f := range rtFiles {
		if !strings.HasSuffix(f, "_test.go") {
			rt = append(rt, f)
		}
	}
	sort.Strings(rt)
	if len(rt) == 0 {
		return nil, fmt.Errorf("no runtime source in %s", cfg.RTSrc)
	}

	// Input hash.
	h := sha256.New()
	fmt.Fprintln(h, instrMajor, cfg.Repo, cfg.Out)
	var ipaths []string
	for ip := range l.srcs {
		ipaths = append(ipaths, ip)
	}
	sort.Strings(ipaths)
	for _, ip := range ipaths {
		for _, f := range l.srcs[ip].files {
			b, err := l.read(f)
			if err != nil {
				return nil, err
			}
			fmt.Fprintln(h, f, len(b))
			h.Write(b)
		}
	}
	for _, f := range rt {
		fmt.Fprintln(h, "rt", f)
	}
	sum := hex.EncodeToString(h.Sum(nil))
	statsPath := filepath.Join(cfg.Out, "stats.json")
	ovPath := filepath.Join(cfg.Out, "overlay.json")
	if b, err := os.ReadFile(statsPath); err == nil {
		var old Stats
		if json.Unmarshal(b, &old) == nil && old.InputHash == sum {
			if _, err := os.Stat(ovPath); err == nil {
				old.Cached = true
				return &old, nil
			}
		}
	}

	if err := os.RemoveAll(cfg.Out); err != nil {
		return nil, err
	}
	if err := os.MkdirAll(cfg.Out, 0o755); err != nil {
		return nil, err
	}
	l.std = importer.ForCompiler(l.fset, "source", nil)
	st := &Stats{InputHash: sum, Overlay: ovPath}
	ov := overlayJSON{Replace: map[string]string{}}
	// Mutant replacements of files we do not instrument pass through unchanged.
	for k, v := range cfg.BaseOverlay {
		ov.Replace[k] = v
	}
	for _, ip := range ipaths {
		if _, err := l.load(ip); err != nil {
			return nil, err
		}
	}
	l.ro = l.classifyRO()
	for _, ip := range ipaths {
		src := l.srcs[ip]
		c, err := l.load(ip)
		if err != nil {
			return nil, err
		}
		st.Packages++
		if err := l.rewritePackage(src, c, st, &ov); err != nil {
			return nil, err
		}
	}
	for _, f := range rt {
		ov.Replace[filepath.Join(cfg.Repo, rtName, filepath.Base(f))] = f
	}
	sort.Slice(st.RangeSites, func(i, j int) bool { return st.RangeSites[i].ID < st.RangeSites[j].ID })
	b, _ := json.MarshalIndent(ov, "", " ")
	if err := os.WriteFile(ovPath, b, 0o644); err != nil {
		return nil, err
	}
	b, _ = json.MarshalIndent(st, "", " ")
	if err := os.WriteFile(statsPath, b, 0o644); err != nil {
		return nil, err
	}
	return st, nil
}

func relPkg(src *pkgSrc) string {
	if src.rel == "." {
		return "naga"
	}
	return src.rel
}

func recvName(fd *ast.FuncDecl) string {
	if fd.Recv == nil || len(fd.Recv.List) == 0 {
		return ""
	}
	t := fd.Recv.List[0].Type
	star := false
	if s, ok := t.(*ast.StarExpr); ok {
		star = true
		t = s.X
	}
	switch x := t.(type) {
	case *ast.IndexExpr:
		t = x.X
	case *ast.IndexListExpr:
		t = x.X
	}
	n := "?"
	if id, ok := t.(*ast.Ident); ok {
		n = id.Name
	}
	if star {
		return "(*" + n + ")."
	}
	return n + "."
}

func isMap(t types.Type) (key types.Type, ok bool) {
	if t == nil {
		return nil, false
	}
	if m, ok := t.Underlying().(*types.Map); ok {
		return m.Key(), true
	}
	return nil, false
}

// mapCore reports whether t is a type parameter all of whose type-set members are maps.
func mapCore(t types.Type) bool {
	tp, ok := t.(*types.TypeParam)
	if !ok {
		return false
	}
	iface, ok := tp.Constraint().Underlying().(*types.Interface)
	if !ok {
		return false
	}
	found := false
	for i := 0; i < iface.NumEmbeddeds(); i++ {
		u, ok := iface.EmbeddedType(i).(*types.Union)
		if !ok {
			continue
		}
		for j := 0; j < u.Len(); j++ {
			if _, ok := u.Term(j).Type().Underlying().(*types.Map); ok {
				found = true
			}
		}
	}
	return found
}

func (l *loader) rewritePackage(src *pkgSrc, c *checked, st *Stats, ov *overlayJSON) error {
	if c.pkg.Scope().Lookup(rtName) != nil {
		return fmt.Errorf("%s declares %q at package scope", src.ipath, rtName)
	}
	outDir := filepath.Join(l.cfg.Out, "src", filepath.FromSlash(src.rel))
	if err := os.MkdirAll(outDir, 0o755); err != nil {
		return err
	}
	pkgLabel := relPkg(src)
	var globals []string
	for fi, af := range c.files {
		orig := src.files[fi]
		data := c.srcs[fi]
		tf := l.fset.File(af.Pos())
		off := func(p token.Pos) int { return tf.Offset(p) }
		var edits []edit
		relFile := filepath.ToSlash(filepath.Join(src.rel, filepath.Base(orig)))
		perFunc := map[string]int{}
		for _, imp := range af.Imports {
			if imp.Name != nil && imp.Name.Name == rtName {
				return fmt.Errorf("%s: import named %q", orig, rtName)
			}
			if p, _ := strconv.Unquote(imp.Path.Value); p == "maps" || p == "reflect" {
				st.Uninstrumented = append(st.Uninstrumented, relFile+": imports "+p+" (map walks through it are not behind the seam)")
			}
		}
		for _, d := range af.Decls {
			switch d := d.(type) {
			case *ast.GenDecl:
				if d.Tok != token.VAR {
					continue
				}
				for _, sp := range d.Specs {
					for _, n := range sp.(*ast.ValueSpec).Names {
						if n.Name != "_" {
							globals = append(globals, n.Name)
						}
					}
				}
			case *ast.FuncDecl:
				if d.Body == nil {
					continue
				}
				fname := pkgLabel + "." + recvName(d) + d.Name.Name
				if !(d.Name.Name == "init" && d.Recv == nil) {
					edits = append(edits, edit{off(d.Body.Lbrace) + 1, rtName + ".Yield(" + strconv.Quote(fname) + ");"})
					st.YieldSites++
				}
				ast.Inspect(d.Body, func(n ast.Node) bool {
					if id, ok := n.(*ast.Ident); ok && id.Name == rtName {
						if _, isDef := c.info.Defs[id]; isDef {
							st.Uninstrumented = append(st.Uninstrumented, fmt.Sprintf("%s: local identifier %q shadows the runtime import", l.fset.Position(id.Pos()), rtName))
						}
					}
					rs, ok := n.(*ast.RangeStmt)
					if !ok {
						return true
					}
					t := c.info.Types[rs.X].Type
					key, ok := isMap(t)
					if !ok {
						if mapCore(t) {
							st.Uninstrumented = append(st.Uninstrumented, fmt.Sprintf("%s: range over type parameter with map core type", l.fset.Position(rs.For)))
						}
						return true
					}
					pos := l.fset.Position(rs.For)
					perFunc[fname]++
					id := fname
					if perFunc[fname] > 1 {
						id = fmt.Sprintf("%s#%d", fname, perFunc[fname])
					}
					edits = append(edits, edit{off(rs.X.Pos()), rtName + ".MapSeq2("})
					edits = append(edits, edit{off(rs.X.End()), ", " + strconv.Quote(id) + ")"})
					st.RangeSites = append(st.RangeSites, RangeSite{ID: id, Pos: fmt.Sprintf("%s:%d", relFile, pos.Line), Func: fname, KeyType: types.TypeString(key, func(p *types.Package) string { return p.Name() })})
					return true
				})
			}
		}
		if len(edits) == 0 {
			// Untouched file: keep a mutant replacement if there is one (already copied into ov).
			continue
		}
		// Import on the package clause's line keeps every line number intact.
		edits = append(edits, edit{off(af.Name.End()), "; import " + rtName + " " + strconv.Quote(RTPath)})
		sort.SliceStable(edits, func(i, j int) bool { return edits[i].off < edits[j].off })
		var out bytes.Buffer
		last := 0
		for _, e := range edits {
			out.Write(data[last:e.off])
			out.WriteString(e.ins)
			last = e.off
		}
		out.Write(data[last:])
		dst := filepath.Join(outDir, filepath.Base(orig))
		if err := os.WriteFile(dst, out.Bytes(), 0o644); err != nil {
			return err
		}
		ov.Replace[orig] = dst
		st.Files++
	}
	if len(globals) > 0 {
		sort.Strings(globals)
		var g bytes.Buffer
		fmt.Fprintf(&g, "// Code generated by verif/tools/instrument. DO NOT EDIT.\n\npackage %s\n\nimport %s %q\n\nfunc init() {\n", c.pkg.Name(), rtName, RTPath)
		for _, n := range globals {
			if l.ro[src.ipath+"."+n] {
				fmt.Fprintf(&g, "\t%s.RegisterGlobal(%q, &%s, \"ro\")\n", rtName, pkgLabel+"."+n, n)
				st.GlobalsRO++
			} else {
				fmt.Fprintf(&g, "\t%s.RegisterGlobal(%q, &%s)\n", rtName, pkgLabel+"."+n, n)
			}
		}
		g.WriteString("}\n")
		dst := filepath.Join(outDir, genFile)
		if err := os.WriteFile(dst, g.Bytes(), 0o644); err != nil {
			return err
		}
		ov.Replace[filepath.Join(src.dir, genFile)] = dst
		st.Globals += len(globals)
	}
	return nil
}

// ReadOverlay reads a `go build -overlay` file.
func ReadOverlay(path string) (map[string]string, error) {
	b, err := os.ReadFile(path)
	if err != nil {
		return nil, err
	}
	var o overlayJSON
	if err := json.Unmarshal(b, &o); err != nil {
		return nil, fmt.Errorf("%s: %v", path, err)
	}
	return o.Replace, nil
}
