package instr

import (
	"encoding/json"
	"os"
	"os/exec"
	"path/filepath"
	"strings"
	"testing"
)

var fakeTree = map[string]string{
	"go.mod": "module github.com/gogpu/naga\n\ngo 1.25\n",
	"back/back.go": `// Package back is a stand-in for a naga backend.
package back

import (
	"sort"
	"strings"
)

type Set map[string]bool

// Tables.
var keywords = map[string]struct{}{"if": {}, "for": {}}       // only read: read-only
var counters = map[string]int{}                                 // written: hot
var alias = keywords                                            // alias of a read-only table: read-only
var escaped = map[string]int{"a": 1}                            // passed to a function: hot
var scratch []byte                                              // not a table of identity-free elements? it is; appended to: hot
var Version = 3

func init() { counters["init"] = 0 }

func use(m map[string]int) int { return len(m) }

//go:noinline
func IsKeyword(s string) bool {
	_, ok := keywords[s]
	if _, ok2 := alias[s]; ok2 != ok {
		panic("alias")
	}
	return ok
}

// Emit walks maps in every syntactic form.
func Emit(m map[int]string, s Set) string {
	counters["emit"]++
	_ = use(escaped)
	scratch = append(scratch[:0], 'x')
	var sb strings.Builder
	for k, v := range m {
		sb.WriteString(v)
		_ = k
	}
	sb.WriteByte('|')
	var names []string
	for name := range s {
		names = append(names, name)
	}
	sort.Strings(names)
	sb.WriteString(strings.Join(names, ","))
	sb.WriteByte('|')
	n := 0
	for range m {
		n++
	}
	sb.WriteByte(byte('0' + n))
outer:
	for k := range m {
		for k2, v2 := range m {
			if k2 == k {
				continue outer
			}
			if v2 == "stop" {
				break outer
			}
		}
	}
	for kw := range keywords {
		_ = kw
	}
	return sb.String()
}

func First[K comparable, V any](m map[K]V) (K, bool) {
	for k := range m {
		return k, true
	}
	var z K
	return z, false
}

type W struct{ seen map[uint32]int }

func (w *W) Drain() (out []uint32) {
	for k := range w.seen {
		delete(w.seen, k)
		out = append(out, k)
	}
	return out
}

func (w W) Len() int { return len(w.seen) }

func NewW() *W { return &W{seen: map[uint32]int{3: 0, 1: 0, 2: 0}} }
`,
	"back/other_windows.go": "package back\n\nfunc windowsOnly() {}\n",
	"cmd/t/main.go": `package main

import (
	"fmt"

	"github.com/gogpu/naga/back"
	"github.com/gogpu/naga/verifrt"
)

func main() {
	m := map[int]string{3: "c", 1: "a", 2: "b"}
	s := back.Set{"y": true, "x": true}
	for _, o := range []verifrt.Order{{Kind: verifrt.Asc}, {Kind: verifrt.Desc}, {Kind: verifrt.Rot, R: 1}} {
		c := &verifrt.Controller{Order: o}
		verifrt.Install(c)
		k, _ := back.First(m)
		fmt.Println(o, back.Emit(m, s), k, back.NewW().Drain())
		mx, _ := c.SiteStats()
		fmt.Println(len(mx))
	}
	verifrt.Install(nil)
	fmt.Println("pt", len(back.Emit(m, s)), back.IsKeyword("if"), back.NewW().Len())
	var sites []string
	c := &verifrt.Controller{AllSites: true, OnYield: func(tid int, site string) { sites = append(sites, site) }}
	c.RegisterThread(0)
	verifrt.Install(c)
	back.IsKeyword("x")
	back.NewW().Drain()
	verifrt.Install(nil)
	fmt.Println(sites)
	for _, g := range verifrt.Globals() {
		fmt.Println("global", g.Name, g.RO)
	}
}
`,
}

func TestOverlayBuildsAndBehaves(t *testing.T) {
	if testing.Short() {
		t.Skip("builds a program")
	}
	repo := t.TempDir()
	for name, src := range fakeTree {
		p := filepath.Join(repo, name)
		os.MkdirAll(filepath.Dir(p), 0o755)
		if err := os.WriteFile(p, []byte(src), 0o644); err != nil {
			t.Fatal(err)
		}
	}
	before := snapshot(t, repo)
	out := t.TempDir()
	rt, _ := filepath.Abs("../../../internal/verifrt")
	st, err := Generate(Config{Repo: repo, Out: out, RTSrc: rt, Roots: []string{"back"}})
	if err != nil {
		t.Fatal(err)
	}
	if st.Packages != 1 || st.Files != 1 {
		t.Errorf("packages %d files %d", st.Packages, st.Files)
	}
	// Emit, First, Drain, Len, NewW, IsKeyword, use = 7 (init skipped, windows file skipped).
	if st.YieldSites != 7 {
		t.Errorf("yield sites %d", st.YieldSites)
	}
	var ids []string
	for _, r := range st.RangeSites {
		ids = append(ids, r.ID)
	}
	want := "back.(*W).Drain back.Emit back.Emit#2 back.Emit#3 back.Emit#4 back.Emit#5 back.Emit#6 back.First"
	if strings.Join(ids, " ") != want {
		t.Errorf("range sites %v", ids)
	}
	if st.Globals != 6 || st.GlobalsRO != 2 {
		t.Errorf("globals %d ro %d", st.Globals, st.GlobalsRO)
	}
	if snapshot(t, repo) != before {
		t.Error("the source tree was modified")
	}
	// A second run with unchanged inputs reuses the overlay.
	st2, err := Generate(Config{Repo: repo, Out: out, RTSrc: rt, Roots: []string{"back"}})
	if err != nil || !st2.Cached {
		t.Errorf("cache: %v %+v", err, st2)
	}
	bin := filepath.Join(out, "t.bin")
	cmd := exec.Command("go", "build", "-overlay", st.Overlay, "-o", bin, "./cmd/t")
	cmd.Dir = repo
	cmd.Env = append(os.Environ(), "GOFLAGS=-mod=mod", "GOPROXY=off")
	if b, err := cmd.CombinedOutput(); err != nil {
		t.Fatalf("go build -overlay: %v\n%s", err, b)
	}
	b, err := exec.Command(bin).CombinedOutput()
	if err != nil {
		t.Fatalf("run: %v\n%s", err, b)
	}
	got := string(b)
	for _, w := range []string{
		"asc abc|x,y|3 1 [1 2 3]\n",
		"desc cba|x,y|3 3 [3 2 1]\n",
		"rot1 bca|x,y|3 2 [2 3 1]\n",
		"pt 9 true 3\n",
		"[back.IsKeyword back.NewW back.(*W).Drain]\n",
		"global back.keywords true\n", "global back.alias true\n", "global back.counters false\n",
		"global back.escaped false\n", "global back.scratch false\n", "global back.Version false\n",
	} {
		if !strings.Contains(got, w) {
			t.Errorf("missing %q in:\n%s", w, got)
		}
	}
	// Mutant overlay: the replacement is instrumented instead of the original.
	mut := filepath.Join(out, "back_mut.go")
	os.WriteFile(mut, []byte(strings.Replace(fakeTree["back/back.go"], "func NewW()", "func Extra() {}\n\nfunc NewW()", 1)), 0o644)
	st3, err := Generate(Config{Repo: repo, Out: filepath.Join(out, "m"), RTSrc: rt, Roots: []string{"back"}, BaseOverlay: map[string]string{filepath.Join(repo, "back/back.go"): mut}})
	if err != nil || st3.YieldSites != 8 {
		t.Errorf("mutant overlay: %v %+v", err, st3)
	}
	ov, _ := os.ReadFile(st3.Overlay)
	var o overlayJSON
	json.Unmarshal(ov, &o)
	if r := o.Replace[filepath.Join(repo, "back/back.go")]; r == mut || r == "" {
		t.Errorf("mutant file not instrumented: %q", r)
	}
}

func snapshot(t *testing.T, dir string) string {
	var sb strings.Builder
	filepath.Walk(dir, func(p string, info os.FileInfo, err error) error {
		if err == nil && !info.IsDir() {
			b, _ := os.ReadFile(p)
			sb.WriteString(p)
			sb.Write(b)
		}
		return nil
	})
	return sb.String()
}
