package instr

import (
	"go/ast"
	"go/token"
	"go/types"
)

// identityFree reports whether a value of type t can be copied without
// sharing memory: no pointers, maps, slices, channels, interfaces or funcs.
func identityFree(t types.Type, depth int) bool {
	if depth > 8 {
		return false
	}
	switch u := t.Underlying().(type) {
	case *types.Basic:
		return u.Kind() != types.UnsafePointer
	case *types.Array:
		return identityFree(u.Elem(), depth+1)
	case *types.Struct:
		for i := 0; i < u.NumFields(); i++ {
			if !identityFree(u.Field(i).Type(), depth+1) {
				return false
			}
		}
		return true
	}
	return false
}

// roCandidate: package-level tables (map, slice or array of identity-free
// elements). Only these are worth classifying; every other global is cheap
// to fingerprint at each scheduling point.
func roCandidate(v *types.Var) bool {
	if v.Pkg() == nil || v.Parent() != v.Pkg().Scope() {
		return false
	}
	switch u := v.Type().Underlying().(type) {
	case *types.Map:
		return identityFree(u.Key(), 0) && identityFree(u.Elem(), 0)
	case *types.Slice:
		return identityFree(u.Elem(), 0)
	case *types.Array:
		return identityFree(u.Elem(), 0)
	}
	return false
}

// classifyRO finds the package-level tables that no code in the loaded
// packages can write, by syntax: every use is an rvalue element read
// (`G[k]`, `_, ok := G[k]`, `G[k].f`), `len(G)`, `cap(G)`, `range G`,
// `G == nil`, or the initialiser of another package-level var that is itself
// read-only. Anything else — assignment, element assignment, `&`, slicing,
// passing or returning the table, method calls — disqualifies. The result is
// only used to fingerprint these tables once per execution instead of at every
// scheduling point; they are still fingerprinted at the end of every execution.
func (l *loader) classifyRO() map[string]bool {
	bad := map[*types.Var]bool{}
	cands := map[*types.Var]bool{}
	deps := map[*types.Var][]*types.Var{}
	for _, c := range l.done {
		if c == nil {
			continue
		}
		for _, n := range c.pkg.Scope().Names() {
			if v, ok := c.pkg.Scope().Lookup(n).(*types.Var); ok && roCandidate(v) {
				cands[v] = true
			}
		}
	}
	for _, c := range l.done {
		if c == nil {
			continue
		}
		for _, f := range c.files {
			var stack []ast.Node
			ast.Inspect(f, func(n ast.Node) bool {
				if n == nil {
					stack = stack[:len(stack)-1]
					return true
				}
				if id, ok := n.(*ast.Ident); ok {
					if v, ok := c.info.Uses[id].(*types.Var); ok && cands[v] {
						ok, dep := classifyUse(c, id, stack)
						if !ok {
							bad[v] = true
						}
						if dep != nil {
							deps[v] = append(deps[v], dep)
						}
					}
				}
				stack = append(stack, n)
				return true
			})
		}
	}
	// Fixpoint over alias dependencies.
	for changed := true; changed; {
		changed = false
		for v := range cands {
			if bad[v] {
				continue
			}
			for _, d := range deps[v] {
				if !cands[d] || bad[d] {
					bad[v] = true
					changed = true
				}
			}
		}
	}
	out := map[string]bool{}
	for v := range cands {
		if !bad[v] {
			out[v.Pkg().Path()+"."+v.Name()] = true
		}
	}
	return out
}

// classifyUse inspects one use of a candidate table. stack holds the
// ancestors of id (outermost first).
func classifyUse(c *checked, id *ast.Ident, stack []ast.Node) (ok bool, dep *types.Var) {
	var node ast.Node = id
	i := len(stack) - 1
	if i >= 0 {
		if sel, isSel := stack[i].(*ast.SelectorExpr); isSel && sel.Sel == id {
			node = sel // qualified identifier pkg.G
			i--
		}
	}
	indexed := false
	for ; i >= 0; i-- {
		switch p := stack[i].(type) {
		case *ast.ParenExpr:
			node = p
			continue
		case *ast.IndexExpr:
			if p.X == node {
				indexed = true
				node = p
				continue
			}
			return indexed, nil
		case *ast.SelectorExpr:
			if p.X == node && indexed {
				if _, isField := c.info.Uses[p.Sel].(*types.Var); isField {
					node = p
					continue
				}
			}
			return false, nil
		case *ast.CallExpr:
			if p.Fun == node {
				return false, nil
			}
			if indexed {
				return true, nil
			}
			if f, isId := p.Fun.(*ast.Ident); isId {
				if b, isB := c.info.Uses[f].(*types.Builtin); isB && (b.Name() == "len" || b.Name() == "cap") {
					return true, nil
				}
			}
			return false, nil
		case *ast.AssignStmt:
			for _, lhs := range p.Lhs {
				if lhs == node {
					return false, nil
				}
			}
			return indexed, nil
		case *ast.IncDecStmt, *ast.StarExpr, *ast.SliceExpr:
			if s, isS := p.(*ast.SliceExpr); isS && s.X != node {
				return indexed, nil
			}
			return false, nil
		case *ast.UnaryExpr:
			if p.Op == token.AND {
				return false, nil
			}
			return indexed, nil
		case *ast.RangeStmt:
			return p.X == node, nil
		case *ast.BinaryExpr:
			if indexed {
				return true, nil
			}
			other := p.X
			if other == node {
				other = p.Y
			}
			if tv, has := c.info.Types[other]; has && tv.IsNil() {
				return true, nil
			}
			return false, nil
		case *ast.ValueSpec:
			if indexed {
				return true, nil
			}
			// `var A = G` at package level: A aliases G.
			if len(p.Names) == 1 && len(p.Values) == 1 && p.Values[0] == node {
				if a, isVar := c.info.Defs[p.Names[0]].(*types.Var); isVar && a.Parent() == a.Pkg().Scope() {
					return true, a
				}
			}
			return false, nil
		default:
			return indexed, nil
		}
	}
	return false, nil
}
