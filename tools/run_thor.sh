#!/bin/sh
# authoring aid: run the thorough tier of one check from the scratch copy /scratch/thor (evidence and replays land there)
cd /scratch/thor || exit 2
export GOFLAGS=-mod=mod GOPROXY=off VERIF_ROOT=/scratch/thor VERIF_TIER=thorough
mkdir -p bin
go build -tags verif -o bin/vcheck ./cmd/vcheck || exit 2
[ "$1" = "C12" ] && { go build -o bin/c12x ./cmd/c12x || exit 2; }
exec ./bin/vcheck run "$1" --tier thorough
