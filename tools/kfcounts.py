#!/usr/bin/env python3
"""Authoring aid (never run by a registered command): record, per property and tier, how many cases
fail under each known finding on the unchanged tree, from the evidence files of runs just made.
usage: kfcounts.py [evidence.json ...]   (default: /verif/evidence/*.json)
Only evidence with exhaustive=true and violations=0 is accepted."""
import glob, json, sys
P = "/verif/kf_counts.json"
try:
    m = json.load(open(P))
except FileNotFoundError:
    m = {}
for f in (sys.argv[1:] or sorted(glob.glob("/verif/evidence/*.json"))):
    d = json.load(open(f))
    cov = d["coverage"]
    if d.get("violations") or not cov.get("exhaustive"):
        print("skip (violations or not exhaustive):", f)
        continue
    m.setdefault(d["property_id"], {})[d["tier"]] = dict(sorted(cov.get("known_findings_matched", {}).items()))
json.dump(m, open(P, "w"), indent=1, sort_keys=True)
print("wrote", P)
