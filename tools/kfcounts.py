#!/usr/bin/env python3
"""Authoring aid (never run by a registered command): record, per property and tier, how many cases
fail under each known finding on the unchanged tree, from the evidence files of runs just made.
usage: kfcounts.py [evidence.json ...]   (default: <harness root>/evidence/*.json)
Writes <harness root>/kf_counts/<Cxx>.json. Only evidence with exhaustive=true and violations=0 is accepted."""
import glob, json, os, sys
ROOT = os.path.dirname(os.path.dirname(os.path.abspath(__file__)))
os.makedirs(f"{ROOT}/kf_counts", exist_ok=True)
for f in (sys.argv[1:] or sorted(glob.glob(f"{ROOT}/evidence/*.json"))):
    d = json.load(open(f))
    cov = d["coverage"]
    if d.get("violations") or not cov.get("exhaustive"):
        print("skip (violations or not exhaustive):", f)
        continue
    p = f"{ROOT}/kf_counts/{d['property_id']}.json"
    try:
        m = json.load(open(p))
    except FileNotFoundError:
        m = {}
    m[d["tier"]] = dict(sorted(cov.get("known_findings_matched", {}).items()))
    json.dump(m, open(p, "w"), indent=1, sort_keys=True)
    print("wrote", p, d["tier"])
