#!/usr/bin/env python3
"""Authoring aid (never run by a registered command): triage of the C06 families F6c2 (chains through named
constants) and F6c3 (structural folds) on the UNCHANGED tree.
usage:  VERIF_PRINT_KEYS=1 ./run.sh C06 quick > log ; python3 kf_c06x_triage.py log   -> writes kf_c06x_keys.json
Every failing case of those families carries a key
    C06|F6c2|link1|<binding>|<style>|<op1>|<failure>                    first link alone already fails
    C06|F6c2|link2|<context>|<style>|<op2>@<pos>|<failure>              second link alone already fails
    C06|F6c2|link1ctx|<layout>|<style>|<op1>|<failure>                  computed constant consumed directly in the context fails
    C06|F6c2|named|<layout>|<style>|<op2>@<pos>|<failure>               op2 over a constant bound to a LITERAL fails
    C06|F6c2|<layout>|<style>|<op2>@<pos>|<op1>|A=<class>|<failure>     all of the above work, the chain does not
    C06|F6c3|access|<layout>|<style>|<type>|<access>|<failure>          the access fails on the flat constructor already
    C06|F6c3|cons|<binding>|<style>|<type>|<shape>|<failure>            the constructor stored whole is already wrong
    C06|F6c3|<layout>|<style>|<type>|<shape>|<access>|<failure>         both work, this access on this constructor does not
The keys are grouped into findings by (family, attribution, failure category) and compressed: a field is
replaced by '*' when at least three of its values fail in exactly the same way with all other fields equal
(only for classes where the context does not evaluate the construct at all; wrong values and interaction
failures keep exact keys; the failure class, family and attribution are never generalised). The population
bounds in kf_counts/C06.json keep a generalised pattern from hiding additional failing cases."""
import json, re, sys, collections

WHAT = {
 ("F6c2", "link1", "rej"): "first link of a chain alone: a module-scope `const A = E` whose initialiser is a builtin call, a bitcast, a comparison, a boolean operator, a float expression, or `-T(x)` is rejected by the module-constant evaluator (\"unsupported call expression\", \"unsupported initializer *parser.BitcastExpr\", \"expected integer literal, got BoolLiteral/FloatLiteral\", \"unsupported operator in constant expression: <\", \"unsupported negation operand\"); every chain through such a constant is lost (counted per chain item; same defect class as C06-module-const-evaluator-incomplete)",
 ("F6c2", "link1", "val"): "a named constant is wrong when used on its own: module-scope `const a = -(-1i); o[0] = a;` stores the float 1.0 (unary minus at module scope yields a float literal), `const a = f32(true)` holds the bit pattern 1 instead of 1.0; function-scope `const a = extractBits(-7, 0u, 5u)` over an abstract literal loses the sign",
 ("F6c2", "link1", "exec"): "function-scope `const a = 1 << 5u;` / `1 >> 1u` (abstract int shifted by u32), `extractBits`/`insertBits` over abstract literals are typed u32; stored into an i32 location the SPIR-V is invalid (OpStore object type u32, pointee i32)",
 ("F6c2", "link2", "rej"): "second link of a chain alone (op2 on literal operands) is rejected in the consumer context: module constants with builtin calls / comparisons / bool and float operators, case selectors with builtin calls (same defects as C06-module-const-evaluator-incomplete and C06-switch-selector-unsupported; counted per chain item)",
 ("F6c2", "link2", "afa"): "second link alone: `const_assert <wrong value> == (op2(literals))` is accepted: const_assert does not evaluate most operators/builtins (C06-const-assert-not-evaluated, counted per chain item)",
 ("F6c2", "link2", "sne"): "second link alone: `array<u32, (op2(literals))>` is not evaluated, the lowered type has no constant size (C06-array-size-not-evaluated, counted per chain item)",
 ("F6c2", "link2", "val"): "second link alone gives a wrong value in the consumer context: `@workgroup_size(op2(literals))` silently becomes 1, module-constant bool/vector-free operators fold wrongly, const_assert rejects true assertions on wrap-around results such as `i32(-2147483648) + (-1i)` (64-bit evaluation) (C06-workgroup-size-not-evaluated / C06-module-const-wrong-value, counted per chain item)",
 ("F6c2", "link2", "exec"): "second link alone over abstract literals (`extractBits(-7, 0u, 5u)`, `insertBits`) is typed u32 and stored into i32: invalid SPIR-V (C06-extractBits-abstract-literal, counted per chain item)",
 ("F6c2", "link1ctx", "rej"): "a function-scope `const a = f(...)` whose initialiser is a builtin call or a conversion is not folded to a literal: `switch x { case a: ... }` is rejected (\"switch case selector: expression is not a constant literal (kind: ir.ExprMath / ir.ExprAs)\")",
 ("F6c2", "link1ctx", "afa"): "a function-scope `const a = f(...)` (builtin call or conversion) is not folded: `const_assert <wrong value> == (a);` inside the function is accepted",
 ("F6c2", "link1ctx", "val"): "a computed module constant consumed directly is wrong: `const a = 0u - 1u; const r = a;` (alias of a wrapped u32 result) is emitted as 0 in SPIR-V and `const_assert 4294967295u == (a)` fails; `const a = <i32 expression>; @workgroup_size(a)` over abstract literals gives 1 — the evaluator keeps the 64-bit intermediate instead of the 32-bit value",
 ("F6c2", "named", "rej"): "op2 consuming a named constant bound to a literal is rejected although op2 on the literal is accepted: module-scope conversions of a named bool / f32 constant (`const a = true; const r: i32 = i32(a);`, `i32(a)` with a: f32) report \"'a' must be an integer constant\"; unary operators on an abstract named constant are unsupported",
 ("F6c2", "named", "val"): "op2 consuming a named constant bound to a literal gives a wrong value although op2 on the literal is right: `let a = 7u; o = abs(a)` and countLeadingZeros/countTrailingZeros/round over a let are run-time code with the C01 defects (SAbs on u32, bare FindUMsb/FindILsb, Round); `@workgroup_size(f(A))`/`@workgroup_size(A + 1)` over a module constant silently becomes 1; `const r = -A` at module scope yields a float",
 ("F6c2", "inter", "rej"): "both links work alone but the chain is rejected: the module-constant evaluator keeps 64-bit intermediates, so `const a = 0u - 1u; var<private> z: array<u32, (a % 2u)>` (or `a >> 31u`, `~a`-based sizes) is reported as \"array size must be greater than 0\"",
 ("F6c2", "inter", "afa"): "both links work alone but a false const_assert over the chain is accepted (chains through `i32(<u32 above 2^31>)` as a divisor and through `~<u32>` as a shift count: the assertion evaluator gives up on the 64-bit intermediate)",
 ("F6c2", "inter", "val"): "both links work alone but the chained value is wrong: module constants keep the 64-bit intermediate of a wrapped 32-bit result — `const a = 0i - i32(-2147483648); a / 2i` selects case 1073741824 instead of -1073741824, `const a = 0u - 1u; a % 2u`, `a >> k`, `a / k`, `~0u`-based chains give the value for -1 as array size / case selector / module constant; let/const-bound u32 intermediates above 2^31 reach run-time code with the C01 defects (abs, extractBits, insertBits, clz)",
 ("F6c3", "access", "rej"): "component access on a constructor (swizzle, constant index, member access, and their compositions) is not a supported constant expression where a module constant, case selector or const_assert needs one: \"unsupported initializer *parser.MemberExpr / *parser.IndexExpr\", \"switch case selector: unsupported base expression\", \"unsupported member access\" after an index, \"cannot index into type ir.ScalarType\" (index of index / swizzle of index on matrices, arrays of vectors, struct members: the first index already produced a scalar), struct constructors in global expressions — on the flat constructor already",
 ("F6c3", "access", "afa"): "`const_assert <wrong value> == (V.x)` (any component access on a constructor or on a constant holding one) is accepted: const_assert does not evaluate component access",
 ("F6c3", "access", "sne"): "`array<u32, (V.x)>`: an array size given by a component access is not evaluated (no constant size in the lowered type)",
 ("F6c3", "access", "val"): "constant access into array, struct and matrix constructors indexes the FLATTENED scalar list: `S(1, vec3(..), 2u).c` reads a component of b, `array<vec3<f32>, 2>(..)[0]` and `S(..).b` fold to one scalar; `@workgroup_size(V.x)` silently becomes 1",
 ("F6c3", "access", "exec"): "constant access into array/struct constructors folds a vector-valued element or member to its first scalar: `o[0] = array<vec3<f32>, 2>(..)[0]` / `S(..).b` stores an f32 into a vec3 location (invalid SPIR-V: OpStore object type f32, pointee vec3<f32>)",
 ("F6c3", "cons", "rej"): "a module-scope constant initialised by an inferred constructor with vector arguments (`const c = vec4(vec2<i32>(..), 3i, 4i)`, `vec4<i32>(1i, vec2(..), ..)`) is rejected (\"unknown type: vec4\")",
 ("F6c3", "cons", "val"): "a module-scope constant holding a constructor with a nested vector argument, a converted / splat / zero-value / named vector argument, an identity or conversion constructor, or a matrix built from such columns is wrong when stored whole: the nested Compose in the global expressions has an invalid type handle and the SPIR-V constant is all zeros (`const c = vec4<i32>(-3i, 7i, vec2<i32>(5i, 9i)); o[0] = c;` stores (0,0,0,0))",
 ("F6c3", "cons", "exec"): "a module-scope constant `vecN<T>(vecN<U>(..))` / `vecN<T>(vecN<T>(..))` (conversion or identity of a constructed vector) is emitted as an OpConstantComposite with one constituent / constituents of the wrong type (invalid SPIR-V)",
 ("F6c3", "inter", "rej"): "the constructor stored whole and the access on the flat constructor both work, but this access on this constructor is rejected: case selectors over inferred / converted constructors (\"unsupported type 'vec4' in constant expression\", \"member index out of range\" when a nested vector argument precedes the component), module constants of inferred array type (\"unknown type: array\")",
 ("F6c3", "inter", "afa"): "a false const_assert over a component of a converted / splat / zero-value / nested constructor is accepted (const_assert evaluates component access only on flat constructors of literals)",
 ("F6c3", "inter", "sne"): "`array<u32, (V.x)>` with V a converted / splat / zero-value / nested constructor: size not evaluated (only flat constructors of literals are)",
 ("F6c3", "inter", "val"): "component access in the const_assert / case-selector / array-size evaluator indexes the UNFLATTENED argument list: `vec4(-3i, vec2<i32>(..), 2i).b` (inferred constructor with a nested vector before the component) reads the next argument; function-scope folds of `.x` on struct/array zero values and of named nested arguments give wrong components",
 ("F6c3", "inter", "exec"): "module-scope constants of bool vectors built from inferred / identity constructors are emitted with constituents of the wrong type (invalid SPIR-V)",
}

def category(fail):
    if fail.startswith("wrong-") or "const_assert failed" in fail:
        return "val"
    if fail.startswith("exec:"):
        return "exec"
    if fail.startswith("accepted-false-assertion"):
        return "afa"
    if fail.startswith("size-not-evaluated"):
        return "sne"
    if fail.startswith("panic"):
        return "panic"
    return "rej"

def compress(keys):
    """keys: list of field tuples; generalise one field at a time when >= 3 values behave the same."""
    keys = set(keys)
    n = len(next(iter(keys)))
    changed = True
    while changed:
        changed = False
        # candidate fields: everything after the layout/attribution (index 3 and later), never the failure (last)
        for f in range(n - 2, 2, -1):
            groups = collections.defaultdict(list)
            for k in keys:
                if k[f] == "*":
                    continue
                groups[k[:f] + k[f + 1:]].append(k)
            for rest, members in groups.items():
                if len(members) >= 3:
                    for m in members:
                        keys.discard(m)
                    keys.add(members[0][:f] + ("*",) + members[0][f + 1:])
                    changed = True
    return sorted("|".join(k) for k in keys)

def main():
    by = collections.defaultdict(list)
    counts = collections.Counter()
    for line in open(sys.argv[1]):
        m = re.match(r"KEY\s+(\d+)\s+(C06\|F6c[23]\|.*)$", line.rstrip("\n"))
        if not m:
            continue
        key = m.group(2)
        p = key.split("|")
        fam = p[1]
        kind = p[2] if p[2] in ("link1", "link2", "link1ctx", "named", "access", "cons") else "inter"
        cat = category(p[-1])
        if (fam, kind, cat) not in WHAT and cat == "exec":
            cat = "val"
        by[(fam, kind, cat)].append(tuple(p))
        counts[(fam, kind, cat)] += int(m.group(1))
    out = {}
    names = {"F6c2": "chain", "F6c3": "structure"}
    for (fam, kind, cat), keys in sorted(by.items()):
        if (fam, kind, cat) not in WHAT:
            print("UNTRIAGED class", fam, kind, cat, len(keys), "keys, e.g.", "|".join(keys[0]))
            continue
        # keys of different arity (interaction vs attribution) never share a finding
        pats = []
        byn = collections.defaultdict(list)
        for k in keys:
            byn[len(k)].append(k)
        for _, ks in sorted(byn.items()):
            # generalise only where the context does not evaluate the construct at all (rejections, unevaluated
            # sizes, unevaluated assertions) and for constructors that are wrong as a whole; wrong VALUES and the
            # interaction classes keep their exact keys, so a new wrong value can never hide behind a pattern
            if kind != "inter" and (cat in ("rej", "afa", "sne") or kind == "cons"):
                pats += compress(ks)
            else:
                pats += sorted("|".join(k) for k in ks)
        fid = "C06-%s-%s-%s" % (names[fam], kind, cat)
        out[fid] = {"what": WHAT[(fam, kind, cat)], "keys": pats}
        print("%-40s %6d keys -> %5d patterns, %7d cases" % (fid, len(keys), len(pats), counts[(fam, kind, cat)]))
    json.dump(out, open("kf_c06x_keys.json", "w"), indent=0, sort_keys=True)

main()
