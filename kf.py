#!/usr/bin/env python3
# Authoring aid (never run by a registered command): writes known_findings.json from the tables below.
import json, os
K = []
def kf(prop, id, what, keys, status="open"):
    K.append({"property": prop, "id": id, "status": status, "what": what, "keys": keys})

# ---------------------------------------------------------------- C08
kf("C08", "C08-validator-break-in-switch", "ir.Validate reported \"break outside of loop\" for break inside switch in a helper function",
   ["C08|validate|-|in function *: break outside of loop|*", "C08|compile|default|validation failed: in function *: break outside of loop|*"], "fixed:761830e")
kf("C08", "C08-validator-binding-per-entry-point", "ir.Validate reported \"duplicate binding\" when two entry points reuse one @group/@binding",
   ["C08|validate|-|global variable *: duplicate binding*", "C08|compile|default|validation failed: global variable *: duplicate binding*"], "fixed:1a22194")
kf("C08", "C08-spirv-relational", "SPIR-V backend rejected run-time all()/any() with \"unsupported expression kind: ir.ExprRelational\"",
   ["C08|spirv|*|SPIR-V generation error: unsupported expression kind: ir.ExprRelational|*"], "fixed:993a41a")
kf("C08", "C08-deref-compound-assign", "`*p += v` with p a pointer parameter was lowered to Binary(pointer, v): SPIR-V backend error \"binary operator on non-numeric type: ir.PointerType\"",
   ["C08|spirv|*|SPIR-V generation error: binary operator on non-numeric type: ir.PointerType|*"], "fixed:58d413a")
kf("C08", "C08-spirv-matrix-negate", "SPIR-V backend rejects unary minus on a matrix (\"unary operator on non-numeric type: ir.MatrixType\"); HLSL/MSL/GLSL accept it",
   ["C08|spirv|*|SPIR-V generation error: unary operator on non-numeric type: ir.MatrixType|F1/un/-/mat*",
    "C08|compile|default|SPIR-V generation error: SPIR-V generation error: unary operator on non-numeric type: ir.MatrixType|F1/un/-/mat*"])

kf("C08", "C08-pointer-to-matrix-column-argument", "`f(&m[i])` with m a function/private matrix and f taking ptr<_, vecR<f32>> is rejected by the lowerer (\"argument type mismatch (expected ptr<...>, got unknown)\"); WGSL allows the address of a matrix column",
   ["C08|lower|*|*function 'cal' argument #: type mismatch (expected ptr<...>, got unknown)|F4idx/ptrarg-*/*/mat*"])

kf("C08", "C08-hlsl-global-init-unary", "HLSL backend rejects a module-scope variable whose initialiser is a scalar conversion of a negated literal (`var<private> p: i32 = i32(-2147483648);`): \"unsupported global expression type: ir.ExprUnary\"",
   ["C08|hlsl|*|hlsl: unsupported global expression type: ir.ExprUnary|F1lit/private/i32"])
kf("C08", "C08-forward-reference-inside-bitcast", "the pass that orders module-scope declarations does not look inside a bitcast operand: `bitcast<u32>(K)` with K a const / var / struct / alias declared later in the file is rejected (\"unresolved identifier\" / \"unknown function\"), and `bitcast<i32>(f())` with f declared later is lowered with the callee after the caller, which the SPIR-V backend rejects (\"function # not found in functionIDs\"). Reproducer: `fn h() -> u32 { return bitcast<u32>(K); } const K: i32 = 4;`",
   ["C08|lower|-|*function host body: unresolved identifier: KC|F8h/const/any/bitcast*", "C08|lower|-|*function host body: unresolved identifier: gp|F8h/var/any/bitcast*",
    "C08|lower|-|*function host body: unknown function: SI|F8h/struct/any/bitcast*", "C08|lower|-|*function host body: unknown function: AI|F8h/alias/any/bitcast*",
    "C08|spirv|*|SPIR-V generation error: function # not found in functionIDs|F8h/fn/any/bitcast*",
    "C08|compile|default|SPIR-V generation error: SPIR-V generation error: function # not found in functionIDs|F8h/fn/any/bitcast*"], "fixed:8f85c46")
kf("C08", "C08-forward-reference-after-nested-shadow", "a local declared in a nested block (or a for initialiser) hides the module-scope const/var of the same name from the declaration-ordering pass for the REST of the function, not only until the block ends: `fn h() -> i32 { { let g = 7; } return g; } const g: i32 = 5;` is rejected with \"unresolved identifier: g\" although the final `g` is the (later-declared) module constant; accepted when the constant is declared first",
   ["C08|lower|-|*function host body: unresolved identifier: g|F8s/const/*/noref/after/decl-after/in-helper", "C08|lower|-|*function host body: unresolved identifier: g|F8s/const/*/noref/after/decl-last/in-helper",
    "C08|lower|-|*function host body: unresolved identifier: g|F8s/aconst/*/noref/after/decl-after/in-helper", "C08|lower|-|*function host body: unresolved identifier: g|F8s/aconst/*/noref/after/decl-last/in-helper",
    "C08|lower|-|*function host body: unresolved identifier: g|F8s/var/*/noref/after/decl-after/in-helper"], "fixed:ba8a290")
kf("C08", "C08-bitcast-alias-target", "`bitcast<AI>(4u)` with `alias AI = i32;` is rejected (\"unsupported bitcast target type 'AI'\") wherever the alias is declared",
   ["C08|lower|-|*bitcast target type: unsupported bitcast target type 'AI'|F8h/alias/only/bitcast-type/*"])
kf("C08", "C08-case-selector-const-expression", "a case selector that is a const-expression other than a literal or a named constant is rejected: `case SI(4, 2).a:` (\"member access on non-vector call 'SI' in constant expression\"), `case AI(4):` with `alias AI = i32;` (\"unsupported function 'AI' in constant expression\")",
   ["C08|lower|-|*switch case selector: member access on non-vector call 'SI' in constant expression|F8h/struct/any/case-selector*",
    "C08|lower|-|*switch case selector: unsupported function 'AI' in constant expression|F8h/alias/any/case-selector*"])
kf("C08", "C08-module-const-alias-constructor", "a module-scope constant initialised through an alias used as a conversion, `alias AI = i32; const C = AI(4);`, is rejected (\"module constant 'C': unsupported call expression 'AI'\") in every declaration order; the same expression is accepted inside a function",
   ["C08|lower|-|*module constant 'C': unsupported call expression 'AI'*|F8o/const-alias-conv/*"])

kf("C08", "C08-hlsl-subgroup-bool-store", "HLSL backend rejects `out[lid] = u32(subgroupAll(c))` / `subgroupAny` (\"writeStorageStore: cannot resolve type\"); the other backends accept it",
   ["C08|hlsl|*|hlsl: writeStorageStore: cannot resolve type|F9/subgroupA*/bool/*"])

kf("C08", "C08-validator-break-in-nested-loop-in-continuing", "ir.Validate reported \"break in continuing block\" / \"continue in continuing block\" for break/continue of a loop NESTED inside a continuing block (they target the nested loop, which WGSL allows)",
   ["C08|validate|-|in function *: break in continuing block|*", "C08|compile|default|validation failed: in function *: break in continuing block|*",
    "C08|validate|-|in function *: continue in continuing block|*", "C08|compile|default|validation failed: in function *: continue in continuing block|*"], "fixed:e71b790")

# ---------------------------------------------------------------- C01 (SPIR-V semantics)
kf("C01", "C01-fmod", "f32 `%` is emitted as OpFMod (floored, sign of divisor); WGSL prescribes the truncated remainder (sign of dividend), e.g. -7.5 % 2.0 gives 0.5 instead of -1.5",
   ["C01|F1/bin/%/*f32*|*|mismatch"])
kf("C01", "C01-shift-unmasked", "`<<`/`>>` pass the shift count to OpShift* unmasked; a count >= 32 is undefined in SPIR-V while WGSL takes it modulo 32",
   ["C01|F1/bin/<</*|*|trap:shift-range", "C01|F1/bin/>>/*|*|trap:shift-range"])
kf("C01", "C01-bitfield-unclamped", "extractBits/insertBits pass offset and count unclamped to OpBitField*; offset+count > 32 is undefined in SPIR-V while WGSL clamps both",
   ["C01|F1/call/extractBits/*|*|trap:bitfield-range", "C01|F1/call/insertBits/*|*|trap:bitfield-range"])
kf("C01", "C01-clz-ctz", "countLeadingZeros/countTrailingZeros are emitted as bare FindUMsb/FindSMsb/FindILsb: clz(x) returns the msb index instead of 31-msb, and clz(0)/ctz(0) return -1 instead of 32",
   ["C01|F1/call/countLeadingZeros/*|*|mismatch", "C01|F1/call/countTrailingZeros/*|*|mismatch"])
kf("C01", "C01-round-ties", "round() is emitted as GLSL.std.450 Round, whose tie direction is implementation-chosen; WGSL requires ties-to-even (RoundEven)",
   ["C01|F1/call/round/*|*|mismatch"])
kf("C01", "C01-abs-unsigned", "abs(u32) is emitted as SAbs, so abs(0xFFFFFFFFu) yields 1 instead of 0xFFFFFFFF (abs on unsigned is the identity)",
   ["C01|F1/call/abs/*u32*|*|mismatch", "C01|F4c/call:abs:u32*|*|mismatch", "C01|F4c/call:abs:vec2<u32>*|*|mismatch"])
kf("C01", "C01-switch-all-break-unreachable", "a switch whose every clause ends in break (e.g. `switch x { case 0: { break; } default: { break; } }`) branches to a merge block terminated by OpUnreachable, which is then executed",
   ["C01|F2/*|*|trap:unreachable", "C01|F2L/*|*|trap:unreachable"])

kf("C01", "C01-private-subobject-pointer-argument", "`f(&x[i])` with x a private array/matrix and f taking ptr<private, T>: the argument is spilled to a Function-class temporary (or an access chain of the wrong class is built), so OpFunctionCall/OpAccessChain pointer types disagree in storage class (invalid SPIR-V)",
   ["C01|F4idx/ptrarg-*/private/*|*|malformed-output:OpFunctionCall*", "C01|F4idx/ptrarg-*/private/*|*|malformed-output:OpAccessChain*"])

kf("C01", "C01-private-initialiser-dropped", "the initialiser of a module-scope private variable is dropped: `var<private> pq: u32 = 3u;` is emitted as OpVariable Private without an initializer operand (the constant 3 does not occur in the module), so every function that reads pq before writing it sees 0/undefined instead of 3; HLSL, MSL and GLSL keep the initialiser. Seen with one entry point as well as with several",
   ["C01|F5reach/*/t=*Q*|*|mismatch", "C01|F1lit/private/*|*|mismatch"])

kf("C01", "C01-const-composite-null", "a module-scope `const` of array type copied into a function variable (`var t = TBL; t[i]`) is emitted as OpConstantNull: the SPIR-V backend emits constants that have no inline value as null (`emitConstant` fallback), so every element reads as zero",
   ["C01|F1lit/constarray/*|*|mismatch"])
kf("C01", "C01-block-const-outlives-block", 'a function-scope `const` without type annotation declared in a nested block stays bound after the block ends (popScope does not drop the deferred initialiser): `const g: i32 = 5; fn h() -> i32 { var acc = 0; { const g = 7; acc += g; } acc += g; return acc; }` returns 14 instead of 12 (same with a module-scope var g)',
   ["C01|F8s/*/blk-const/noref/after/*|*|mismatch"], "fixed:dc4a19e")
kf("C01", "C01-workgroup-size-forward-const", '`@workgroup_size(WG)` with `const WG: u32 = 2u;` declared AFTER the entry point is compiled with workgroup size 1 (no error); with the const declared first it is 2',
   ["C01|F8o/workgroup-size-const/*|*|mismatch"], "fixed:397bbe6")

# ---------------------------------------------------------------- C03 (HLSL semantics)
kf("C03", "C03-clz-ctz", "countLeadingZeros/countTrailingZeros are emitted as bare firstbithigh/firstbitlow (clz(1)=0, ctz(0)=0xFFFFFFFF instead of 32)",
   ["C03|F1/call/countLeadingZeros/*|*|mismatch", "C03|F1/call/countTrailingZeros/*|*|mismatch"])
kf("C03", "C03-transpose-type", "`let t = transpose(m)` for a non-square matrix declares t with the argument's type (floatCxR instead of floatRxC): a type error in HLSL",
   ["C03|F1/call/transpose/*|*|malformed-output*"])
kf("C03", "C03-sign-int", "sign(f32) result is stored through asuint(sign(x)); HLSL sign() returns int, so -1.0 is written as 0xFFFFFFFF instead of 0xBF800000",
   ["C03|F1/call/sign/*f32*|*|mismatch"])
kf("C03", "C03-inverse-hyperbolic", "asinh/acosh/atanh are emitted as calls to functions HLSL does not have (undeclared identifier)",
   ["C03|F1/call/asinh/*|*|malformed-output*", "C03|F1/call/acosh/*|*|malformed-output*", "C03|F1/call/atanh/*|*|malformed-output*"])

kf("C03", "C03-block-const-outlives-block", 'a function-scope `const` without type annotation declared in a nested block stays bound after the block ends (popScope does not drop the deferred initialiser): `const g: i32 = 5; fn h() -> i32 { var acc = 0; { const g = 7; acc += g; } acc += g; return acc; }` returns 14 instead of 12 (same with a module-scope var g)',
   ["C03|F8s/*/blk-const/noref/after/*|*|mismatch"], "fixed:dc4a19e")
kf("C03", "C03-workgroup-size-forward-const", '`@workgroup_size(WG)` with `const WG: u32 = 2u;` declared AFTER the entry point is compiled with workgroup size 1 (no error); with the const declared first it is 2',
   ["C03|F8o/workgroup-size-const/*|*|mismatch"], "fixed:397bbe6")
kf("C03", "C03-loop-body-value-in-continuing", 'a value bound in a loop body from a function call and used in the continuing block (`loop { if n >= 2 { break; } let t = f(0) * 2; continuing { n += 1; acc += t; } }`) is emitted in the continuing position as a reference to a name that is never declared' + " (`_f_result`)",
   ["C03|F8s/fn/loop-let/ref/*|*|malformed-output:undeclared identifier*"])
kf("C03", "C03-forward-call-inside-bitcast", 'forward call inside a bitcast operand (`bitcast<u32>(f1(1))` with f1 declared later): the callee is lowered and emitted after its caller (see C08-forward-reference-inside-bitcast)' + ": call of an undeclared function in HLSL",
   ["C03|F8h/fn/any/bitcast*|*|malformed-output:call of undeclared function*"], "fixed:8f85c46")

# ---------------------------------------------------------------- C04 (MSL semantics)
kf("C04", "C04-round-ties", "round() is emitted as metal::round (ties away from zero); WGSL requires ties-to-even (metal::rint)",
   ["C04|F1/call/round/*|*|mismatch"])
kf("C04", "C04-select-ternary-precedence", "a scalar select() used as an operand of a binary operator was written as an unparenthesised ternary: `select(a, b, c) + d` became `c ? b : a + d`",
   ["C04|F4c/bin:*(call:select:*|*|mismatch", "C04|F4c/bin:*(call:select:*|*|trap:*"], "fixed:d5f63a7")
kf("C04", "C04-swizzle-of-inline-expression-unparenthesised", "a swizzle applied to a binary expression that is written inline is emitted without parentheses: `(a * b).yx` becomes `a * b.yx` (wrong value; for `(a * b).xxyy` a type error). The repair (parenthesise the operand in writeSwizzle) was written and withdrawn: the repository's golden file 7048-multiple-dynamic-2.msl encodes `val_0_ * val_1_.xxyy`, so the existing suite fails with it",
   ["C04|F4c/swz:*(bin:*|*|mismatch", "C04|F4c/swz:*(call:select:*|*|mismatch", "C04|F4c/*(swz:*|*|mismatch", "C04|F4c/swz:*(bin:*|*|malformed-output*", "C04|F4c/*(swz:*|*|malformed-output*"])
kf("C04", "C04-firstLeadingBit-u32", "firstLeadingBit(u32) guards with `x == 0 || x == -1`; for unsigned x the second test matches 0xFFFFFFFF, which yields 0xFFFFFFFF instead of 31",
   ["C04|F1/call/firstLeadingBit/*u32*|*|mismatch"])
kf("C04", "C04-int-dot-overflow", "dot() on i32 vectors is emitted as plain `a.x * b.x + ...` on int; signed overflow is undefined in MSL/C++ (WGSL wraps)",
   ["C04|F1/call/dot/*i32*|*|trap:signed-overflow"])

kf("C04", "C04-block-const-outlives-block", 'a function-scope `const` without type annotation declared in a nested block stays bound after the block ends (popScope does not drop the deferred initialiser): `const g: i32 = 5; fn h() -> i32 { var acc = 0; { const g = 7; acc += g; } acc += g; return acc; }` returns 14 instead of 12 (same with a module-scope var g)',
   ["C04|F8s/*/blk-const/noref/after/*|*|mismatch"], "fixed:dc4a19e")
kf("C04", "C04-loop-body-value-in-continuing", 'a value bound in a loop body from a function call and used in the continuing block (`loop { if n >= 2 { break; } let t = f(0) * 2; continuing { n += 1; acc += t; } }`) is emitted in the continuing position as a reference to a name that is never declared' + " (the MSL text does not parse)",
   ["C04|F8s/fn/loop-let/ref/*|*|malformed-output:unexpected*"])
kf("C04", "C04-forward-call-inside-bitcast", 'forward call inside a bitcast operand (`bitcast<u32>(f1(1))` with f1 declared later): the callee is lowered and emitted after its caller (see C08-forward-reference-inside-bitcast)' + ": use of an undeclared identifier in MSL",
   ["C04|F8h/fn/any/bitcast*|*|malformed-output:use of undeclared identifier*"], "fixed:8f85c46")

# ---------------------------------------------------------------- C05 (GLSL semantics)
kf("C05", "C05-vector-select-ternary", "select() with a vector condition is emitted as `bvec ? a : b`; the ?: condition must be a scalar bool in GLSL (invalid at every version)",
   ["C05|F1/call/select/*|*|malformed-output*", "C05|F4c/*|*|malformed-output:condition of ?: has type bvec#; it must be a scalar bool"])
kf("C05", "C05-clz-ctz", "countTrailingZeros is emitted as findLSB (ctz(0) = -1 instead of 32) and countLeadingZeros(i32) as 31 - findMSB(x) (wrong for negative x); for u32 both are int expressions assigned to uint (a type error in ES)",
   ["C05|F1/call/countLeadingZeros/*|*|m*", "C05|F1/call/countTrailingZeros/*|*|m*"])
kf("C05", "C05-global-init-scalar-conversion", "a module-scope variable initialised with a scalar conversion of a negated literal (`var<private> p: i32 = i32(-2147483648);`) is emitted as `int p = int(0)`: the conversion's operand is lost",
   ["C05|F1lit/private/i32|*|mismatch"])
kf("C05", "C05-abs-unsigned", "abs(u32) is emitted as abs(uint), which GLSL does not define (type error)",
   ["C05|F1/call/abs/*u32*|*|malformed-output*", "C05|F4c/*call:abs:u32*|*|malformed-output*", "C05|F4c/*call:abs:vec2<u32>*|*|malformed-output*"])

kf("C05", "C05-block-const-outlives-block", 'a function-scope `const` without type annotation declared in a nested block stays bound after the block ends (popScope does not drop the deferred initialiser): `const g: i32 = 5; fn h() -> i32 { var acc = 0; { const g = 7; acc += g; } acc += g; return acc; }` returns 14 instead of 12 (same with a module-scope var g)',
   ["C05|F8s/*/blk-const/noref/after/*|*|mismatch"], "fixed:dc4a19e")
kf("C05", "C05-workgroup-size-forward-const", '`@workgroup_size(WG)` with `const WG: u32 = 2u;` declared AFTER the entry point is compiled with workgroup size 1 (no error); with the const declared first it is 2',
   ["C05|F8o/workgroup-size-const/*|*|mismatch"], "fixed:397bbe6")
kf("C05", "C05-loop-body-value-in-continuing", 'a value bound in a loop body from a function call and used in the continuing block (`loop { if n >= 2 { break; } let t = f(0) * 2; continuing { n += 1; acc += t; } }`) is emitted in the continuing position as a reference to a name that is never declared' + " (GLSL: the function's name is used as a value)",
   ["C05|F8s/fn/loop-let/ref/*|*|malformed-output:function*used without a call"])
kf("C05", "C05-forward-call-inside-bitcast", 'forward call inside a bitcast operand (`bitcast<u32>(f1(1))` with f1 declared later): the callee is lowered and emitted after its caller (see C08-forward-reference-inside-bitcast)' + ": undeclared identifier in GLSL",
   ["C05|F8h/fn/any/bitcast*|*|malformed-output:undeclared identifier*"], "fixed:8f85c46")

# ---------------------------------------------------------------- C10 (robustness)
kf("C10", "C10-dxil-helper-local-tables-nil", "dxil.Compile panicked (assignment to entry in nil map, Emitter.preAllocateLocalVars) on a helper function with a promotable local (`let g = g(0) * 2;` in a switch clause): helper functions are emitted before the entry point creates the local-variable promotion tables",
   ["C10|panic|dxil|assignment to entry in nil map|dxil/internal/emit.(*Emitter).preAllocateLocalVars"], "fixed:6c4e843")
kf("C10", "C10-lower-global-init-alias-constructor", "`var<private> gv: V2 = V2(1, 2);` with `alias V2 = vec2<i32>;` declared between the entry point and the variable (24 of the 120 declaration orders) panics in Lowerer.buildGlobalExprFromAST: the alias name resolves to a type handle beyond the type arena (index out of range)",
   ["C10|panic|parse+lower|runtime error: index out of range [#] with length #|wgsl/internal/lower.(*Lowerer).buildGlobalExprFromAST"])
kf("C10", "C10-swizzle-chain-exponential", "a chained swizzle `v.xyzw.xyzw...` makes lowering time and memory grow exponentially: 64 links (under 400 bytes of source) exceed the CPU cap or, on a faster machine, exhaust the 4 GiB address-space limit first (out of memory in Lowerer.addExpressionRaw)",
   ["C10|cpu-cap|ladder:swizzle-chain n=*", "C10|fatal|out of memory|wgsl/internal/lower.(*Lowerer).addExpressionRaw"])
kf("C10", "C10-glsl-zero-init-oom", "GLSL writer expands the zero value of a huge private/function array element by element (zeroInitValue): `var<private> a: array<i32, 2147483647>` dies with out-of-memory; so does `array<i32, -1>` (a negative size is accepted and becomes 4294967295 elements), in every host the C11 programs put it in",
   ["C10|fatal|out of memory|glsl/internal/codegen.(*Writer).zeroInitValue", "C10|feat|arr-negative-size|fatal|out of memory|glsl/internal/codegen.(*Writer).zeroInitValue"])
kf("C10", "C10-hlsl-array-constructor-oom", "HLSL writer expands a zero-value / constructor of an array with 4294967295 elements (negative size `array<A, -1>` accepted by the front end) element by element (writeArrayConstructor): out of memory",
   ["C10|fatal|out of memory|hlsl/internal/codegen.(*Writer).writeArrayConstructor"])
kf("C10", "C10-hlsl-storage-load-expansion", "loading a whole storage array of 4294967295 elements (`var<storage, read_write> ht: array<array<i32, -1>, 2>; ... let t = ht;`, the negative size is accepted by the front end) makes the HLSL writer expand the load element by element (writeStorageLoad): CPU cap (or memory) exceeded",
   ["C10|cpu-cap|c11-programs|hlsl", "C10|fatal|out of memory|hlsl/internal/codegen.(*Writer).writeStorage*"])
kf("C10", "C10-dxil-load-store-recursion", "DXIL emitter recurses forever (tryLoadSingleStore -> emitExpression -> emitLoad ...) on a compound assignment to a struct member whose only store depends on a load of itself (`out.pos /= m * v;`): stack overflow on a valid program",
   ["C10|fatal|stack overflow|dxil/internal/emit.(*Emitter).emitBinary+*+dxil/internal/emit.(*Emitter).emitLoad+*dxil/internal/emit.(*Emitter).tryLoadPromotedLocal*"])
kf("C10", "C10-lower-nested-vec-template", "`vec2<vec2<f32>>` (vector of vector) panics in resolveParameterizedType: interface conversion ir.VectorType, not ir.ScalarType",
   ["C10|panic|*|interface conversion: ir.TypeInner is ir.VectorType, not ir.ScalarType|wgsl/internal/lower.(*Lowerer).resolveParameterizedType"])
kf("C10", "C10-lower-template-args-index", "a template type with missing arguments (e.g. `mat4x4<>`/`vec3<>` after a byte edit) panics in resolveParameterizedType: index out of range",
   ["C10|panic|*|runtime error: index out of range [#] with length #|wgsl/internal/lower.(*Lowerer).resolveParameterizedType"])
kf("C10", "C10-lower-texture-sample-args", "textureSample* called with too few arguments panics in lowerTextureSample: index out of range",
   ["C10|panic|*|runtime error: index out of range [#] with length #|wgsl/internal/lower.(*Lowerer).lowerTextureSample",
    "C10|feat|tex-sample-too-few-args|panic|*|runtime error: index out of range [#] with length #|wgsl/internal/lower.(*Lowerer).lowerTextureSample"])
kf("C10", "C10-lower-texture-load-args", "textureLoad called with a single argument (`textureLoad(1.5);`, any argument kind) panics in lowerTextureLoad: index out of range",
   ["C10|panic|*|runtime error: index out of range [#] with length #|wgsl/internal/lower.(*Lowerer).lowerTextureLoad"])
kf("C10", "C10-spirv-void-call-value", "a value-less call used as an argument (`g(v())`) lowers to handle 0 and the SPIR-V backend indexes past the expression arena in emitExpression: index out of range",
   ["C10|panic|spirv*|runtime error: index out of range [#] with length #|spirv/internal/codegen.(*ExpressionEmitter).emitExpression",
    "C10|feat|fn-void-call-as-arg|panic|*|runtime error: index out of range [#] with length #|spirv/internal/codegen.(*ExpressionEmitter).emitExpression"])
kf("C10", "C10-spirv-consume-block-nil", "code after a `continue`/`break` at the end of a loop body construct (token edit of loops_all_forms), or `break`/`continue`/`return`/`discard` inside a `continuing` block, leaves no current block: nil dereference in consumeBlock",
   ["C10|panic|*|runtime error: invalid memory address or nil pointer dereference|spirv/internal/codegen.(*ExpressionEmitter).consumeBlock",
    "C10|feat|stmt-loop-*-in-continuing|panic|*|runtime error: invalid memory address or nil pointer dereference|spirv/internal/codegen.(*ExpressionEmitter).consumeBlock"])
kf("C10", "C10-lower-override-self-reference", "an override whose initialiser names itself (`override a: i32 = a;`, also reached from @workgroup_size(a)) recurses without bound in Lowerer.buildOverrideGlobalExpr: stack overflow (a mutual cycle `a = b; b = a` is diagnosed)",
   ["C10|feat|cycle-override-self|fatal|stack overflow|wgsl/internal/lower.(*Lowerer).buildOverrideGlobalExpr", "C10|feat|cycle-wgsize-override|fatal|stack overflow|wgsl/internal/lower.(*Lowerer).buildOverrideGlobalExpr",
    "C10|feat|cycle-override-self|cpu-cap|features|*", "C10|feat|cycle-wgsize-override|cpu-cap|features|*"])
kf("C10", "C10-subgroup-result-as-operand", "the result of a subgroup shuffle or quad operation used as an operand of a binary operator (`subgroupShuffle(u, 1u) + subgroupShuffleXor(u, 1u)`, `quadBroadcast(u, 1u) + quadSwapX(u)`; valid WGSL) has no recorded type: resolveBinaryType indexes past the type table in ir.TypeResInner",
   ["C10|feat|stage-*-subgroup-ops|panic|*|runtime error: index out of range [#] with length #|ir.TypeResInner", "C10|feat|stage-*-quad-ops|panic|*|runtime error: index out of range [#] with length #|ir.TypeResInner"])
kf("C10", "C10-spirv-ray-query-intersection-after-image", "a module that uses an image operation before rayQueryGetCommittedIntersection (`_ = textureLoad(t, vec2<i32>(0), 0); var rq: ray_query; let i = rayQueryGetCommittedIntersection(&rq);`; each alone compiles) makes the SPIR-V backend index past the type arena in Backend.emitType",
   ["C10|feat|tex-2d-helper*stage-*-ray-query|panic|*|runtime error: index out of range [#] with length #|spirv/internal/codegen.(*Backend).emitType",
    "C10|feat|stage-*-ray-query&tex-2d-helper|panic|*|runtime error: index out of range [#] with length #|spirv/internal/codegen.(*Backend).emitType"])
kf("C10", "C10-dxil-uav-store-component-overflow", "a store into `array<array<array<u32, 65536>, 65536>, 65536>` in a storage buffer (byte size overflows 32 bits) makes the DXIL emitter loop over about 2^32 components in emitUAVStoreBatched: CPU cap (or memory) exceeded from a 150-byte source",
   ["C10|feat|arr-nested-byte-overflow|cpu-cap|features|dxil", "C10|feat|arr-nested-byte-overflow|fatal|out of memory|dxil/*"])
kf("C10", "C10-hlsl-struct-padding-expansion", "`struct S { @align(2147483648) a: f32, b: f32 }` in a uniform buffer: the HLSL writer emits one padding member per 4 bytes of the gap (writeStructDefinition), i.e. 2^29 lines from a 100-byte source: CPU cap or the 4 GiB limit exceeded",
   ["C10|feat|struct-align-huge|cpu-cap|features|hlsl", "C10|feat|struct-align-huge|fatal|out of memory|*"])

# ---------------------------------------------------------------- C02 (SPIR-V structure)
kf("C02", "C02-wgul-aggregate-load-type", "`workgroupUniformLoad(&warr)` / `(&wst)` on a workgroup array or struct emits an OpLoad whose result type differs from the pointee type of the workgroup variable",
   ["C02|type-load|*OpLoad: result type * differs from the pointee type*|F9/workgroupUniformLoad/*"])
kf("C02", "C02-std140-matrix-stride", "matCx2 (and f16 matrix) members of Uniform blocks get MatrixStride 8 (or 4): Vulkan's extended (std140) layout requires 16 without the uniformBufferStandardLayout feature",
   ["C02|layout-align-std140|*|corpus/access|*", "C02|layout-align-std140|*|corpus/f16|*", "C02|layout-align-std140|*|corpus/globals|*", "C02|layout-align-std140|*|corpus/hlsl_mat_cx2|*", "C02|layout-align-std140|*|corpus/ptr-deref-test|*",
    "C02|layout-align-std140|*MatrixStride*|F1s/type/f16/mat*<f16>/uniform/compute|*"])
kf("C02", "C02-transpose-result-type", "transpose()/determinant() results are typed as the argument (see C09-math-result-type): OpCompositeExtract on the transposed value walks the wrong type",
   ["C02|type-composite-extract|*|builtin_function_sampler|*"])
kf("C02", "C02-ptr-private-access-chain-class", "member access through a ptr<private, composite> parameter emits OpAccessChain with a Function-class result pointer on a Private-class base",
   ["C02|type-access-chain|*storage class*|pointer_params_compound_incdec|*"])
kf("C02", "C02-binding-array-capability", "an unsized binding_array<T> becomes a run-time descriptor array without declaring capability RuntimeDescriptorArray",
   ["C02|capability|*RuntimeDescriptorArray*|corpus/binding-arrays|*"])
kf("C02", "C02-rzsw-missing-selection-merge", "ImageLoad policy ReadZeroSkipWrite on an image without mip levels (storage or multisampled texture): the bounds test ends its block in OpBranchConditional without any OpSelectionMerge (`@group(0) @binding(0) var t: texture_storage_2d<r32float, read>; ... textureLoad(t, c)`)",
   ["C02|selection-structured|*has no OpSelection*|F1s/textureLoad/storage_*|*bounds=rzsw*", "C02|selection-structured|*has no OpSelection*|F1s/textureLoad/*multisampled_2d*|*bounds=rzsw*"] +
   ["C02|selection-structured|*has no OpSelection*|corpus/" + n + "|*bounds=rzsw*" for n in ["bounds-check-image-restrict", "bounds-check-image-restrict-depth", "bounds-check-image-rzsw", "bounds-check-image-rzsw-depth", "image", "storage-textures", "texture-external"]])
kf("C02", "C02-restrict-clamp-constant-type", "ImageLoad policy Restrict on a 2-or-more-component coordinate: the clamp constant is an OpConstantComposite of type vecN<u32> built from i32 OpConstants (`textureLoad(t2d, vec2<i32>(..), 0)`)",
   ["C02|type-constant|*constituent # has type i#, component type is u#|F1s/textureLoad/*|*bounds=restrict*"] +
   ["C02|type-constant|*constituent # has type i#, component type is u#|corpus/" + n + "|*bounds=restrict*" for n in ["image", "storage-textures", "texture-external"]])
kf("C02", "C02-texture-load-sint-conversion", "`vec4<f32>(textureLoad(t, ..))` with t a sampled texture of i32: the conversion is dropped (the lowerer types the load as vec4<f32>), so a vec4<i32> is stored into a vec4<f32> variable (`@vertex fn main(..) -> @builtin(position) vec4<f32> { let r = textureLoad(t, c, l); return vec4<f32>(r); }`, t: texture_2d<i32>)",
   ["C02|type-store|OpStore: object type vec#<i#> differs from the pointee type vec#<f#>|F1s/textureLoad/*<i32>/*/vertex|*"])
kf("C02", "C02-const-composite-index", "constant index into a module/let constant matrix or nested array (`const k = mat2x2<f32>(1.0, 2.0, 3.0, 4.0); out = k[1];`) is folded over the flattened scalars: a scalar is stored where a column / inner array is expected (const-evaluator defect, see C06)",
   ["C02|type-store|OpStore: object type f# differs from the pointee type vec#<f#>|F1s/const/mat*|*", "C02|type-store|OpStore: object type f# differs from the pointee type vec#<f#>|F1s/const/array<vec3<f32>, 2>*|*",
    "C02|type-store|OpStore: object type u# differs from the pointee type array<u#,%#>*|F1s/const/array<array<u32, 2>, 2>/module/compute|*"])
kf("C02", "C02-bgra8unorm-duplicate-image-type", "texture_storage_*<bgra8unorm, _> and texture_storage_*<rgba8unorm, _> of one dimensionality in one module both become OpTypeImage .. Rgba8: the non-aggregate type is declared twice",
   ["C02|type-unique|*OpTypeImage: type image## duplicates*|F1s/texpair/storage_2d<rgba8unorm,*>+storage_2d<bgra8unorm,*>/fragment|*", "C02|type-unique|*OpTypeImage: type image## duplicates*|F1sMany/images|*"])
kf("C02", "C02-workgroup-uniform-load-array-type", "workgroupUniformLoad(&w) with w: array<u32, 4> loads with the ArrayStride-decorated array type from a pointer to the undecorated workgroup array type (OpLoad result type differs from the pointee)",
   ["C02|type-load|*OpLoad: result type array<u#,%#>## differs from the pointee type array<u#,%#>##|F1s/workgroupUniformLoad/array<u32, 4>/compute|*"])
kf("C02", "C02-external-texture-query-size", "textureLoad on a texture_external under an ImageLoad bounds policy queries the plane size with OpImageQuerySize on a sampled, single-sampled 2D image (needs MS = 1 or Sampled = 0/2; OpImageQuerySizeLod is the instruction for sampled images)",
   ["C02|image-query-class|*OpImageQuerySize on a #D/#D/#D/Cube image needs MS*|corpus/texture-external|*bounds=*"])
kf("C02", "C02-f16-push-constant-capability", "a var<push_constant> whose struct holds f16 members (`enable f16; struct PC { a: f16 } var<push_constant> pc: PC;`) declares Float16 and the 16-bit buffer capabilities but not StoragePushConstant16, which SPV_KHR_16bit_storage requires for 16-bit elements in the PushConstant storage class",
   ["C02|capability|*PushConstant storage class requires capability StoragePushConstant#, which is not de*|F1s/type/push_constant/f16/compute|*"])
kf("C02", "C02-atomic-f32-integer-opcode", "atomicSub/atomicMax/atomicMin on atomic<f32> (accepted by the front end) are emitted as the integer opcodes OpAtomicISub/OpAtomicUMax/OpAtomicUMin on a float pointee",
   ["C02|type-atomic|*pointee type f# is not an integer scalar|F1s/type/atomicf32/storage/atomic*/compute|*"])

# ---------------------------------------------------------------- C09 (IR contract)
kf("C09", "C09-global-init-scalar-conversion", "`var<private> p: i32 = i32(-2147483648);` is lowered to a global Compose of the scalar type i32 from one i32 operand (a scalar type is not constructible by Compose)",
   ["C09|expr-operand|global-expr e# (ir.ExprCompose): compose ##:i# from (i#): type is not constructible|F1lit/private/i32"])
kf("C09", "C09-math-result-type", "transpose(m) and determinant(m) record the argument's type as their result type (resolveMathType has no case for them)",
   ["C09|expr-type|*ir.ExprMath*|F1/call/transpose/*", "C09|expr-type|*ir.ExprMath*|F1/call/determinant/*", "C09|expr-type|*|builtin_function_sampler"])
kf("C09", "C09-splat-empty-resolution", "a Splat whose vecN type is not in the type arena is recorded with an empty TypeResolution",
   ["C09|expr-type|*(ir.ExprSplat): recorded type unusable: empty type resolution*|corpus/*"])
kf("C09", "C09-abstract-types-var-stale-types", "after `var b: vec2<u32> = vec2(44,45); b = vec2(44,45);` the concretised literals/Compose/Splat keep their first recorded (i32/f32) types in ExpressionTypes",
   ["C09|expr-type|*|corpus/abstract-types-var"])
kf("C09", "C09-abstract-float-survives", "`m * 2.0` with m a matrix leaves a LiteralAbstractFloat in the function arena (and the Binary then has an abstract operand)",
   ["C09|no-abstract|*LiteralAbstractFloat*|corpus/matrices", "C09|expr-type|*abstract-float*|corpus/matrices", "C09|expr-operand|*abstract-float*|corpus/matrices",
    "C09|no-abstract|*LiteralAbstractFloat*|matrices_and_arrays_in_buffers", "C09|expr-type|*abstract-float*|matrices_and_arrays_in_buffers", "C09|expr-operand|*abstract-float*|matrices_and_arrays_in_buffers"])
kf("C09", "C09-override-init-type", "`override o: u32 = 0;` keeps an f32 literal as the override's initialiser",
   ["C09|expr-type|override*|corpus/overrides"])
kf("C09", "C09-literal-in-emit-range", "literals created while lowering nested constructor/swizzle expressions sit inside an Emit range (literals are never emitted)",
   ["C09|emit-never|*(ir.Literal) is covered by*|*"])
kf("C09", "C09-const-array-element-store", "`out[0] = positions[1]` with positions a module const array of vec4 stores the scalar component instead of the vector (mesh-shader.wgsl): store type mismatch",
   ["C09|store-type|*|corpus/mesh-shader"])
kf("C09", "C09-cmpxchg-result-member-emit", "members of the atomicCompareExchangeWeak result used in a later statement are not covered by a dominating Emit",
   ["C09|emit-dominates|*|atomics_workgroup_barriers"])
# F9 (statement-lowered builtins x compaction triggers; keys end in F9/<class>/<builtin>/<mode>[+<second builtin>], F9lite programs in their full signature)
kf("C09", "C09-atomicstore-operands-emitted-late", "`atomicStore(&sa.arr[i], v)` / `atomicStore(&wa, r + 1i)`: the Store that atomicStore lowers to precedes the Emit of its own pointer access chain / value expression (operands written inline, or a pointer that needs an access chain): used before emitted",
   ["C09|emit-dominates|*ir.StmtStore uses e# (ir.Expr*) where it is not available*|F9/atomic/atomicStore/*", "C09|emit-dominates|*ir.StmtStore uses e# (ir.Expr*) where it is not available*|F9/*+atomicStore",
    "C09|emit-dominates|*ir.StmtStore uses e# (ir.Expr*) where it is not available*|F9/atomicStore/*"])
kf("C09", "C09-imageatomic-operands-emitted-late", "`textureAtomicAdd(t, vec2<u32>(lid, 0u), lid + 1u)`: the ImageAtomic statement precedes the Emit of its inline coordinate / value expressions",
   ["C09|emit-dominates|*ir.StmtImageAtomic uses e# (ir.Expr*) where it is not available*|F9/texatomic/*", "C09|emit-dominates|*ir.StmtImageAtomic uses e# (ir.Expr*) where it is not available*|F9/*+textureAtomic*"])
kf("C09", "C09-rayquery-generate-operand-emitted-late", "`rayQueryGenerateIntersection(&rq, f32(lid) * 0.5)`: the RayQuery statement precedes the Emit of its inline hit distance",
   ["C09|emit-dominates|*ir.StmtRayQuery uses e# (ir.Expr*) where it is not available*|F9/rayquery/rayQueryGenerateIntersection/*", "C09|emit-dominates|*ir.StmtRayQuery uses e# (ir.Expr*) where it is not available*|F9/*+rayQueryGenerateIntersection"])
kf("C09", "C09-special-type-not-remapped", "`let t = vec4<u32>(1u,2u,3u,4u).zw;` in a function that uses rayQueryGetCandidateIntersection: the type compaction run by lowering drops vec4<u32> but leaves SpecialTypes.RayIntersection (and so the type of every RayQueryGetIntersection) at its old, now out-of-range handle",
   ["C09|handle-range|special type handle # out of range|F9/*", "C09|expr-operand|*(ir.ExprRayQueryGetIntersection): type handle # out of range|F9/*"])
kf("C09", "C09-as-of-bool-result-empty-resolution", "`u32(subgroupAll(c))`, `u32(subgroupAny(c))`, `u32(workgroupUniformLoad(&wb))` with wb: bool: the As conversion of a bool statement result is recorded with an empty TypeResolution",
   ["C09|expr-type|*(ir.ExprAs): recorded type unusable: empty type resolution (inferred u#)|F9/*"])
kf("C09", "C09-wgul-result-index-empty-resolution", "`workgroupUniformLoad(&warr)[lid & 3u]` (dynamic index into the array a workgroupUniformLoad yields): the Access is recorded with an empty TypeResolution",
   ["C09|expr-type|*(ir.ExprAccess): recorded type unusable: empty type resolution*|F9/wgul/*", "C09|expr-type|*(ir.ExprAccess): recorded type unusable: empty type resolution*|F9/*+workgroupUniformLoad", "C09|expr-type|*(ir.ExprAccess): recorded type unusable: empty type resolution*|F9/workgroupUniformLoad/*"])
kf("C09", "C09-wgul-atomic-result-type", "`workgroupUniformLoad(&wat)` with wat: atomic<u32> records atomic<u32> as the type of its result; WGSL defines the result as u32",
   ["C09|expr-type|*(ir.ExprWorkGroupUniformLoadResult): recorded ##:atomic<u#>, inferred u#|F9/*"])
kf("C09", "C09-reordertypes-not-idempotent", "ir.ReorderTypes applied twice to the lowered module of `out[lid] = u32(subgroupAny(lid > 1u));` next to a vec4<u32> constructor gives a different type order than applied once (two types keep swapping places)",
   ["C09|pass-not-idempotent|ReorderTypes|F9/collective/subgroupA*"])

kf("C09", "C09-alias-scalar-duplicate-type", "`alias AI = i32;` adds a second i32 entry to the type arena: a variable or member declared with the alias has a different type handle than the i32 values stored to it (`alias AI = i32; var<private> g: AI = 1; ... g = g + 1;` stores #2:i32 through ptr<#4:i32>), so the module is not deduplicated",
   ["C09|store-type|*|F8o/alias-chain/*", "C09|store-type|*|F8o/struct-nest/*", "C09|store-type|*|F8o/var-init/*"])
kf("C09", "C09-forward-call-inside-bitcast", "forward call inside a bitcast operand (`bitcast<u32>(f1(1))` with f1 declared later): the call is lowered before its callee, so the argument literal stays abstract-int, the call result and the bitcast have no recorded type (see C08-forward-reference-inside-bitcast)",
   ["C09|call-args|*|F8h/fn/any/bitcast*", "C09|no-abstract|*|F8h/fn/any/bitcast*", "C09|expr-type|*|F8h/fn/any/bitcast*"], "fixed:8f85c46")

# ---------------------------------------------------------------- C12 (determinism, histories, schedules)
kf("C12", "C12-backend-version-leak", "a reused spirv.Backend kept options.Version bumped to 1.4 by an earlier Compile (atomicOps-int64, workgroup-var-init): every later module was emitted as SPIR-V 1.4",
   ["C12|backend-reuse|*|after corpus/atomicOps-int64", "C12|backend-reuse|*|after corpus/workgroup-var-init"], "fixed:cda026a")
kf("C12", "C12-dxil-writes-global-binding", "dxil.Compile wrote a synthetic ResourceBinding into the caller's push-constant global (push-constants, extra): later SPIR-V/MSL output changed",
   ["C12|mutates-module|dxil|corpus/push-constants|*", "C12|mutates-module|dxil|corpus/extra|*", "C12|history-dependent|*|after dxil*|corpus/push-constants", "C12|history-dependent|*|after dxil*|corpus/extra",
    "C12|interleave|dxil mutates shared module: corpus/push-constants.wgsl:*"], "fixed:a1a8a9c")
kf("C12", "C12-dxil-rewrites-nested-blocks", "dxil.Compile's IR passes rewrote nested statement blocks shared with the caller's module (debug-symbol-simple): a store disappeared and every backend's later output changed",
   ["C12|mutates-module|dxil|corpus/debug-symbol-simple|*", "C12|history-dependent|*|after dxil*|corpus/debug-symbol-simple", "C12|interleave|dxil mutates shared module: corpus/debug-symbol-simple.wgsl:*"], "fixed:efb13fd")
kf("C12", "C12-unused-let-map-order", "names of unused let bindings that alias one expression were taken from a map walk (registerUnusedLetBindings): lowered module and text output changed from run to run",
   ["C12|maporder|map order changes output: lower: own/m4_unused_lets.wgsl:*"], "fixed:2ca6108")
kf("C12", "C12-overrides-shallow-clone", "ir.CloneModuleForOverrides shares nested statement blocks (and pointer-held handles) with the source module, so ProcessOverrides on the clone rewrites the caller's module: later MSL/DXIL output of the same module changes or fails (\"invalid expression handle\"), and concurrent use races in remapBlockHandles. Not repaired: the repository's golden file overrides-ray-query.msl encodes the aliased behaviour, so a deep clone fails the existing test suite",
   ["C12|mutates-module|overrides|overrides_nested_use|*", "C12|history-dependent|*|after overrides*|overrides_nested_use",
    "C12|interleave|overrides mutates shared module: own/d3_overrides.wgsl:*", "C12|interleave|* output differs from solo run: H3: own/d3_overrides.wgsl: shared state written by overrides",
    "C12|race|data race: write in ir.remapBlockHandles", "C12|race|free-running output differs from solo: *: H3: own/d3_overrides.wgsl"])

# ---------------------------------------------------------------- C13 (IR passes)
kf("C13", "C13-inline-call-result-load", "ir.InlineUserFunctions replaces a call result by a Load that refers forward and is covered by no Emit range (and leaves callee expressions unemitted): the module is ill-formed and an interpreter following the Emit discipline cannot run it; the DXIL pipeline inherits this through prepareModule",
   ["C13|ill-formed|InlineAll|emit-*", "C13|ill-formed|InlineAll|handle-backward:*", "C13|behaviour|InlineAll|malformed-output*|*",
    "C13|ill-formed|dxil-pipeline|emit-*", "C13|ill-formed|dxil-pipeline|handle-backward:*", "C13|behaviour|dxil-pipeline|malformed-output*|*"])
kf("C13", "C13-inline-return-in-loop", "inlining a callee that returns from inside a loop, a nested block or a switch clause turns the return into an exit of that construct only: the inlined code keeps running (step limit exceeded / different result, e.g. `{ return; } acc = ...;`)",
   ["C13|behaviour|InlineAll|non-termination|*",
    # the same defect when the return sits in a nested block or switch clause (or a loop that then ends normally): the statements after the construct still run
    "C13|behaviour|InlineAll|different-result|F2/callee/*b*", "C13|behaviour|InlineAll|different-result|F2/callee/*l*", "C13|behaviour|InlineAll|different-result|F2/callee/*s*",
    "C13|behaviour|dxil-pipeline|different-result|F2/callee/*b*", "C13|behaviour|dxil-pipeline|different-result|F2/callee/*l*", "C13|behaviour|dxil-pipeline|different-result|F2/callee/*s*"])
kf("C13", "C13-mem2reg-loop-carried", "mem2reg's single-block promotion treats a loop body as straight-line code: a variable declared outside `loop { k++; if k > 2u { break; } }` is promoted with every load at the top of the body aliased to the initial value, so the loop never terminates; reached also through the DXIL pipeline",
   ["C13|behaviour|mem2reg|non-termination|*", "C13|behaviour|dxil-pipeline|non-termination|*"])
kf("C13", "C13-mem2reg-not-idempotent", "running mem2reg (or the DXIL pipeline) a second time changes the module again (appends expressions), contrary to its documented idempotence",
   ["C13|not-idempotent|mem2reg|*", "C13|not-idempotent|dxil-pipeline|*"])
kf("C13", "C13-dce-after-inline", "dce applied to an inlined module removes or reorders statements differently on a second run and, when a function calls a helper as a statement (`h(c0);`, whose only effect is on a private variable), changes the computed result",
   ["C13|not-idempotent|dce|*", "C13|behaviour|dce|different-result|F2/callee/*", "C13|behaviour|dce|different-result|F2L/*/H*"])
kf("C13", "C13-mem2reg-store-before-loop", "mem2reg loses the value a local holds when a loop is entered if the loop's continuing block also stores to that local: `a = a * 31u + 1u; loop { ...; break; continuing { a = a * 31u + 3u; break if c; } } use(a)` reads a wrong value after the loop even when the continuing block never runs; reached also through the DXIL pipeline",
   ["C13|behaviour|mem2reg|different-result|F2L/*/l", "C13|behaviour|dxil-pipeline|different-result|F2L/*/l", "C13|behaviour|mem2reg|different-result|F2L/*/el", "C13|behaviour|dxil-pipeline|different-result|F2L/*/el"])

kf("C13", "C13-mem2reg-switch-break", "mem2reg ignores a `break` that leaves a switch clause early: for `switch x { default: { if c { } else { break; } a = a * 31u + 1u; } } use(a)` the value merged after the switch is the clause's last store even on the path that left through the `break`, where that expression (or the phi built from it) was never evaluated - the module no longer executes (\"used before it was emitted\")",
   ["C13|behaviour|mem2reg|malformed-output:*|F2L/*/bs", "C13|behaviour|mem2reg|malformed-output:*|F2L/*/es"])

kf("C13", "C13-dce-unmarks-statement-operand", "dce unmarked an expression that fed the condition of an empty `if` although a surviving statement used it directly (`let c0 = inp[gi].x; switch c0 { default: { a = ...; } } if (c0 & 1u) == 1u { }`): the Emit range of the load was dropped and the switch selector referred to an expression that is never evaluated",
   ["C13|behaviour|dce|malformed-output:*|F2L/entrylocal/*e*s", "C13|ill-formed|dce|emit-cover:*|F2L/entrylocal/*e*s", "C13|ill-formed|dce|emit-dominates:*|F2L/entrylocal/*e*s"], "fixed:1002bd3")


# C13 x F13s (operation sequences on a function-local struct): failure classes of the unchanged tree, recorded
# mechanically per (pass, failure class, wrapping, set of operations) in kf_c13_f13s_keys.json
_f13 = json.load(open(os.path.join(os.path.dirname(os.path.abspath(__file__)), "kf_c13_f13s_keys.json")))
kf("C13", "C13-sroa-struct-local", "sroa on a function-local struct that is read or written as a whole (`let t = s;`, `s = S(...)`, `s = s2;`, `bump(&s, k)`) next to field stores leaves LocalVariable expressions of the removed struct type and Compose expressions of a scalar type behind (ill-formed module that no longer executes); e.g. `var s: S; s.a = 1u; let t = s;`",
   _f13["sroa"])
kf("C13", "C13-dce-struct-local", "dce on functions with a struct local drops Emit coverage of AccessIndex expressions that are still used (ill-formed module) and, for some sequences, removes stores that a later whole-value read observes (different result)",
   _f13["dce"] + _f13["other"])
kf("C13", "C13-dxil-pipeline-struct-local", "the DXIL pipeline (prepareModule + runOptPasses) inherits the sroa/dce defects on struct locals: ill-formed modules, different results, and a second run changes the module again",
   _f13["dxil-pipeline"] + _f13["mem2reg"])

# ---------------------------------------------------------------- C18 (DXIL container / bitcode)
kf("C18", "C18-atomic-ordering-code", "atomicrmw/cmpxchg records carry ordering code 7 (the in-memory enum value) instead of the bitcode AtomicOrderingCodes value 6 for seq_cst",
   ["C18|func.enum|*ordering code # is not an AtomicOrderingCodes value*|*"])
kf("C18", "C18-phi-after-grouped-switch-clause", "a function-local variable assigned in a switch that has a multi-selector clause (`case 1, 2:` or `case 0, default:`, lowered to a fall-through chain) and read after the switch: the phi at the merge block lists an incoming block that is not a predecessor of the merge block (invalid LLVM IR)",
   ["C18|func.ssa|function @*: phi (instruction #, block #) has an incoming value from block #, which is not a predecessor|F2L"])
kf("C18", "C18-signature-rows-over-32", "vertex shaders with more than 32 inputs (msl-vpt-formats-x*) get signature registers/rows >= 32 in ISG1 and PSV0; the D3D limit of 32 rows is not enforced",
   ["C18|sig.element|*|corpus/msl-vpt-formats-x*", "C18|psv.sig-elements|*|corpus/msl-vpt-formats-x*"])
kf("C18", "C18-psv-barycentrics-count", "@builtin(barycentric): PSV0 declares more signature elements than it stores (part too short for the declared element table)",
   ["C18|psv.layout|*|corpus/barycentrics"])
kf("C18", "C18-binding-array-range-overlap", "binding-arrays with the default binding map: unbounded descriptor ranges overlap the following resources in dx.resources metadata",
   ["C18|dxmeta.resource-overlap|*|corpus/binding-arrays"])
kf("C18", "C18-int64-constants", "int64 shader: 64-bit literal emitted under an i32 SETTYPE, i32/i64 operand mixes, extractvalue index out of range",
   ["C18|module.const-range|*|corpus/int64", "C18|func.type-check|*|corpus/int64", "C18|func.*|*|corpus/atomicOps-int64"])
kf("C18", "C18-f16-records", "f16 shader: cast record with a forward-referenced operand and no type operand, half/float/CBufRet operand mixes",
   ["C18|func.record|*|corpus/f16", "C18|func.type-check|*|corpus/f16"])
kf("C18", "C18-load-store-through-handle", "an element store/load on a storage-buffer matrix or a read-modify-write of a storage element is emitted as an LLVM load/store whose pointer operand is a %dx.types.Handle",
   ["C18|func.type-check|*non-pointer type %dx.types.Handle|*"])
kf("C18", "C18-cbufret-bitcast", "a uniform matCx2/matCx3 column selected by a dynamic index is emitted as a bitcast/GEP on a %dx.types.CBufRet value",
   ["C18|func.type-check|*%dx.types.CBufRet.f#*|corpus/hlsl_mat_cx*", "C18|func.type-check|*GEP base of type %dx.types.Handle is not a pointer|corpus/hlsl_mat_cx*"])
kf("C18", "C18-pointer-used-as-value", "pointer-typed locals/parameters (ptr<function>/<private> arguments, let-bound pointers, private arrays) are used where a value is required: load from a non-pointer, float* passed as float, value used before its definition in the same block",
   ["C18|func.type-check|*load from non-pointer type i#|*", "C18|func.type-check|*load from non-pointer type float|*", "C18|func.ssa|*defined later in the same block*|*",
    "C18|func.type-check|*has type float#, the record implies float|*", "C18|func.type-check|*has type float*, the record implies float|*", "C18|func.type-check|*invalid pointer bitcast|*"])
kf("C18", "C18-nested-array-of-struct-access", "dynamic access chains into arrays of structs nested in a storage struct (nested_struct_access_chains) are emitted against aggregate pointee types: load/store value types do not match the pointee, aggregate-to-int bitcast",
   ["C18|func.type-check|*|nested_struct_access_chains"])
kf("C18", "C18-int-float-operand-mix", "integer `%` on u32 vectors (and some constructor paths) produce binop records whose operands mix float and i32 values",
   ["C18|func.type-check|*has type float, the record implies i#|*", "C18|func.type-check|*has type i#, the record implies float|*"])
kf("C18", "C18-i8-constant-argument", "dx.op calls for countLeadingZeros/sign/extractBits/insertBits, and unary `-`/`~`, on 4-component vectors pass an i8-typed constant where the callee expects i32",
   ["C18|func.type-check|*has type i#, the record implies i#|F1/call/*", "C18|func.type-check|*has type i#, the record implies i#|F1/un/*/vec4<*"])
kf("C18", "C18-nondeterministic-phi-order", "dxil.Compile gave different bytes from call to call for a function with two or more promotable locals assigned in one control-flow arm: mem2reg appended the phi expressions in Go's randomised map iteration order",
   ["C18|nondeterministic|F2L", "C18|nondeterministic|F2"], "fixed:6812b90")
kf("C18", "C18-dead-code-after-block-return", "a `return` that follows a block which itself returns (`{ return a; } return a;` — valid WGSL, dead code) is emitted as an instruction record after the terminator of the last basic block",
   ["C18|func.terminators|function @*: instruction record (code #) after the terminator of the last declared block*|F2*"])
kf("C18", "C18-vector-component-float-compare", "a float comparison whose operand is a component taken from a float vector (`v.y < x`, `v[1] == x`) is emitted as an integer instruction: an icmp record carrying a floating-point predicate code, an fp-to-int cast from i32 (the extracted component is typed as an integer)",
   ["C18|func.type-check|*icmp predicate # out of range|F4c/*", "C18|func.type-check|*cast opcode # from i# to i#: invalid fp-to-int|F4c/conv:*(swz:y:vec2<f32>)", "C18|func.type-check|*cast opcode # from i# to i#: invalid fp-to-int|F4c/conv:*(idx:1:vec2<f32>)"])
kf("C18", "C18-vector-unary-in-composition", "a unary operator on a 2-component vector (`!b2`, `~v`, `-v`) used directly as the operand of a conversion, select, swizzle or index: operands typed i8/i1/i32 inconsistently, or a forward reference to a call result of type void",
   ["C18|func.type-check|*|F4c/*(un:!:vec2<bool>)", "C18|func.type-check|*|F4c/*(un:~:vec2<*", "C18|func.type-check|*|F4c/*(un:-:vec2<*", "C18|func.record|*|F4c/*(un:!:vec2<bool>)"])
kf("C18", "C18-bool-width", "boolean values are materialised inconsistently as i1 and i32: zext/sext from i32 to i32 for `!` on bool vectors, i32 stored through an i1 pointer for `&&`",
   ["C18|func.type-check|*invalid zext/sext|*", "C18|func.type-check|*does not match pointee type i#|*",
    "C18|func.type-check|*operand value # has type i#, the record implies i#|F4c/*bin:&&:bool:bool*", "C18|func.type-check|*operand value # has type i#, the record implies i#|F4c/*bin:||:bool:bool*",
    "C18|func.type-check|*select condition has type i#, want i# or <n x i#>|F4c/*bin:&&:bool:bool*", "C18|func.type-check|*select condition has type i#, want i# or <n x i#>|F4c/*bin:||:bool:bool*"])
kf("C18", "C18-switch-phi-dominance", "switch statements assigning a variable produce phi nodes whose incoming values are defined in non-dominating blocks / forward references of the wrong type (debug-symbol-terrain)",
   ["C18|func.ssa|*phi*|corpus/debug-symbol-*", "C18|func.type-check|*forward reference*|corpus/debug-symbol-*"])
kf("C18", "C18-gep-flattened-struct", "a nested struct local is flattened but the member GEP keeps the nested source element type (corpus/access)",
   ["C18|func.type-check|*explicit GEP source element type*|corpus/access", "C18|func.type-check|*GEP index # steps into non-aggregate type*|corpus/access"])
kf("C18", "C18-cbuffer-resource-id", "with a workgroup/private mix, the cbuffer record in dx.resources has resource id 1 instead of the zero-based index in its class list",
   ["C18|dxmeta.resources|*|private_workgroup_init_and_const_arrays", "C18|dxmeta.resources|cbuffer record # has resource id #*|private_workgroup_init_and_const_arrays|map:*"])

# ---------------------------------------------------------------- C19 (neutral edits)
kf("C19", "C19-cr-line-comment", "a line comment terminated by a lone carriage return swallowed the following source text (statements or whole entry points vanished, or the program was rejected)",
   ["C19|insert-line-comment-cr|*"], "fixed:37e62d1")
kf("C19", "C19-template-close-ge", "`vec2<f32>=...` (no space between a template list and '=') was rejected although the same text with a space was accepted",
   ["C19|join-template-close-=|rejected-after-edit(parse)|*"], "fixed:bb86276")
kf("C19", "C19-blankspace-code-points-rejected", "the lexer knows only space, tab, LF and CR as blankspace: a vertical tab, form feed, U+0085 (next line), U+200E/U+200F (directional marks), U+2028 or U+2029 between two tokens (all WGSL blankspace) makes a valid program a parse error, e.g. `fn f() {<U+000B>}`",
   [f"C19|enum-trivia:{c}/W-{b}@*|rejected-after-edit(parse)|trivia/*" for b in ("vt", "ff", "nel", "lrm", "rlm", "ls", "ps") for c in ("blank", "block")], "fixed:9a6c75a")
kf("C19", "C19-line-comment-other-line-breaks", "a line comment is ended only by LF or CR: after `// c` + VT / FF / U+0085 / U+2028 / U+2029 (all WGSL line breaks) the rest of the physical line is still comment, so the program is rejected or (comment in front of `@group(0) @binding(0)`) loses its attributes",
   [f"C19|enum-trivia:{c}/L-{b}@*|rejected-after-edit(parse)|trivia/*" for b in ("vt", "ff", "nel", "ls", "ps") for c in ("line", "line+block")] +
   [f"C19|enum-trivia:{c}/L-{b}@start|lowered-module-differs|trivia/compute" for b in ("vt", "ff", "nel", "ls", "ps") for c in ("line", "line+block")], "fixed:9a6c75a")

# ---------------------------------------------------------------- C11 (diagnostics)
kf("C11", "C11-silent-expect", "a missing ')' ']' or '>' was silently accepted by Parser.expect: `f(1, 2;`, `o[0;`, `@group(0 @binding(0)` compiled, or the error was reported at an unrelated earlier position",
   ["C11|unbalanced-delimiter|*"], "fixed:dd2be53")
kf("C11", "C11-const-div-zero-contexts", "integer division/remainder by zero in a constant expression is diagnosed only in module-scope `const` initialisers and `case` selectors; everywhere else that was enumerated the program compiles: function bodies (`acc = 1 / 0;`, `const t = 1 % 0;`, `let t = KC / KZ;`), array sizes (`array<i32, (3 / 0)>`), `@workgroup_size((1 / 0))`, @align/@size/@location arguments, override and typed `var<private> p: i32 = 1 / 0` initialisers, `const_assert 4 == (1 / 0)`",
   ["C11|const-div-zero@workgroup_size|accepted|*", "C11|const-mod-zero@workgroup_size|accepted|*", "C11|const-div-zero@array-size|accepted|*", "C11|const-mod-zero@array-size|accepted|*",
    "C11|G:const-div-zero(*|accepted|*", "C11|M:const-div-zero(*|accepted|*",
    "C11|const-div-zero@const|accepted|rich/*", "C11|const-mod-zero@const|accepted|rich/*", "C11|const-div-zero@const_assert|accepted|rich/*", "C11|const-mod-zero@const_assert|accepted|rich/*"])
kf("C11", "C11-call-arg-type-unchecked", "a user-function call whose argument has the wrong concrete type is accepted: `f(1.5f, c1)` for `fn f(c0: u32, c1: u32)`; only bool/non-bool, scalar/vector/struct and vector-width mismatches are diagnosed (scalar kinds i32/u32/f32/abstract-float, vector element types and distinct struct types are interchangeable: `f1(1.5f)`, `f1(1u)`, `f1(1.5)` for `fn f1(a: i32)`, `fv(vec3<i32>())` for vec3<f32>, `fs(SJ(1, 2))` for `fn fs(s: SI)`)",
   ["C11|call-arg-type|accepted|*",
    "C11|G:call-arg-type(call-i32:i32<-f32)|accepted|*", "C11|G:call-arg-type(call-i32:i32<-u32)|accepted|*", "C11|G:call-arg-type(call-i32:i32<-absfloat)|accepted|*",
    "C11|G:call-arg-type(call-i32-f32:i32<-f32)|accepted|*", "C11|G:call-arg-type(call-i32-f32:f32<-u32)|accepted|*", "C11|G:call-arg-type(call-i32-f32:f32<-i32)|accepted|*",
    "C11|G:call-arg-type(call-vec:vec3f<-vec3i)|accepted|*", "C11|G:call-arg-type(call-struct:struct<-other-struct)|accepted|*", "C11|G:call-arg-type(stmt-call:stmt-i32<-f32)|accepted|*"])
kf("C11", "C11-negative-array-size", "`array<T, -1>` (also `array<T, 1 - 2>`, `array<T, KN>` with `const KN = -1`, and as a nested element type) is accepted wherever a type can be written: alias, struct member, module-scope and function-scope var, parameter, return type, pointer pointee, constructor (a non-positive size is only diagnosed for 0)",
   ["C11|array-size-negative|accepted|*", "C11|G:array-size-negative(*|accepted|*", "C11|M:array-size-negative(*|accepted|*"])
kf("C11", "C11-unchecked-const-expression-contexts", "the expression in an array size, a @workgroup_size / @align / @size / @location argument, a `const_assert` operand (module and function scope), an override initialiser or a typed `var<private> p: i32 = E` initialiser is not resolved strictly: an undeclared identifier (`array<i32, zz>`, `@workgroup_size(zz)`, `const_assert zz > 0;`, `var<private> p: i32 = zz;`), an unknown function, an unknown struct member or an invalid swizzle there is accepted and the program compiles",
   ["C11|M:undeclared-identifier(ident-const:*|accepted|*", "C11|M:unknown-function(unknown-fn-const:*|accepted|*", "C11|M:unknown-member(member-ctor:*|accepted|*", "C11|M:swizzle-*(swizzle-const:*|accepted|*",
    "C11|G:undeclared-identifier(ident-const:*|accepted|local-array-size/*", "C11|G:unknown-function(unknown-fn-const:*|accepted|local-array-size/*", "C11|G:unknown-member(member-ctor:*|accepted|local-array-size/*", "C11|G:swizzle-*(swizzle-const:*|accepted|local-array-size/*",
    "C11|G:undeclared-identifier(ident-const:*|accepted|const-assert-stmt/*", "C11|G:unknown-function(unknown-fn-const:*|accepted|const-assert-stmt/*", "C11|G:unknown-member(member-ctor:*|accepted|const-assert-stmt/*", "C11|G:swizzle-*(swizzle-const:*|accepted|const-assert-stmt/*",
    "C11|undeclared-identifier|accepted|rich/all-declaration-and-statement-kinds"])
kf("C11", "C11-const-assert-forward-const", "a false `const_assert KC == 1;` (function scope or module scope) is accepted when the module constant it mentions (`const KC: i32 = 4;`) is declared after the assertion / after the function containing it: an assertion that cannot be evaluated at that point passes silently",
   ["C11|G:const-assert-false(const-assert-const:module-const)|accepted|stmt/*/decls-after", "C11|M:const-assert-false(const-assert-const:module-const)|accepted|module-const-assert/after-users"], "fixed:c2eb449")
kf("C11", "C11-function-const-scope-leak", "a function-scope `const k = 7;` declared in a nested block (if/else arm, loop body, switch clause, compound statement) stays visible after the block ends: `{ const k = 7; } acc = k;` and `if c { const k = 7; } else { acc = k; }` compile (let/var are scoped correctly)",
   ["C11|S:undeclared-identifier(out-of-scope:const:value)|accepted|*"], "fixed:dc4a19e")
kf("C11", "C11-builtin-result-discarded", "a call statement that discards the result of a builtin function (`min(1, 2);`; every value-returning builtin is @must_use in WGSL) is accepted; only user functions marked @must_use are diagnosed",
   ["C11|G:must-use-discarded(must-use:builtin)|accepted|*"])
kf("C11", "C11-vector-unknown-element-type", "`vec2<ZzUnknownType>()` (a vector constructor whose element type does not exist) is accepted; the same type in a `var t: vec2<ZzUnknownType>` annotation is rejected",
   ["C11|G:unknown-type(type:vector-element)|accepted|*-ctor-type/*"])
kf("C11", "C11-let-type-annotation-ignored", "the type annotation of a function-scope `let` is never resolved: `let t: ZzUnknownType = array<i32, 4>(1, 2, 3, 4);`, `let t: array<i32, 0> = ...`, `let t: array<i32, KZ> = ...` (const KZ = 0) and even `let t: f32 = 1u;` compile (the same types on a `var` are rejected)",
   ["C11|G:unknown-type(*|accepted|let-type/*", "C11|G:array-size-zero(*|accepted|let-type/*"])
kf("C11", "C11-forward-call-inside-bitcast", "a call inside `bitcast<T>(...)` is invisible to the declaration-order analysis: in an entry point written before the callee, `bitcast<i32>(f1())` / `bitcast<i32>(f1(1, 2))` for `fn f1(a: i32) -> i32` compiles (no argument count/type check), and `bitcast<i32>(fp(1))` for a pointer parameter fails only in ir.Validate, without a source position (in a helper function the valid call fails in the SPIR-V backend: 'function 1 not found in functionIDs')",
   ["C11|G:call-arg-count(*|accepted|bitcast/*/entry/decls-after", "C11|G:call-arg-type(*|accepted|bitcast/*/entry/decls-after", "C11|G:call-arg-type(call-ptr:ptr<-literal)|no-position|bitcast/*/entry/decls-after"], "fixed:8f85c46")

# ---------------------------------------------------------------- C07 (memory layout)
kf("C07", "C07-inner-struct-align-attribute", "the alignment of a struct whose member carries @align(n) is not propagated to the enclosing struct/array: `struct I0 { @align(16) m0: u32 } struct S0 { m0: u32, m1: I0, m2: u32 }` places m1 at offset 4 (span 24) where WGSL has offset 16 (size 48); wrong in the IR, in SPIR-V Offset decorations and in every backend's addressing",
   ["C07|ir-layout|*|F3/struct/{u32,I0{*@align(*)},u32}", "C07|spirv-decorations|*|F3/struct/{u32,I0{*@align(*)},u32}", "C07|spirv|F3/struct/{u32,I0{*@align(*)},u32}|*|mismatch",
    "C07|msl|F3/struct/{u32,I0{*@align(*)},u32}|*|mismatch", "C07|hlsl|F3/struct/{u32,I0{*@align(*)},u32}|*|mismatch", "C07|glsl|F3/struct/{u32,I0{*@align(*)},u32}|*|mismatch", "C07|glsl|F3/array2/I0{*@align(*)}|*|mismatch",
    "C07|ir-layout|*|F3x/X5/*IX{*@align(*", "C07|ir-layout|*|F3x/XO/*IX{*@align(*"])
kf("C07", "C07-glsl-align-size-ignored", "the GLSL backend ignores @align and @size: members are declared back to back in std430/std140 blocks, so every following member is addressed at the wrong offset",
   ["C07|glsl|F3/struct/*@align(*|*|mismatch", "C07|glsl|F3/struct/*@size(*|*|mismatch", "C07|glsl|F3/struct/*@align(*|*|trap:oob-read", "C07|glsl|F3/struct/*@size(*|*|trap:oob-read",
    "C07|glsl-layout|*|*|F3x/*/attr*"])
kf("C07", "C07-glsl-std140-matCx2", "matCx2 values in a uniform (std140) block get column stride 16 where WGSL has 8: later columns/members are read from the wrong bytes (beyond the buffer for the last ones)",
   ["C07|glsl|F3/*x2<f32>*|*|trap:oob-read", "C07|glsl|F3/*x2<f32>*|*|mismatch", "C07|glsl-layout|std140|*|F3x/*matCx2f32"])
kf("C07", "C07-glsl-f16-vector-as-f32", "the GLSL backend declares vecN<f16> / matCxR<f16> members as vecN / matCxR (32-bit float types) while f16 scalars become float16_t: `enable f16; struct S { a: vec2<f16>, b: f32 }` is emitted as `struct S { vec2 a; float b; }`, so the member occupies 8 bytes instead of 4 and every following member, array stride and matrix stride is wrong in the std430/std140 block",
   ["C07|glsl-layout|*|*|F3x/*f16vec*"])
kf("C07", "C07-hlsl-f16-store-width", "a store of an f16 scalar to a storage buffer is emitted as the untemplated `buf.Store(addr, value)` (a 4-byte uint store; loads correctly use `Load<half>`): `enable f16; struct S { a: f16, b: f16 } ... s.a = 1.5h;` becomes `s.Store(0, 1.5h);`, which converts the value to uint and overwrites the 4 bytes at the offset, i.e. also the neighbouring member",
   ["C07|hlsl-address|store: Store of # bytes to a leaf of # bytes (half)|F3x/*"])
kf("C07", "C07-attr-hex-literal-ignored", "@align / @size whose argument is a hexadecimal literal is silently ignored (the literal text is read with a decimal scan, which yields 0 = attribute absent): `struct S { a: f32, @align(0x10) b: f32 }` places b at offset 4 (span 8) where WGSL has offset 16 (size 32); wrong in the IR, inherited by every backend",
   ["C07|ir-layout|*|F3x/XS/*:hex)*", "C07|ir-layout|*|F3x/XS/*:hex-u)*", "C07|ir-layout|*|F3x/XS/*:hex-upper)*"], "fixed:03e9175")
kf("C07", "C07-attr-const-expression-ignored", "@align / @size whose argument is any const-expression other than a single decimal literal (`4 * 4`, `15 + 1`, `8 << 1u`, `u32(16)`, a module-scope `const` declared before or after the struct, typed or not, or an expression over one) is silently ignored: `const K = 16; struct S { a: f32, @align(K) b: f32 }` places b at offset 4 where WGSL has 16; wrong in the IR, inherited by every backend",
   ["C07|ir-layout|*|F3x/XS/*:mul)*", "C07|ir-layout|*|F3x/XS/*:add)*", "C07|ir-layout|*|F3x/XS/*:shift)*", "C07|ir-layout|*|F3x/XS/*:conv)*", "C07|ir-layout|*|F3x/XS/*:const)*",
    "C07|ir-layout|*|F3x/XS/*:const-after)*", "C07|ir-layout|*|F3x/XS/*:const-u32)*", "C07|ir-layout|*|F3x/XS/*:const-i32)*", "C07|ir-layout|*|F3x/XS/*:const-expr)*",
    "C07|ir-layout|*|F3x/XO/*:const)*", "C07|ir-layout|*|F3x/XO/*:const-after)*", "C07|ir-layout|*|F3x/XO/*:const-expr)*"], "fixed:03e9175")
kf("C07", "C07-hlsl-missing-constructor-helper", "loading an array of structs (or array of arrays/matrices) from a storage buffer calls ConstructI0_/Constructarray2_* helper functions that are never emitted",
   ["C07|hlsl|F3/*|*|malformed-output:call of undeclared function \"Construct*"])
kf("C07", "C07-hlsl-uniform-matCx2-in-nested-struct", "a matCx2 member of a struct nested in a uniform struct is read through GetMat<m>On<Struct> helpers that are never emitted; arrays of matCx2 in uniform space index a split matrix value",
   ["C07|hlsl|F3/*|*|malformed-output:call of undeclared function \"GetMat*", "C07|hlsl|F3/*|*|malformed-output:indexing a value of type __mat*", "C07|hlsl|F3/*|*|malformed-output:initialiser: cannot convert __mat*"])
kf("C07", "C07-hlsl-private-array-declaration", "array-typed declarations are spelled with the dimension after the type name (`static T[2] name`, `float3[2] _value2[2]` for private/workgroup arrays and for temporaries of array-of-array stores), which is not HLSL",
   ["C07|hlsl|F3/*|*|malformed-output:array dimension after type name*", "C07|hlsl|F3/array2/array<*|*|malformed-output:type name \"float*\" used as a value"])

# ---------------------------------------------------------------- C15 (hostile data)
kf("C15", "C15-glsl-raw-div-mod", "the GLSL backend emits integer / and % raw: division or remainder by zero (and INT_MIN/-1) is undefined behaviour in GLSL; no wrapper is generated",
   ["C15|glsl|*|F15ops/bin///*|trap:div0", "C15|glsl|*|F15ops/bin/%/*|trap:div0", "C15|glsl|*|F15ops/bin///*|trap:sdiv-overflow", "C15|glsl|*|F15ops/bin/%/*|trap:sdiv-overflow", "C15|glsl|*|F15ops/bin/%/*|trap:mod-negative"])
kf("C15", "C15-glsl-raw-f2i", "the GLSL backend emits float->int conversions as raw int(f)/uint(f): NaN, infinite and out-of-range values are undefined in GLSL (WGSL clamps)",
   ["C15|glsl|*|F15ops/conv/*|trap:f2i-range"])
kf("C15", "C15-spirv-raw-f2i", "the SPIR-V backend emits bare OpConvertFToS/OpConvertFToU: NaN, infinite and out-of-range values are undefined in SPIR-V (WGSL clamps)",
   ["C15|spirv|*|F15ops/conv/*|trap:f2i-range"])
kf("C15", "C15-spirv-no-zero-init-function-private", "function and private variables without initialiser are emitted as OpVariable without initializer: their contents are undefined in SPIR-V (WGSL: zero). Workgroup variables are zero-initialised correctly",
   ["C15|spirv|*|F15zero/function/*|trap:poison", "C15|spirv|*|F15zero/private/*|trap:poison"])
kf("C15", "C15-hlsl-restrict-not-applied-to-buffers", "with RestrictIndexing on, dynamic indices into storage-buffer and uniform access chains (array members, vector components, nested arrays, runtime arrays, atomics) are not clamped: an out-of-range index reads/writes a neighbouring member or beyond the object; only function/private/workgroup arrays get min(uint(i), n-1)",
   ["C15|hlsl|*|F15acc/read/storage-*|wrong-result", "C15|hlsl|*|F15acc/write/storage-*|wrong-result", "C15|hlsl|*|F15acc/read/atomic-load/*|wrong-result", "C15|hlsl|*|F15acc/write/atomic-add/*|wrong-result",
    "C15|hlsl|*|F15acc/read/uniform-*|trap:oob-read", "C15|hlsl|*|F15acc/read/uniform-*|wrong-result",
    "C15|hlsl|*|F15idx/*/storage/*|wrong-result", "C15|hlsl|*|F15idx/read/uniform/*|trap:oob-read", "C15|hlsl|*|F15idx/read/uniform/*|wrong-result",
    # the same sites with every index-expression form (F15xf) and in 2-/3-level chains (F15xc)
    "C15|hlsl|*|F15xf/acc/read/storage-*|wrong-result", "C15|hlsl|*|F15xf/acc/write/storage-*|wrong-result", "C15|hlsl|*|F15xf/acc/read/atomic-load/*|wrong-result", "C15|hlsl|*|F15xf/acc/write/atomic-add/*|wrong-result",
    "C15|hlsl|*|F15xf/acc/read/uniform-*|trap:oob-read", "C15|hlsl|*|F15xf/acc/read/uniform-*|wrong-result",
    "C15|hlsl|*|F15xf/read/storage/*|wrong-result", "C15|hlsl|*|F15xf/write/storage/*|wrong-result", "C15|hlsl|*|F15xf/compound/storage/*|wrong-result",
    "C15|hlsl|*|F15xf/read/uniform/*|trap:oob-read", "C15|hlsl|*|F15xf/read/uniform/*|wrong-result",
    "C15|hlsl|*|F15xc/read/storage/*|wrong-result", "C15|hlsl|*|F15xc/write/storage/*|wrong-result", "C15|hlsl|*|F15xc/compound/storage/*|wrong-result",
    "C15|hlsl|*|F15xc/read/uniform/*|trap:oob-read", "C15|hlsl|*|F15xc/read/uniform/*|wrong-result"])
kf("C15", "C15-hlsl-private-array-declaration", "private arrays are declared `static uint[4] pa` (dimension after the type): not HLSL (same defect as C07-hlsl-private-array-declaration)",
   ["C15|hlsl|*|F15*|malformed-output:array dimension after type name*"])
kf("C15", "C15-hlsl-matrix-helper-on-unemitted-struct", "a storage-only struct with a matCx2 member and a runtime-array tail is not declared in the HLSL text, but the GetMat/SetMat helper functions taking it by value are emitted: unknown type",
   ["C15|hlsl|*|F15acc/*/storage-matrix-column/*|malformed-output:unknown type \"S\"", "C15|hlsl|*|F15xf/acc/*/storage-matrix-column/*|malformed-output:unknown type \"S\""])
kf("C15", "C15-hlsl-matcx2-member-helper-never-emitted", "a struct with a matCx2 member held in a function/workgroup variable or a value is accessed through GetMat<member>On<Struct>(...), but that helper function is never emitted (`x[i].m[j][i]` with m: mat3x2<f32>): call of an undeclared function (same class as the C07 finding that HLSL helper functions are not emitted)",
   ["C15|hlsl|*|F15xc/*/aos*.m3x2/*|malformed-output:call of undeclared function \"GetMat*"])
kf("C15", "C15-hlsl-restrict-loaded-value-unclamped", "with RestrictIndexing on, an array/vector/matrix value LOADED from a storage or uniform buffer and held in a let (`let c = x; c[i]`, `let s = w; s.f[i]`, `let sub = xs[1]; sub[i]`) is indexed without the min(uint(i), n-1) clamp; the same value passed as a function argument, or a constructed let value, is clamped",
   ["C15|hlsl|*|F15xv/let/storage/*|trap:oob-read", "C15|hlsl|*|F15xv/let/uniform/*|trap:oob-read", "C15|hlsl|*|F15xv/member/storage/*|trap:oob-read", "C15|hlsl|*|F15xv/member/uniform/*|trap:oob-read",
    "C15|hlsl|*|F15xv/sub-let/storage/*|trap:oob-read", "C15|hlsl|*|F15xv/sub-let/uniform/*|trap:oob-read"])
kf("C15", "C15-hlsl-nested-array-constructor-never-emitted", "loading an array of arrays from a storage buffer as a value calls Constructarray<N>_<elem>_ for the inner arrays, but only the outermost constructor helper is emitted: call of an undeclared function",
   ["C15|hlsl|*|F15xv/*/storage/*|malformed-output:call of undeclared function \"Constructarray*"])
kf("C15", "C15-msl-rzsw-value-array-unchecked", "under ReadZeroSkipWrite a dynamically indexed let-bound array, vector or matrix value (`va.inner[i]`, `vv[i]`; constructed, loaded, a struct member, a call result, a sub-aggregate) is emitted without any bounds check; function parameters are checked",
   ["C15|msl|index+buffer=read-zero-skip-write(default)|F15acc/read/value-array/*|trap:oob-read", "C15|msl|index+buffer=read-zero-skip-write(default)|F15acc/read/value-vector/*|trap:oob-read",
    "C15|msl|index+buffer=read-zero-skip-write(default)|F15idx/read/value/*|trap:oob-read",
    "C15|msl|index+buffer=read-zero-skip-write(default)|F15xf/acc/read/value-array/*|trap:oob-read", "C15|msl|index+buffer=read-zero-skip-write(default)|F15xf/acc/read/value-vector/*|trap:oob-read",
    "C15|msl|index+buffer=read-zero-skip-write(default)|F15xf/read/value/*|trap:oob-read", "C15|msl|index+buffer=read-zero-skip-write(default)|F15xc/read/value/*|trap:oob-read",
    "C15|msl|index+buffer=read-zero-skip-write(default)|F15xv/let/*|trap:oob-read", "C15|msl|index+buffer=read-zero-skip-write(default)|F15xv/member/*|trap:oob-read",
    "C15|msl|index+buffer=read-zero-skip-write(default)|F15xv/ret/*|trap:oob-read", "C15|msl|index+buffer=read-zero-skip-write(default)|F15xv/ret-let/*|trap:oob-read",
    "C15|msl|index+buffer=read-zero-skip-write(default)|F15xv/sub-let/*|trap:oob-read"])
kf("C15", "C15-msl-restrict-bare-runtime-array-unclamped", "under Index=Buffer=Restrict a dynamic index into a storage global that IS a runtime-sized array (`var<storage> x: array<T>`, not the tail member of a struct) is emitted raw (`x[i]`, `x[i].inner[min(...)]`): no clamp against the buffer size, reads and writes beyond the buffer",
   ["C15|msl|index+buffer=restrict|F15xc/*/storage/rt*-aoa3/*|trap:oob-read", "C15|msl|index+buffer=restrict|F15xc/*/storage/rt*-aoa3/*|trap:oob-write",
    "C15|msl|index+buffer=restrict|F15xf/*/storage/rt*-array<*|trap:oob-read", "C15|msl|index+buffer=restrict|F15xf/*/storage/rt*-array<*|trap:oob-write"])

# ---------------------------------------------------------------- C16 (identifiers)
kf("C16", "C16-glsl-gl-prefix", "a user identifier beginning with gl_ is emitted as gl_<name>_ (only a suffix is appended): GLSL reserves every identifier with the gl_ prefix",
   ["C16|glsl|*|identifier-problem:*|gl_*"])
kf("C16", "C16-glsl-block-member-name-clash", "a user entity named like naga's generated GLSL block member (_group_0_binding_0_cs) clashes with it: the emitted GLSL does not parse / types are confused",
   ["C16|glsl|*|not-well-formed|_group_0_binding_0_cs", "C16|glsl|*|different-result|_group_0_binding_0_cs", "C16|glsl|*|exec*|_group_0_binding_0_cs"])
kf("C16", "C16-user-function-named-RayDesc", "a user function named RayDesc is shadowed by naga's predeclared RayDesc struct: the call `RayDesc(7u)` is lowered as a struct constructor in every backend",
   ["C16|*|FN|*|RayDesc", "C16|*|FN2|*|RayDesc"])
kf("C16", "C16-user-function-named-isnan", "a user function named isnan (not a WGSL builtin) is captured by naga's non-standard builtin table: the call no longer reaches the user's function",
   ["C16|*|FN|*|isnan", "C16|*|FN2|*|isnan"])

# closure / character-structure parts (keys: C16|<backend>|<seed>[.<glsl unit>]:<entity>[+<entity>]|<class>|<name>[+<name>])
def _c16(be, labels):
    out = []
    for l in labels:
        out += ["C16|%s|*|*|%s" % (be, l), "C16|%s|*|*|*+%s" % (be, l)]
    return out
kf("C16", "C16-hlsl-interface-struct-names-unreserved", "the HLSL entry-point interface structs VertexOutput_<ep> / FragmentInput_<ep> are named without consulting the namer: a user struct of that name is declared twice, a user parameter or local of that name hides the struct the entry point needs (`struct VertexOutput_vs {..}` next to `@vertex fn vs`)",
   _c16("hlsl", ["VertexOutput_*", "FragmentInput_*"]))
kf("C16", "C16-hlsl-sampler-heap-names-unreserved", "the HLSL sampler heap arrays nagaSamplerHeap / nagaComparisonSamplerHeap are emitted without reserving the names: a user entity spelled the same is redeclared or captures the heap reference",
   _c16("hlsl", ["nagaSamplerHeap", "nagaComparisonSamplerHeap"]), "fixed:9024c75")
kf("C16", "C16-hlsl-wrapped-function-names-unreserved", "the HLSL helper functions Construct<Type>, GetMat<m>On<S>, SetMat*<m>On<S>, NagaBufferLength* are emitted without reserving their names: a user function, struct or variable spelled the same is redeclared or captures naga's calls",
   _c16("hlsl", ["Construct*", "GetMat*On*", "SetMat*On*", "NagaBufferLength*"]))
kf("C16", "C16-hlsl-constructor-local-ret", "the HLSL Construct<Struct> helper declares its result as `<Struct> ret = (<Struct>)0;`: for a user struct named ret the local hides the type inside its own initialiser",
   _c16("hlsl", ["ret"]))
kf("C16", "C16-hlsl-matrix-column-member-names", "HLSL splits a matCx2 struct member m into members m_0..m_<C-1> without checking the sibling members: `struct M { a: mat3x2<f32>, a_: f32 }` (uniform) emits `float2 a_0; float2 a_1; float2 a_2; float a_1;`",
   ["C16|hlsl|helpers:MMAT+MSCALE|identifier-problem:duplicate|*"])
kf("C16", "C16-msl-tmp-local-unreserved", "the MSL entry-point epilogue declares `const auto _tmp = ...` without consulting the namer: a user parameter or local of the entry point named _tmp is declared twice",
   _c16("msl", ["_tmp"]), "fixed:9cae14f")
kf("C16", "C16-msl-predeclared-result-names-unreserved", "the MSL names of the modf/frexp/atomic-compare-exchange result structs and of the naga_atomic_compare_exchange_weak_explicit helper are not reserved: a user struct or function spelled the same is declared twice or captures naga's uses",
   _c16("msl", ["_modf_result_*", "_frexp_result_*", "_atomic_compare_exchange_result_*", "naga_atomic_compare_exchange_weak_explicit"]))
kf("C16", "C16-msl-underscore-capital", "a user identifier beginning with an underscore followed by a capital letter (`_A`) is emitted unchanged in MSL; C++14 [lex.name] reserves such identifiers to the implementation for any use",
   ["C16|msl|chars:*|identifier-problem:reserved-underscore-capital|*"])
kf("C16", "C16-glsl-generated-global-names-unreserved", "the GLSL backend's generated global names (interface block names <type>_block_<n><Stage>, block members / uniforms _group_<g>_binding_<b>_<stage>, naga_vs_first_instance) are not reserved: a user entity spelled the same is redeclared or captures the resource reference (same defect as C16-glsl-block-member-name-clash, every stage and every generated global)",
   _c16("glsl", ["_group_*_binding_*", "*_block_*", "naga_vs_first_instance"]))
kf("C16", "C16-glsl-helper-names-unreserved", "the GLSL helper functions naga_modf / naga_frexp are emitted without reserving their names: a user entity spelled the same is redeclared or captures naga's calls",
   _c16("glsl", ["naga_modf", "naga_frexp"]), "fixed:b3e2976")

# ---------------------------------------------------------------- C17 (bindings / interfaces)
kf("C17", "C17-spirv-invariant-dropped", "the SPIR-V backend never emits the Invariant decoration: `@builtin(position) @invariant` outputs (bare or struct members) carry only BuiltIn Position",
   ["C17|spirv1.1:invariant|*", "C17|spirv1.4:invariant|*"])
kf("C17", "C17-msl-struct-plus-bare-fragment-input", "MSL: a fragment entry point taking a struct parameter AND a bare @location parameter (`fn fs(inp: S, @location(4) x: f32)`) loses the struct's members: the [[stage_in]] struct holds only the bare parameter, the members' [[user(locN)]] attributes are emitted nowhere and the body reads `varyings_1.` with empty member names",
   ["C17|msl:location-attribute:member|F5X/loc/mixed-bare/*", "C17|msl:location-attribute:member|F5X/loc/mixed-member/*"])

# ---------------------------------------------------------------- C06 (compile-time evaluation); exact key lists in kf_c06_keys.json
_c06 = json.load(open("kf_c06_keys.json"))
kf("C06", "C06-module-const-evaluator-incomplete", "the module-scope constant evaluator rejects valid constant expressions: builtin calls (select, min, max, clamp, abs, dot, ...), boolean operators, several operators on vectors, unary operators on some operand forms (\"unsupported call expression\", \"expected integer literal, got BoolLiteral\", ...)", _c06["modconst-rejected"])
kf("C06", "C06-module-const-wrong-value", "module-scope constants are folded to wrong values: vector comparisons (==, != ...) and bitwise/logical operators on vectors and bools yield results of another lane or all-false, shifts of vectors by vectors use the wrong lane", _c06["modconst-wrong"])
kf("C06", "C06-named-constant-operands", "expressions over named module constants (`const a = ...; a op b`) are folded or emitted wrongly: matrix sums/products and mix() over named constants give zero or malformed SPIR-V, integer results differ from run-time evaluation", _c06["named"])
kf("C06", "C06-division-by-zero-accepted", "integer / and % by zero in a constant expression is accepted for vector operands in every context (and for module constants): WGSL makes it a shader-creation error", _c06["div0"])
kf("C06", "C06-const-assert-not-evaluated", "const_assert silently accepts a false assertion whenever its expression is outside what the assertion evaluator supports (many operators/builtins), and rejects some true assertions because the evaluator computes a wrong value", _c06["const_assert"])
kf("C06", "C06-array-size-not-evaluated", "an array size given by a builtin call or bit operation (`array<u32, (countOneBits(1u))>`) is not evaluated: the lowered type has no constant size", _c06["array-size"])
kf("C06", "C06-workgroup-size-not-evaluated", "@workgroup_size(E) for E outside literals/simple identifiers (`7u / 1u`, `min(2i, 9i)`, `0u | 7u`) silently becomes 1", _c06["workgroup_size"])
kf("C06", "C06-switch-selector-unsupported", "switch case selectors that are constant expressions with builtin calls are rejected (\"unsupported function in constant expression\")", _c06["switch"])
kf("C06", "C06-matrix-scalar-constructor", "matCxR<f32>(scalars...) and abstract-literal vector constructors stored directly produce malformed SPIR-V (a vector constructed from all matrix scalars; store type mismatch)", _c06["spirv-constructor"])
kf("C06", "C06-extractBits-abstract-literal", "extractBits on a bare negative literal is folded without sign extension (the abstract literal is treated as unsigned)", _c06["fold-other"])
kf("C06", "C06-compile-time-context-syntax", "`const_assert (a + b) == c;` (assertion starting with a parenthesis) and `array<u32, 1u | 2u>` (bit-or in a template argument) are rejected by the parser", _c06["syntax"])
kf("C06", "C06-non-representable-value-accepted", "no representability check anywhere: an abstract value that does not fit the type its context requires is accepted and wrapped / saturated instead of being a shader-creation error — `const x: u32 = -1;`, `let x: i32 = 2147483648;`, `const x: i32 = 2147483647 + 1;`, `u32(-1)`, `vec2<u32>(-1, 0u)`, `f(4294967296)`, `const a = 2 - 5; const x: u32 = a;`, `const x: f32 = 1e39;`; out-of-range suffixed literals (`2147483648i`, `4294967296u`, `1e39f`), AbstractInt overflow (`9223372036854775807 + 1`) and f32 constant-expression overflow (`3e38f * 10f`) are accepted too",
   ["C06|representable|%s|%s|accepted" % (c, t) for c in ("modconst", "fnconst", "let", "var", "private-init", "conversion", "vector-component", "named-abstract", "argument") for t in ("i32", "u32", "f32")] +
   ["C06|representable|literal|%s|accepted" % t for t in ("i32", "u32", "f32", "abstract-int")] +
   ["C06|representable|abstract-arithmetic|abstract-int|accepted", "C06|representable|concrete-overflow|f32|accepted", "C06|representable|concrete-overflow(fn)|f32|accepted"])
# C06, families F6c2 (chains through named constants) and F6c3 (structural folds): triaged by kf_c06x_triage.py
# (findings = family x attribution x failure category; descriptions and keys in kf_c06x_keys.json)
_c06x = json.load(open("kf_c06x_keys.json"))
for _id in sorted(_c06x):
    kf("C06", _id, _c06x[_id]["what"], _c06x[_id]["keys"])

# ---------------------------------------------------------------- C14 (overrides); pattern lists in kf_c14_keys.json
# (generated from a run on the unchanged tree by tools/c14keys.py: one list per finding x sub-space of the check; a
#  pattern with a wild-carded class covers only prefixes under which EVERY construct class fails that way today)
_c14 = json.load(open("kf_c14_keys.json"))
_c14_space = {
    "spell": "spellings of defaults / literal operands in initialisers",
    "shape": "dependency shapes over <= 3 overrides",
    "comp": "overrides in composite constructors and with named constants",
    "ops": "every scalar operator/builtin/conversion/bitcast on an override, in a function body, a helper, a derived initialiser or a module-scope var initialiser",
    "chain": "depth-2 chains of core operators on an override",
    "cf": "F2 control-flow trees steered by overrides",
    "inj": "override use injected into F1 / F4 carrier programs",
    "hist": "operation histories on one lowered module",
}
_c14_what = {
    "derived": ("C14-derived-override-evaluation", "ir.ProcessOverrides evaluates override initialisers, global initialisers and the override-only sub-expressions of function bodies through float64 with only + - * / implemented: %, bit operators, shifts, comparisons, logical and unary operators, conversions, bitcasts, select and builtin calls get a wrong value (often the value of the operand, zero, or the default), integer semantics (truncating division of an intermediate, wrap-around, values above 2^24 / 2^31) are lost, u32 constants above 2^31 reach MSL as out-of-range float conversions, or resolution fails with \"no value provided and no default initializer\" for an override that has one (suffixed literals, conversion calls, most operators in the initialiser)"),
    "nested": ("C14-nested-use-corruption", "after ProcessOverrides the function has ill-typed or corrupted expressions: a folded sub-expression is replaced by a literal of another type (float where bool/uint is required, `~` on a float, abstract-int operands left in builtin calls; MSL temporaries `reinterpreted_packed_*` of dot4I8Packed/dot4U8Packed referenced but no longer declared after the function was rebuilt): the IR interpreter, the SPIR-V reader and the text interpreters reject the output as malformed"),
    "spirv": ("C14-spirv-after-resolution", "ProcessOverrides then SPIR-V: a resolved override that is referenced directly is emitted as OpConstantNull (every direct use reads zero), in addition to the evaluation defects of C14-derived-override-evaluation; some folded expressions give OpStore / OpBranchConditional type mismatches"),
    "mslpc": ("C14-msl-pipeline-constants", "msl.Options.PipelineConstants: a missing value without default is accepted; derived overrides and module-scope initialisers that reference overrides, negative defaults (unary minus), comparisons / logical / bit / shift operators and most builtins are folded wrongly or not at all (absent and supplied values give wrong results; round() folds half away from zero)"),
    "glslpc": ("C14-glsl-pipeline-constants", "glsl.Options.PipelineConstants: with an empty map overrides are left unresolved (\"unsupported expression kind: ir.ExprOverride\"); otherwise the same wrong values, errors and ill-formed output as the ProcessOverrides route"),
    "caller": ("C14-caller-module-modified", "override resolution on ir.CloneModuleForOverrides alters the caller's module: statements inside nested blocks, and the slice / pointer fields of top-level statements (call Arguments, call Result, return Value) are shared with the clone and renumbered in place (see C12-overrides-shallow-clone); the changed part is in the key"),
    "history": ("C14-history-dependent-result", "consequence of C14-caller-module-modified: after a first resolution of a module with nested blocks, a second resolution / MSL / GLSL compilation of the SAME module gives a different result than on a freshly lowered module"),
}
for _k in sorted(_c14):
    _m, _p = _k.split("|")
    _id, _w = _c14_what[_m]
    kf("C14", _id + "." + _p, _w + " [sub-space " + _p + ": " + _c14_space[_p] + "]", _c14[_k])

# ---------------------------------------------------------------- F3 / F4acc findings mirrored into the per-backend semantic checks
# (the same defects as the C07 entries, observed through the C01/C03/C04/C05 checks, whose keys are prop|shape|config|class)
def _mirror():
    be2prop = {"spirv": "C01", "hlsl": "C03", "msl": "C04", "glsl": "C05"}
    for e in list(K):
        if e["property"] != "C07":
            continue
        per = {}
        for key in e["keys"]:
            p = key.split("|")
            if len(p) >= 3 and p[1] in be2prop:
                per.setdefault(be2prop[p[1]], []).append("|".join([be2prop[p[1]]] + p[2:]))
        for prop, keys in per.items():
            kf(prop, e["id"].replace("C07-", prop + "-layout-"), e["what"] + " (same defect as " + e["id"] + ", seen by the semantic check)", keys)
_mirror()

kf("C03", "C03-private-array-declaration", "private arrays are declared `static uint[4] pa` (dimension after the type): not HLSL (same defect as C07-hlsl-private-array-declaration)",
   ["C03|F4acc/*/private-array|*|malformed-output:array dimension after type name*", "C03|F4idx/*/private/array<*|*|malformed-output:array dimension after type name*"])
kf("C03", "C03-matrix-helper-on-unemitted-struct", "a storage-only struct with a matCx2 member and a runtime-array tail is not declared in the HLSL text, but GetMat/SetMat helpers taking it by value are emitted (same defect as C15-hlsl-matrix-helper-on-unemitted-struct)",
   ["C03|F4acc/*/storage-matrix-column|*|malformed-output:unknown type \"S\""])

kf("C05", "C05-uniform-matCx2-dynamic-column", "a matCx2 directly in a uniform block is laid out std140 (column stride 16) while WGSL uses stride 8: dynamic column reads address the wrong bytes / beyond the buffer (same defect as C07-glsl-std140-matCx2)",
   ["C05|F4idx/*/uniform/mat2x2<f32>|*|*", "C05|F4idx/*/uniform/mat3x2<f32>|*|*", "C05|F4idx/*/uniform/mat4x2<f32>|*|*"])

kf("C14", "C14-override-sized-workgroup-array", "ir.ProcessOverrides leaves the size of `var<workgroup> w: array<u32, X>` unresolved (no constant size in the resolved module) for every way of supplying X",
   ["C14|sizes|*|array-size"])
kf("C14", "C14-workgroup-size-override-dimensions", "an override in @workgroup_size is resolved only in the x dimension of a module's single entry point: as y or z argument (`@workgroup_size(2, X)`), with a second entry point in the module, or when the size is a derived override declared before the override it depends on, every backend (SPIR-V LocalSize, HLSL numthreads, GLSL local_size, also via glsl.Options.PipelineConstants) emits 1 for that dimension",
   ["C14|sizes|dim-y|workgroup-size:*", "C14|sizes|dim-z|workgroup-size:*", "C14|sizes|dims-xyz|workgroup-size:*", "C14|sizes|second-entry-point|workgroup-size:*", "C14|sizes|derived-reverse|workgroup-size:*"])

json.dump(K, open("known_findings.json", "w"), indent=1)
print(len(K), "entries")
