#!/usr/bin/env python3
# Authoring aid (never run by a registered command): writes known_findings.json from the tables below.
import json
K = []
def kf(prop, id, what, keys, status="open"):
    K.append({"property": prop, "id": id, "status": status, "what": what, "keys": keys})

# ---------------------------------------------------------------- C08
kf("C08", "C08-validator-break-in-switch", "ir.Validate reported \"break outside of loop\" for break inside switch in a helper function",
   ["C08|validate|-|in function *: break outside of loop|*", "C08|compile|default|validation failed: in function *: break outside of loop|*"], "fixed:761830e")
kf("C08", "C08-validator-binding-per-entry-point", "ir.Validate reported \"duplicate binding\" when two entry points reuse one @group/@binding",
   ["C08|validate|-|global variable *: duplicate binding*", "C08|compile|default|validation failed: global variable *: duplicate binding*"], "fixed:1a22194")
kf("C08", "C08-spirv-relational", "SPIR-V backend rejected run-time all()/any() with \"unsupported expression kind: ir.ExprRelational\"",
   ["C08|spirv|*|SPIR-V generation error: unsupported expression kind: ir.ExprRelational|*"], "fixed:993a41a")
kf("C08", "C08-deref-compound-assign", "`*p += v` with p a pointer parameter was lowered to Binary(pointer, v): SPIR-V backend error \"binary operator on non-numeric type: ir.PointerType\"",
   ["C08|spirv|*|SPIR-V generation error: binary operator on non-numeric type: ir.PointerType|*"], "fixed:58d413a")
kf("C08", "C08-spirv-matrix-negate", "SPIR-V backend rejects unary minus on a matrix (\"unary operator on non-numeric type: ir.MatrixType\"); HLSL/MSL/GLSL accept it",
   ["C08|spirv|*|SPIR-V generation error: unary operator on non-numeric type: ir.MatrixType|F1/un/-/mat*",
    "C08|compile|default|SPIR-V generation error: SPIR-V generation error: unary operator on non-numeric type: ir.MatrixType|F1/un/-/mat*"])

# ---------------------------------------------------------------- C01 (SPIR-V semantics)
kf("C01", "C01-fmod", "f32 `%` is emitted as OpFMod (floored, sign of divisor); WGSL prescribes the truncated remainder (sign of dividend), e.g. -7.5 % 2.0 gives 0.5 instead of -1.5",
   ["C01|F1/bin/%/*f32*|*|mismatch"])
kf("C01", "C01-shift-unmasked", "`<<`/`>>` pass the shift count to OpShift* unmasked; a count >= 32 is undefined in SPIR-V while WGSL takes it modulo 32",
   ["C01|F1/bin/<</*|*|trap:shift-range", "C01|F1/bin/>>/*|*|trap:shift-range"])
kf("C01", "C01-bitfield-unclamped", "extractBits/insertBits pass offset and count unclamped to OpBitField*; offset+count > 32 is undefined in SPIR-V while WGSL clamps both",
   ["C01|F1/call/extractBits/*|*|trap:bitfield-range", "C01|F1/call/insertBits/*|*|trap:bitfield-range"])
kf("C01", "C01-clz-ctz", "countLeadingZeros/countTrailingZeros are emitted as bare FindUMsb/FindSMsb/FindILsb: clz(x) returns the msb index instead of 31-msb, and clz(0)/ctz(0) return -1 instead of 32",
   ["C01|F1/call/countLeadingZeros/*|*|mismatch", "C01|F1/call/countTrailingZeros/*|*|mismatch"])
kf("C01", "C01-round-ties", "round() is emitted as GLSL.std.450 Round, whose tie direction is implementation-chosen; WGSL requires ties-to-even (RoundEven)",
   ["C01|F1/call/round/*|*|mismatch"])
kf("C01", "C01-abs-unsigned", "abs(u32) is emitted as SAbs, so abs(0xFFFFFFFFu) yields 1 instead of 0xFFFFFFFF (abs on unsigned is the identity)",
   ["C01|F1/call/abs/*u32*|*|mismatch"])
kf("C01", "C01-switch-all-break-unreachable", "a switch whose every clause ends in break (e.g. `switch x { case 0: { break; } default: { break; } }`) branches to a merge block terminated by OpUnreachable, which is then executed",
   ["C01|F2/*|*|trap:unreachable"])

# ---------------------------------------------------------------- C03 (HLSL semantics)
kf("C03", "C03-clz-ctz", "countLeadingZeros/countTrailingZeros are emitted as bare firstbithigh/firstbitlow (clz(1)=0, ctz(0)=0xFFFFFFFF instead of 32)",
   ["C03|F1/call/countLeadingZeros/*|*|mismatch", "C03|F1/call/countTrailingZeros/*|*|mismatch"])
kf("C03", "C03-transpose-type", "`let t = transpose(m)` for a non-square matrix declares t with the argument's type (floatCxR instead of floatRxC): a type error in HLSL",
   ["C03|F1/call/transpose/*|*|malformed-output"])
kf("C03", "C03-sign-int", "sign(f32) result is stored through asuint(sign(x)); HLSL sign() returns int, so -1.0 is written as 0xFFFFFFFF instead of 0xBF800000",
   ["C03|F1/call/sign/*f32*|*|mismatch"])
kf("C03", "C03-inverse-hyperbolic", "asinh/acosh/atanh are emitted as calls to functions HLSL does not have (undeclared identifier)",
   ["C03|F1/call/asinh/*|*|malformed-output", "C03|F1/call/acosh/*|*|malformed-output", "C03|F1/call/atanh/*|*|malformed-output"])

# ---------------------------------------------------------------- C04 (MSL semantics)
kf("C04", "C04-round-ties", "round() is emitted as metal::round (ties away from zero); WGSL requires ties-to-even (metal::rint)",
   ["C04|F1/call/round/*|*|mismatch"])
kf("C04", "C04-firstLeadingBit-u32", "firstLeadingBit(u32) guards with `x == 0 || x == -1`; for unsigned x the second test matches 0xFFFFFFFF, which yields 0xFFFFFFFF instead of 31",
   ["C04|F1/call/firstLeadingBit/*u32*|*|mismatch"])
kf("C04", "C04-int-dot-overflow", "dot() on i32 vectors is emitted as plain `a.x * b.x + ...` on int; signed overflow is undefined in MSL/C++ (WGSL wraps)",
   ["C04|F1/call/dot/*i32*|*|trap:signed-overflow"])

# ---------------------------------------------------------------- C05 (GLSL semantics)
kf("C05", "C05-vector-select-ternary", "select() with a vector condition is emitted as `bvec ? a : b`; the ?: condition must be a scalar bool in GLSL (invalid at every version)",
   ["C05|F1/call/select/*|*|malformed-output"])
kf("C05", "C05-clz-ctz", "countTrailingZeros is emitted as findLSB (ctz(0) = -1 instead of 32) and countLeadingZeros(i32) as 31 - findMSB(x) (wrong for negative x); for u32 both are int expressions assigned to uint (a type error in ES)",
   ["C05|F1/call/countLeadingZeros/*|*|m*", "C05|F1/call/countTrailingZeros/*|*|m*"])
kf("C05", "C05-abs-unsigned", "abs(u32) is emitted as abs(uint), which GLSL does not define (type error)",
   ["C05|F1/call/abs/*u32*|*|malformed-output"])

# ---------------------------------------------------------------- C10 (robustness)
kf("C10", "C10-swizzle-chain-exponential", "a chained swizzle `v.xyzw.xyzw...` makes lowering time grow exponentially: 64 links (under 400 bytes of source) exceed the CPU cap",
   ["C10|cpu-cap|ladder:swizzle-chain n=*"])
kf("C10", "C10-glsl-zero-init-oom", "GLSL writer expands the zero value of a huge private array element by element (zeroInitValue): `var<private> a: array<i32, 2147483647>` dies with out-of-memory",
   ["C10|fatal|out of memory|glsl/internal/codegen.(*Writer).zeroInitValue"])
kf("C10", "C10-dxil-load-store-recursion", "DXIL emitter recurses forever (tryLoadSingleStore -> emitExpression -> emitLoad ...) on a compound assignment to a struct member whose only store depends on a load of itself (`out.pos /= m * v;`): stack overflow on a valid program",
   ["C10|fatal|stack overflow|dxil/internal/emit.(*Emitter).emitBinary+*+dxil/internal/emit.(*Emitter).emitLoad+*dxil/internal/emit.(*Emitter).tryLoadPromotedLocal*"])
kf("C10", "C10-lower-nested-vec-template", "`vec2<vec2<f32>>` (vector of vector) panics in resolveParameterizedType: interface conversion ir.VectorType, not ir.ScalarType",
   ["C10|panic|*|interface conversion: ir.TypeInner is ir.VectorType, not ir.ScalarType|wgsl/internal/lower.(*Lowerer).resolveParameterizedType"])
kf("C10", "C10-lower-template-args-index", "a template type with missing arguments (e.g. `mat4x4<>`/`vec3<>` after a byte edit) panics in resolveParameterizedType: index out of range",
   ["C10|panic|*|runtime error: index out of range [#] with length #|wgsl/internal/lower.(*Lowerer).resolveParameterizedType"])
kf("C10", "C10-lower-texture-sample-args", "textureSample* called with too few arguments panics in lowerTextureSample: index out of range",
   ["C10|panic|*|runtime error: index out of range [#] with length #|wgsl/internal/lower.(*Lowerer).lowerTextureSample"])
kf("C10", "C10-spirv-void-call-value", "a value-less call used as an argument (`g(v())`) lowers to handle 0 and the SPIR-V backend indexes past the expression arena in emitExpression: index out of range",
   ["C10|panic|spirv*|runtime error: index out of range [#] with length #|spirv/internal/codegen.(*ExpressionEmitter).emitExpression"])
kf("C10", "C10-spirv-consume-block-nil", "code after a `continue`/`break` at the end of a loop body construct (token edit of loops_all_forms) leaves no current block: nil dereference in consumeBlock",
   ["C10|panic|*|runtime error: invalid memory address or nil pointer dereference|spirv/internal/codegen.(*ExpressionEmitter).consumeBlock"])

json.dump(K, open("known_findings.json", "w"), indent=1)
print(len(K), "entries")
